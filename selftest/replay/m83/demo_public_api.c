// NOT a seed: reproducer for a defect found in UNMODIFIED /repo HEAD (495b729)
// while preparing seed 3.
//
// Concurrent queue, one thread flips dispatch_queue_set_width(q, 2|3) (when the
// trysync fast path fails this enqueues barrier items), another thread does
// balanced dispatch_suspend()/dispatch_resume() pairs. After some 10^6 pairs the
// queue wedges: not suspended, not locked, not enqueued, but its width field is
// over-committed (dispatch_debug shows e.g. width = 0x2, in-flight = 3, state
// 0x0020029400000000), so nothing submitted to it runs any more.
//
// Mechanism (src/queue.c _dispatch_lane_drain + src/inline_internal.h):
//  1. a drainer that is not in barrier mode reaches a barrier item;
//     _dispatch_queue_try_upgrade_full_width() fails (queue suspended by the
//     other thread, or items in flight) but has already stored
//     PENDING_BARRIER + (width-1) reserved slots -> out_with_no_width
//     (owned := only the ENQUEUED bit);
//  2. _dispatch_queue_drain_try_unlock() fails because the queue is no longer
//     suspended and DIRTY is set (the resume saw the drain lock) ->
//     goto attempt_running_slow_head, the drain function is re-entered with
//     owned == 0;
//  3. the queue has been suspended again: the loop breaks at first_iteration
//     with dc == the barrier item and _dispatch_queue_adjust_owned() subtracts
//     PENDING_BARRIER + (width-1) slots a SECOND time;
//     _dispatch_queue_invoke_finish() stores old_state - owned: the second
//     PENDING_BARRIER carries into the width field, width+... slots leak.
// Build: clang-16 -fblocks -Wno-deprecated-declarations -I<repo> this.c -L<build> -ldispatch -lBlocksRuntime -lpthread
// Run:   LIBDISPATCH_LOG=stderr ./a.out 120     (FAIL line + dispatch_debug dump when it wedges)
// C06 demo: N dispatch_suspend() need exactly N dispatch_resume().
// One thread keeps changing the width of an (otherwise idle) concurrent queue
// with dispatch_queue_set_width(); another thread does balanced
// dispatch_suspend()/dispatch_resume() pairs on the same queue. After any
// number of balanced pairs an item submitted to the queue has to run.
#include <dispatch/dispatch.h>
#include <pthread.h>
#include <stdio.h>
#include <stdlib.h>
#include <stdatomic.h>
#include <unistd.h>
#include <time.h>

// exported SPI (private/queue_private.h)
extern void dispatch_queue_set_width(dispatch_queue_t dq, long width);

static dispatch_queue_t q;
static atomic_int stop, pause_a, a_idle;
static atomic_long probes_ran;
static atomic_long width_calls;

static void probe(void *ctx)
{
	(void)ctx;
	atomic_fetch_add(&probes_ran, 1);
}

static atomic_int inflight;
static void noop(void *c){(void)c; atomic_fetch_sub(&inflight,1);}
static void *width_changer(void *arg)
{
	(void)arg;
	long n = 0;
	while (!atomic_load_explicit(&stop, memory_order_relaxed)) {
		if (atomic_load_explicit(&pause_a, memory_order_acquire)) {
			atomic_store(&a_idle, 1);
			while (atomic_load_explicit(&pause_a, memory_order_acquire) &&
					!atomic_load(&stop)) { }
			atomic_store(&a_idle, 0);
			continue;
		}
		if (atomic_load(&inflight) < 64) { atomic_fetch_add(&inflight, 1); dispatch_barrier_async_f(q, NULL, noop); }
		n++;
	}
	atomic_store(&width_calls, n);
	return NULL;
}

static double now(void)
{
	struct timespec ts;
	clock_gettime(CLOCK_MONOTONIC, &ts);
	return ts.tv_sec + ts.tv_nsec / 1e9;
}

static inline void spin(int n)
{
	for (volatile int i = 0; i < n; i++) { }
}

int main(int argc, char **argv)
{
	double secs = argc > 1 ? atof(argv[1]) : 20.0;
	pthread_t th;
	long pairs = 0, probes = 0;

	q = dispatch_queue_create("c06.width", DISPATCH_QUEUE_CONCURRENT);
	pthread_create(&th, NULL, width_changer, NULL);

	double t0 = now();
	int failed = 0;
	while (!failed && now() - t0 < secs) {
		for (int i = 0; i < 512; i++) {
			dispatch_suspend(q);
			spin((int)(pairs % 23) * 3);
			dispatch_resume(q);
			pairs++;
		}
		// every suspend so far has been matched by a resume: the queue must
		// run what is submitted to it
		atomic_store(&pause_a, 1);
		while (!atomic_load(&a_idle)) { }
		probes++;
		dispatch_async_f(q, NULL, probe);
		double t1 = now();
		while (atomic_load(&probes_ran) < probes) {
			if (now() - t1 > 3.0) { failed = 1; dispatch_debug(q, "wedged"); break; }
			usleep(20);
		}
		atomic_store(&pause_a, 0);
	}
	atomic_store(&stop, 1);
	pthread_join(th, NULL);
	printf("%ld balanced suspend/resume pairs, %ld set_width calls, "
			"%ld/%ld probes ran\n", pairs, atomic_load(&width_calls),
			atomic_load(&probes_ran), probes);
	if (failed) {
		printf("FAIL: after %ld dispatch_suspend() and %ld dispatch_resume() "
				"the queue still does not run submitted items\n", pairs, pairs);
		return 1;
	}
	printf("PASS\n");
	return 0;
}
