#include <dispatch/dispatch.h>
#include <stdio.h>
#include <stdlib.h>
#include <unistd.h>
#include <stdatomic.h>
static atomic_int destroyed, handled, herr;
int main(void){
	int p[2]; if (pipe(p)) return 2;
	int bad = p[1]; close(p[0]); close(p[1]);   /* `bad` is now an invalid descriptor */
	char *buf = malloc(64);
	dispatch_queue_t q = dispatch_get_global_queue(0, 0);
	dispatch_data_t d = dispatch_data_create(buf, 64, q, ^{ free(buf); atomic_fetch_add(&destroyed, 1); });
	dispatch_write(bad, d, q, ^(dispatch_data_t rest, int error){ (void)rest; atomic_store(&herr, error); atomic_store(&handled, 1); });
	dispatch_release(d);                        /* the application's only reference */
	for (int i = 0; i < 300 && !(atomic_load(&handled) && atomic_load(&destroyed)); i++) usleep(10000);
	printf("handler ran=%d error=%d; data destructor ran %d time(s)\n", atomic_load(&handled), atomic_load(&herr), atomic_load(&destroyed));
	if (atomic_load(&destroyed) != 1) { printf("FAIL: the data object passed to dispatch_write was never released\n"); return 1; }
	printf("PASS\n"); return 0;
}
