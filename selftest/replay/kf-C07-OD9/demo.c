#include <dispatch/dispatch.h>
#include <pthread.h>
#include <stdio.h>
#include <unistd.h>
#include <stdatomic.h>
static dispatch_group_t g;
static atomic_int ranX, ranY;
static void *leaver(void *a){ (void)a; dispatch_group_leave(g); return NULL; }
static void fx(void *c){ (void)c; atomic_store(&ranX,1); }
static void fy(void *c){ (void)c; atomic_store(&ranY,1); }
int main(void){
	dispatch_queue_t q = dispatch_get_global_queue(0,0);
	g = dispatch_group_create();
	dispatch_group_enter(g);                 /* generation N */
	dispatch_group_notify_f(g, q, NULL, fx); /* X waits for generation N */
	pthread_t t; pthread_create(&t, NULL, leaver, NULL); /* last leave of generation N */
	usleep(20000);
	dispatch_group_enter(g);                 /* generation N+1: entered BEFORE the notify below */
	dispatch_group_notify_f(g, q, NULL, fy); /* Y must wait for our leave */
	usleep(400000);
	int early = atomic_load(&ranY);
	printf("X ran=%d; Y ran before the work entered before it left: %d\n", atomic_load(&ranX), early);
	dispatch_group_leave(g);
	pthread_join(t, NULL);
	usleep(200000);
	printf("after leave: Y ran=%d\n", atomic_load(&ranY));
	return early ? 1 : 0;
}
