#include <dispatch/dispatch.h>
#define __DISPATCH_INDIRECT__ 1
#include <private/data_private.h>
#undef __DISPATCH_INDIRECT__
#include <stdio.h>
#include <string.h>
int main(void){
	int fails = 0;
	/* UTF-8 encodings of surrogate code points are ill-formed: the UTF-8 -> UTF-16 transform must reject every one of them (it rejects D800..DFFE) */
	unsigned cps[] = {0xd800, 0xdbff, 0xdc00, 0xdffe, 0xdfff};
	for (unsigned k = 0; k < sizeof(cps)/sizeof(cps[0]); k++) {
		unsigned cp = cps[k];
		unsigned char u8[3] = { (unsigned char)(0xe0 | (cp >> 12)), (unsigned char)(0x80 | ((cp >> 6) & 0x3f)), (unsigned char)(0x80 | (cp & 0x3f)) };
		dispatch_data_t in = dispatch_data_create(u8, 3, NULL, DISPATCH_DATA_DESTRUCTOR_DEFAULT);
		dispatch_data_t u16 = dispatch_data_create_with_transform(in, DISPATCH_DATA_FORMAT_TYPE_UTF8, DISPATCH_DATA_FORMAT_TYPE_UTF16LE);
		if (u16) {
			dispatch_data_t back = dispatch_data_create_with_transform(u16, DISPATCH_DATA_FORMAT_TYPE_UTF16LE, DISPATCH_DATA_FORMAT_TYPE_UTF8);
			printf("U+%04X: UTF-8 -> UTF-16 produced %zu bytes; inverse transform %s\n", cp, dispatch_data_get_size(u16), back ? "accepts it" : "REJECTS it (NULL)");
			if (!back) fails++;
		} else {
			printf("U+%04X: rejected by UTF-8 -> UTF-16 (ok)\n", cp);
		}
	}
	printf(fails ? "FAIL\n" : "PASS\n");
	return fails ? 1 : 0;
}
