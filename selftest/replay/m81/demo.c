#include <dispatch/dispatch.h>
#include <pthread.h>
#include <stdio.h>
#include <unistd.h>
#include <stdatomic.h>
extern volatile int _replay_stall_us; extern __thread int _replay_me;
static dispatch_queue_t q;
static atomic_int a2_done, order_bad;
static void A(void *c){ (void)c; }
static void A2(void *c){ (void)c; atomic_store(&a2_done,1); }
static void B(void *c){ (void)c; if(!atomic_load(&a2_done)) atomic_store(&order_bad,1); }
static void *t1(void *x){ (void)x; _replay_me=1; dispatch_async_f(q,NULL,A); return NULL; }
int main(void){
  q=dispatch_queue_create("serial",NULL);
  _replay_stall_us=300000;
  pthread_t th; pthread_create(&th,NULL,t1,NULL);
  usleep(100000);                      /* T1 has swapped the tail and is stalled before dx_wakeup(MAKE_DIRTY) */
  dispatch_async_f(q,NULL,A2);         /* this thread: A2 first ... */
  dispatch_sync_f(q,NULL,B);           /* ... then B, synchronously: must run after A2 */
  pthread_join(th,NULL);
  dispatch_sync_f(q,NULL,A);
  if(atomic_load(&order_bad)){ printf("FAIL: dispatch_sync item B ran before A2, which the same thread had submitted (async) to the same serial queue earlier\n"); return 1;}
  printf("PASS\n"); return 0; }
