#include <dispatch/dispatch.h>
#include <sys/mman.h>
#include <stdio.h>
#include <string.h>
#include <unistd.h>
int main(void){
	size_t n = 4096;
	void *p = mmap(NULL, n, PROT_READ|PROT_WRITE, MAP_PRIVATE|MAP_ANONYMOUS, -1, 0);
	memset(p, 'x', n);
	dispatch_data_t d = dispatch_data_create(p, n, NULL, DISPATCH_DATA_DESTRUCTOR_MUNMAP);
	printf("size=%zu\n", dispatch_data_get_size(d));
	dispatch_release(d);
	usleep(200000);
	/* after release the mapping must be gone: msync on an unmapped page fails with ENOMEM */
	int r = msync(p, n, MS_ASYNC);
	printf("after release: msync=%d (%s)\n", r, r ? "unmapped: ok" : "STILL MAPPED");
	return r ? 0 : 1;
}
