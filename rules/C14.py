"""C14 - dispatch I/O delivers every byte once, in order; each operation completes once.

The behavioural core (byte conservation under every kernel chunking, ordering of asynchronous handler invocations chained
through queues at run time) is NOT decidable statically here. Only narrow structural clauses are decided, each a necessary
condition: buffer sizing against the high-water mark, the pointer/length handed to the kernel, progress accounting, the offset of
the unwritten remainder reported to a write handler, the stream-source suspend condition, and agreement between the two consumers
of _dispatch_operation_perform's result codes."""
from dqsa import paths
from .common import *
from .sync_common import entry_point
from .C03 import root_ptr
from .C10 import roots_of

UNITS = ["io"]


def fld_load(prog, fn, op, field):
    i = fn.inst(op)
    while i is not None and i.op in ("zext", "sext", "trunc", "bitcast", "ptrtoint", "inttoptr"):
        i = fn.inst(i.ops[0])
    return i if i is not None and i.op == "load" and field in prog.fields(i) else None


def rule_BD3(rep, prog):
    rid = rep.rule("C14-BD3", "read buffers are sized high-water minus what is already accumulated (then clamped to the chunk size and the remaining length); the "
                   "kernel is handed buf+buf_len / buf_siz-buf_len; buf_len and total advance by the processed count only", floor=4)
    fn = prog.fn("_dispatch_operation_perform")
    rep.saw(fn)
    highs = [i for i in fn.all_insts() if i.op == "load" and "high" in prog.fields(i)]
    gsz = calls_named(fn, "dispatch_data_get_size")
    subs = [i for i in fn.all_insts() if i.op == "sub" and any(fn.inst(o) in highs or (roots_of(fn, o) & {("i", h.id) for h in highs}) for o in i.ops[:1])
            and any(fn.inst(o) in gsz for o in i.ops[1:])]
    ok = bool(subs)
    bad = None
    for s_ in subs:
        cx = paths.dom_ctx(fn, s_)
        for iid, tv in cx.truth.items():
            ii = fn.insts[iid]
            if ii.op != "icmp":
                continue
            uses_size = any(fn.inst(o) in gsz for o in ii.ops)
            if uses_size and not any(o[0] == "c" and o[1] == 0 for o in ii.ops):
                ok = False
                bad = ii
    # the chunk clamp must apply to the value AFTER the subtraction
    clamp_ok = False
    for i in fn.all_insts():
        if i.op == "icmp" and i.d["pred"] in ("ugt", "ult", "uge", "ule"):
            for o in i.ops:
                x = fn.inst(o)
                if x is not None and x.op in ("phi", "select") and any(fn.inst(v if x.op == "select" else v[0]) in subs for v in (x.ops[1:] if x.op == "select" else x.ops)):
                    clamp_ok = True
                if x in subs:
                    clamp_ok = True
    rep.require(rid, ok and clamp_ok, subs[0].loc if subs else fn.file, fn.name, "read-buffer-ignores-accumulated-data",
                "_dispatch_operation_perform must subtract the size of the already accumulated (undelivered) data from the high-water mark whenever it is "
                "non-zero and clamp to the chunk size afterwards (extra condition at %s): otherwise the next buffer is a full chunk and one handler invocation "
                "exceeds the high-water mark" % (bad.loc if bad else None), sample={"subtractions": len(subs), "clamp_after": clamp_ok})
    sysc = calls_named(fn, ("read", "pread", "write", "pwrite"))
    if len(sysc) < 4:
        rep.unknown(rid, "expected read/pread/write/pwrite calls in _dispatch_operation_perform (%d)" % len(sysc))
    for c in sysc:
        p, l = fn.inst(c.ops[1]), fn.inst(c.ops[2])
        okp = p is not None and p.op == "getelementptr" and fld_load(prog, fn, p.ops[0], "buf") is not None and \
            any(fld_load(prog, fn, o, "buf_len") is not None for o in p.ops[1:])
        okl = l is not None and l.op == "sub" and fld_load(prog, fn, l.ops[0], "buf_siz") is not None and fld_load(prog, fn, l.ops[1], "buf_len") is not None
        rep.require(rid, okp and okl, c.loc, fn.name, "syscall-window:%s" % c.callee,
                    "%s must be called with op->buf + op->buf_len and op->buf_siz - op->buf_len (the unprocessed remainder of the current buffer)" % c.callee,
                    sample={"syscall": c.callee})
    adv = 0
    for i in fn.all_insts():
        if i.op == "store" and (prog.fields(i) & frozenset(["buf_len", "total"])):
            v = fn.inst(i.ops[0])
            if v is not None and v.op == "add":
                srcs = [fn.inst(o) for o in v.ops]
                if any(x is not None and x.op == "load" and (prog.fields(x) & prog.fields(i)) for x in srcs):
                    other = [o for o in v.ops if not (fn.inst(o) is not None and fn.inst(o).op == "load" and (prog.fields(fn.inst(o)) & prog.fields(i)))]
                    if other and (roots_of(fn, other[0]) & {("i", c.id) for c in sysc}):
                        adv += 1
    rep.require(rid, adv >= 2, fn.file, fn.name, "progress-accounting",
                "op->buf_len and op->total must each advance by exactly the count the kernel reported (found %d such updates)" % adv, sample={"updates": adv})


def rule_WR5(rep, prog):
    rid = rep.rule("C14-WR5", "write operations report the unwritten remainder starting at buf_len (what reached the descriptor plus what is reported equals what "
                   "was submitted); the queued data is only rotated past a fully written buffer", floor=2)
    fn = prog.fn("_dispatch_operation_deliver_data")
    rep.saw(fn)
    subs = calls_named(fn, "dispatch_data_create_subrange")
    if len(subs) < 2:
        rep.unknown(rid, "expected two dispatch_data_create_subrange calls in _dispatch_operation_deliver_data (%d)" % len(subs))
    by_len = [c for c in subs if fld_load(prog, fn, c.ops[1], "buf_len") is not None]
    by_siz = [c for c in subs if fld_load(prog, fn, c.ops[1], "buf_siz") is not None]
    rep.require(rid, len(by_len) == 1, subs[0].loc if subs else fn.file, fn.name, "unwritten-offset",
                "_dispatch_operation_deliver_data must hand the handler subrange(op->data, op->buf_len, ...) as the unwritten data: starting at buf_siz drops the "
                "bytes of a partially written buffer - they are neither written nor reported", sample={"from_buf_len": len(by_len), "from_buf_siz": len(by_siz)})
    rep.require(rid, len(by_siz) == 1, subs[-1].loc if subs else fn.file, fn.name, "rotate-offset-not-buf_siz",
                "_dispatch_operation_deliver_data must advance the queued write data past a fully written buffer by exactly that buffer's size (op->buf_siz): any "
                "other amount (e.g. the running undelivered total) trims bytes that were never written - they reach neither the descriptor nor the handler",
                sample={"from_buf_siz": len(by_siz)})
    for c in by_siz:
        cx = paths.dom_ctx(fn, c)
        full = False
        for iid, tv in cx.truth.items():
            ii = fn.insts[iid]
            if ii.op == "icmp" and ii.d["pred"] in ("eq", "ne") and tv == (ii.d["pred"] == "eq") and \
               {bool(fld_load(prog, fn, ii.ops[0], "buf_len")) or bool(fld_load(prog, fn, ii.ops[1], "buf_len")),
                bool(fld_load(prog, fn, ii.ops[0], "buf_siz")) or bool(fld_load(prog, fn, ii.ops[1], "buf_siz"))} == {True}:
                full = True
        rep.require(rid, full, c.loc, fn.name, "rotate-past-partial-buffer",
                    "the queued write data may be advanced by buf_siz only when buf_len == buf_siz (buffer fully written)", sample={"guarded": full})


def rule_MP6(rep, prog):
    rid = rep.rule("C14-MP6", "the readiness source of a stream is suspended only when it is running AND no operation of any channel is available on the stream", floor=1)
    n = 0
    for fn in prog.all_functions():
        for c in fn.calls("dispatch_suspend"):
            a = fn.inst(c.ops[0])
            src = fld_load(prog, fn, c.ops[0], "source") or (a is not None and fld_load(prog, fn, a.ops[0], "source") if a is not None and a.ops else None)
            if src is None:
                continue
            n += 1
            rep.saw(fn)
            cx = paths.dom_ctx(fn, c)
            avail = calls_named(fn, "_dispatch_stream_operation_avail")
            ok_avail = any(cx.truth.get(x.id) is False for x in avail) or any(("i", x.id) in cx.isnull for x in avail)
            # or the stream handler (which re-evaluates the stream and resumes the source when operations are pending) runs right after
            sh = calls_named(fn, "_dispatch_stream_handler")
            if not ok_avail and sh:
                ok_avail = fn.must_pass(c, sh)[0]
            rep.require(rid, ok_avail, c.loc, fn.name, "source-suspended-with-work:%s" % fn.name,
                        "%s suspends the stream's readiness source without having established that no operation is available on the stream: another channel "
                        "sharing the descriptor still has queued operations and nothing resumes the source - its read never completes" % fn.name,
                        sample={"fn": fn.name, "avail_checks": len(avail)})
    if n < 1:
        rep.unknown(rid, "no suspend of a stream source found")


def rule_SB1(rep, prog):
    rid = rep.rule("C14-SB1", "both consumers of _dispatch_operation_perform (stream handler and disk perform) handle every result code the function can return", floor=2)
    perf = prog.fn("_dispatch_operation_perform")
    rets = set()
    for r in perf.all_insts():
        if r.op == "ret" and r.ops:
            i = perf.inst(r.ops[0])
            if i is not None and i.op == "phi":
                for v, _ in i.ops:
                    if v[0] == "c":
                        rets.add(v[1])
                    else:
                        x = perf.inst(v)
                        if x is not None and x.op == "select":
                            for o in x.ops[1:]:
                                if o[0] == "c":
                                    rets.add(o[1])
            elif r.ops[0][0] == "c":
                rets.add(r.ops[0][1])
    if len(rets) < 5:
        rep.unknown(rid, "could not enumerate the result codes of _dispatch_operation_perform (%s)" % sorted(rets))
        return
    consumers = {}
    for name in ("_dispatch_stream_handler", "_dispatch_disk_perform"):
        fn = prog.fn(name, required=False)
        if fn is None:
            rep.unknown(rid, "consumer %s not found" % name)
            continue
        rep.saw(fn)
        cases = {}
        host = fn
        # the switch may live in the function itself or in a block literal of it that captured the result
        for f2 in [fn] + [f for f in prog.all_functions() if f.name.startswith("__" + name + "_block_invoke")]:
            for s_ in f2.all_insts():
                if s_.op == "switch" and len(s_.d["cases"]) >= 4 and all(cv in rets for cv, _ in s_.d["cases"]):
                    host = f2
                    for cv, tgt in s_.d["cases"]:
                        cases[cv] = tgt
        consumers[name] = (host, cases)
    if "_dispatch_stream_handler" in consumers:
        fn, cases = consumers["_dispatch_stream_handler"]
        missing = rets - set(cases)
        rep.require(rid, not missing, fn.file, fn.name, "unhandled-op-result:_dispatch_stream_handler",
                    "_dispatch_stream_handler does not handle result code(s) %s of _dispatch_operation_perform (an operation in that state is silently dropped: its "
                    "handler never sees done)" % sorted(missing), sample={"consumer": fn.name, "cases": sorted(cases), "results": sorted(rets)})
        # codes whose stream-side handling resumes the readiness source are stream-only (EAGAIN); the disk side may omit exactly those
        stream_only = set()
        for cv, tgt in cases.items():
            seen, st = set(), [fn.blocks[tgt]]
            while st and len(seen) < 4:
                b_ = st.pop()
                if b_.id in seen:
                    continue
                seen.add(b_.id)
                if any(i.op == "store" and "source_running" in prog.fields(i) for i in b_.insts) or any(i.op == "call" and i.callee == "_dispatch_stream_operation_avail" for i in b_.insts):
                    stream_only.add(cv)
                st.extend(b_.succs)
        if "_dispatch_disk_perform" in consumers:
            f2, c2 = consumers["_dispatch_disk_perform"]
            missing = rets - set(c2) - stream_only
            rep.require(rid, not missing and len(c2) >= 4, f2.file, f2.name, "unhandled-op-result:_dispatch_disk_perform",
                        "_dispatch_disk_perform does not handle result code(s) %s of _dispatch_operation_perform" % sorted(missing),
                        sample={"consumer": f2.name, "cases": sorted(c2), "stream_only": sorted(stream_only)})


def rule_OD7(rep, prog):
    rid = rep.rule("C14-OD7", "bytes are delivered in the order they were read: a freshly filled read buffer is appended AFTER the data already accumulated for the "
                   "operation (concat(op->data, new)), never before it", floor=1)
    fn = prog.fn("_dispatch_operation_deliver_data")
    rep.saw(fn)
    cats = calls_named(fn, "dispatch_data_create_concat")
    if not cats:
        rep.unknown(rid, "no dispatch_data_create_concat in _dispatch_operation_deliver_data")
    for c in cats:
        first_acc = fld_load(prog, fn, c.ops[0], "data") is not None
        r2 = root_ptr(fn, c.ops[1])
        i2 = fn.inst(r2) if r2[0] == "i" else None
        second_new = i2 is not None and i2.op == "call" and i2.callee == "dispatch_data_create"
        rep.require(rid, first_acc and second_new, c.loc, fn.name, "read-chunks-concatenated-out-of-order",
                    "_dispatch_operation_deliver_data concatenates the new read buffer and the accumulated data in the wrong order: whenever data is parked below "
                    "the low-water mark across more than one buffer, the handler sees later bytes before earlier ones", sample={"first_is_accumulated": first_acc, "second_is_new_buffer": second_new})


def rule_OD8(rep, prog):
    rid = rep.rule("C14-OD8", "barriers wait for every earlier operation: an operation enters its fd_entry's barrier group in _dispatch_operation_enqueue - which runs "
                   "in submission order on the channel's barrier queue - before it is handed to the stream / disk queue, and leaves it when the operation is disposed", floor=2)
    fn = prog.fn("_dispatch_operation_enqueue")
    rep.saw(fn)
    enters = [c for c in calls_named(fn, "dispatch_group_enter") if fld_load(prog, fn, c.ops[0], "barrier_group") is not None]
    handoffs = [c for c in calls_named(fn, "dispatch_async") if fld_load(prog, fn, c.ops[0], "dq") is not None or fld_load(prog, fn, c.ops[0], "pick_queue") is not None]
    if not handoffs:
        rep.unknown(rid, "no hand-off to a stream / disk queue found in _dispatch_operation_enqueue")
    for h in handoffs:
        rep.require(rid, any(fn.dominates(e, h) for e in enters), h.loc, fn.name, "handoff-before-barrier-group-enter",
                    "_dispatch_operation_enqueue hands the operation to the stream / disk queue without having entered the barrier group first: a "
                    "dispatch_io_barrier submitted right after the operation finds the group empty and runs before the operation has completed",
                    sample={"handoff": h.loc, "enters": len(enters)})
    leaves = []
    for f2 in prog.all_functions():
        leaves += [c for c in calls_named(f2, "dispatch_group_leave") if fld_load(prog, f2, c.ops[0], "barrier_group") is not None]
    rep.require(rid, len(leaves) >= 1, fn.file, "_dispatch_operation_dispose", "barrier-group-never-left",
                "no dispatch_group_leave on the fd_entry's barrier group: barriers would never run", sample={"leaves": len(leaves)})


def rule_OD12(rep, prog):
    rid = rep.rule("C14-OD12", "the water marks and interval an operation runs under are the channel's at SUBMISSION: the operation's `params` is one whole-struct "
                   "snapshot of the channel's, taken in _dispatch_operation_create (which runs on the channel queue, in order with dispatch_io_set_high_water / "
                   "_low_water / _interval) and written nowhere else", floor=1)
    n = 0
    for fn in prog.all_functions():
        for c in fn.all_insts():
            dst = None
            if c.op == "call" and c.callee and c.callee.startswith("llvm.memcpy"):
                dst, src = fn.inst(c.ops[0]), fn.inst(c.ops[1])
            elif c.op == "store" and c.d.get("ptr"):
                dst, src = c, None
            if dst is None or not dst.d.get("ptr") or dst.d["ptr"].get("sty") != "struct.dispatch_operation_s":
                continue
            fl = prog.fields(dst)
            if "params" not in fl and not (fl & {"low", "high", "interval", "interval_flags"}):
                continue
            n += 1
            rep.saw(fn)
            ok = c.origin == "_dispatch_operation_create" and src is not None and src.d.get("ptr") and src.d["ptr"].get("sty") == "struct.dispatch_io_s" and \
                "params" in prog.fields(src)
            rep.require(rid, bool(ok), c.loc, c.origin, "operation-params-written-outside-create:%s" % c.origin,
                        "%s writes the params of an operation%s: the snapshot must be the channel's params copied in _dispatch_operation_create - taken later (on the "
                        "barrier queue) a dispatch_io_set_high_water issued AFTER the read was submitted is already visible, and the earlier read delivers data "
                        "objects larger than the high-water mark it was submitted under" % (c.origin, "" if src is not None else " field by field"),
                        sample={"fn": c.origin, "at": c.loc})
    if n < 1:
        rep.unknown(rid, "no snapshot of the channel params into an operation found")


def rule_MP13(rep, prog):
    rid = rep.rule("C14-MP13", "the disk request ring is filled without losing an operation: a slot of advise_list is written only after that very slot was read and found "
                   "empty (a pending request is never overwritten), and the fill index advances only past a slot that was just filled (an operation completed early - "
                   "channel stopped / failed - leaves no hole in front of the request index)", floor=2)
    fn = prog.fn("_dispatch_disk_handler")
    rep.saw(fn)
    sts = [st for st in fn.all_insts() if st.op == "store" and "advise_list" in prog.fields(st) and st.ops[0][0] == "i"]
    if not sts:
        rep.unknown(rid, "anchor vanished: _dispatch_disk_handler stores no operation into advise_list")
        return
    def slot_key(gep_op):
        g = fn.inst(gep_op)
        while g is not None and g.op == "bitcast":
            g = fn.inst(g.ops[0])
        if g is None or g.op != "getelementptr":
            return None
        idx = fn.inst(g.ops[-1])
        if idx is not None and idx.op == "urem":
            return ("urem", tuple(idx.ops[0][:2]))
        return ("raw", tuple(g.ops[-1][:2]))
    for st in sts:
        key = slot_key(st.ops[1])
        cx = paths.dom_ctx(fn, st)
        ok = False
        for iid, tv in cx.truth.items():
            t = fn.insts[iid]
            if t.op == "icmp" and t.d["pred"] in ("eq", "ne") and t.ops[1][0] == "n" and tv == (t.d["pred"] == "eq"):
                l = fn.inst(t.ops[0])
                if l is not None and l.op == "load" and "advise_list" in prog.fields(l) and slot_key(l.ops[0]) == key and key is not None:
                    ok = True
        rep.require(rid, ok, st.loc, fn.name, "ring-slot-overwritten",
                    "_dispatch_disk_handler stores an operation into an advise_list slot that it has not just found empty: with more operations pending than free "
                    "slots the oldest pending request is overwritten - that operation stays active and retained but is never performed, its handler never sees "
                    "done and the channel's cleanup handler never runs", sample={"store": st.loc})
    # the loop-carried fill index: on every way round the loop that increments it, a slot was filled
    n = 0
    for ph in fn.all_insts():
        if ph.op != "phi" or not any(fn.dominates(ph, fn.blocks[frm].term) for v, frm in ph.ops):
            continue
        for v, frm in ph.ops:
            inc = fn.inst(v)
            if inc is None or inc.op != "add" or tuple(inc.ops[0][:2]) != ("i", ph.id) or not (inc.ops[1][0] == "c" and inc.ops[1][1] == 1):
                continue
            if not any(slot_key(st.ops[1]) == ("urem", ("i", ph.id)) for st in sts):
                continue
            n += 1
            # paths from the loop head to the latch `frm` that carry the incremented value: each passes a store into the ring
            class _S: pass
            s0 = _S(); s0.block = ph.block; s0.idx = ph.block.insts.index(ph); s0.loc = ph.loc
            latch = fn.blocks[frm].term
            bare = [r for r in paths.walk(fn, s0, lambda i: i is latch, avoid=lambda i: i in sts) if r[0] == "hit"]
            rep.require(rid, not bare, inc.loc, fn.name, "ring-index-advanced-past-unfilled-slot",
                        "_dispatch_disk_handler advances the ring fill index on a way round the loop that stored nothing into the slot (path %s): an operation that is "
                        "completed early instead of being queued (its channel was stopped) leaves an empty slot at the request index - every later operation on that "
                        "device is marked active but never performed" % (bare[0][3] if bare else None), sample={"increment": inc.loc})
    if n < 1:
        # other loop shapes (do / while, the increment merged with a `continue` edge through a second phi): the increment of the ring index - a phi used as
        # the slot subscript, plus one - is executed only after a store into the ring in the same iteration
        for inc in fn.all_insts():
            if inc.op != "add" or not (inc.ops[1][0] == "c" and inc.ops[1][1] == 1):
                continue
            ph = fn.inst(inc.ops[0])
            if ph is None or ph.op != "phi" or not any(slot_key(st.ops[1]) == ("urem", ("i", ph.id)) for st in sts):
                continue
            n += 1
            ok = any(fn.dominates(st, inc) and fn.block_dominates(ph.block.id, st.block.id) for st in sts)
            rep.require(rid, ok, inc.loc, fn.name, "ring-index-advanced-past-unfilled-slot",
                        "_dispatch_disk_handler advances the ring fill index at a point that is not preceded, in the same iteration, by a store into the slot: an "
                        "operation that is completed early instead of being queued leaves an empty slot at the request index - every later operation on that device is "
                        "marked active but never performed", sample={"increment": inc.loc})
    if n < 1:
        rep.unknown(rid, "loop-carried ring fill index of _dispatch_disk_handler not recognised")


def rule_MP14(rep, srcdir, tier):
    rid = rep.rule("C14-MP14", "one epoll registration per descriptor serves the read AND the write side: every EPOLL_CTL_MOD of a muxnote re-registers (at least) all "
                   "events the muxnote currently has armed - computed by _dispatch_muxnote_armed_events after the last change to its event masks - never only the "
                   "events of the source being re-armed (the other direction's EPOLLIN / EPOLLOUT would silently leave the kernel's interest set: a read waiting "
                   "on a socket that also carries a write never sees its data)", floor=3)
    pe, _u = load(["event/event_epoll"], tier, srcdir)
    k = consts.get(["EPOLL_CTL_MOD"], unit="event/event_epoll", includes=("sys/epoll.h",))
    n = 0
    for fn in pe.all_functions():
        for c in calls_named(fn, "_dispatch_epoll_update"):
            if not (c.ops[2][0] == "c" and c.ops[2][1] == k["EPOLL_CTL_MOD"]):
                continue
            n += 1
            rep.saw(fn)
            dmn = root_ptr(fn, c.ops[0])
            armed = []
            seen, work = set(), [c.ops[1]]
            while work:
                o = work.pop()
                i = fn.inst(o) if o[0] == "i" else None
                if i is None or i.id in seen:
                    continue
                seen.add(i.id)
                if i.op == "call" and i.callee == "_dispatch_muxnote_armed_events" and root_ptr(fn, i.ops[0]) == dmn:
                    armed.append(i)
                elif i.op in ("or", "zext", "trunc", "phi", "select"):
                    work += [x[0] if (i.op == "phi") else x for x in (i.ops if i.op != "select" else i.ops[1:])]
            masks = [st for st in fn.all_insts() if st.op == "store" and (pe.fields(st) & {"dmn_events", "dmn_disarmed_events"})]
            stale = [st for a in armed for st in masks if fn.inst_reaches(a, st) and fn.inst_reaches(st, c) and not fn.inst_reaches(c, a)]
            rep.require(rid, bool(armed) and not stale, c.loc, fn.name, "epoll-mod-drops-armed-events:%s" % fn.name,
                        "%s re-registers the descriptor with EPOLL_CTL_MOD using an event mask that %s: the registration must cover everything the muxnote has armed "
                        "(both directions), or the other direction's source stops receiving events while the muxnote still records it as armed"
                        % (fn.name, "is not derived from _dispatch_muxnote_armed_events of that muxnote" if not armed else "was computed before the muxnote's masks were last changed"),
                        sample={"fn": fn.name, "at": c.loc})
    if n < 3:
        rep.unknown(rid, "fewer than 3 EPOLL_CTL_MOD updates found (%d)" % n)


def _handler_calls(prog, fn):
    """indirect calls of the client's io handler block: (block, bool done, data, int error)"""
    return [c for c in fn.all_insts() if c.op == "call" and "icallee" in c.d and len(c.ops) == 4 and (c.ops[1][0] in ("c", "i"))]


def rule_MP15(rep, prog):
    rid = rep.rule("C14-MP15", "the stream source's suspension is mirrored by stream->source_running: wherever the library suspends the stream's readiness source it "
                   "records source_running = false, and wherever it resumes it for more readiness events it records source_running = true (the final resume that lets a "
                   "cancelled source tear down is exempt) - the flag is the only thing that keeps suspends and resumes balanced", floor=3)
    n = 0
    for fn in prog.all_functions():
        for c in fn.all_insts():
            if c.op != "call" or c.callee not in ("dispatch_suspend", "dispatch_resume"):
                continue
            a = fn.inst(c.ops[0])
            while a is not None and a.op == "bitcast":
                a = fn.inst(a.ops[0])
            if a is None:
                continue
            is_src = (a.op == "load" and "source" in prog.fields(a) and "source_running" not in prog.fields(a)) or (a.op == "call" and a.callee == "_dispatch_stream_source")
            if not is_src:
                continue
            if c.callee == "dispatch_resume" and calls_named(fn, "dispatch_source_cancel"):
                continue  # teardown: cancel + the resume that lets the cancellation be processed
            n += 1
            rep.saw(fn)
            want_v = 0 if c.callee == "dispatch_suspend" else 1
            sts = [st for st in fn.all_insts() if st.op == "store" and "source_running" in prog.fields(st) and st.ops[0][0] == "c" and st.ops[0][1] == want_v]
            ok = any(st.block.id == c.block.id or fn.postdominates(st, c) or fn.dominates(st, c) and fn.postdominates(c, st) for st in sts)
            rep.require(rid, ok, c.loc, fn.name, "source-running-not-updated:%s:%s" % (c.callee, fn.name),
                        "%s calls %s on the stream's readiness source without recording source_running = %s: the next balance decision (suspend when the stream runs out "
                        "of operations / resume when an operation has to wait) is taken on a stale flag, the source ends up suspended twice or resumed twice, and a "
                        "parked operation is never woken (or the source is released while suspended)" % (fn.name, c.callee, "false" if want_v == 0 else "true"),
                        sample={"site": c.loc, "fn": fn.name})
    if n < 3:
        rep.unknown(rid, "fewer than 3 suspend/resume sites of the stream source found (%d)" % n)


def rule_OD16(rep, prog):
    rid = rep.rule("C14-OD16", "cleanup after the handlers: every queued handler invocation holds a reference on the fd_entry (which keeps the close queue - and with it "
                   "the channel's cleanup handler - suspended): _dispatch_operation_deliver_data retains op->fd_entry before it submits the handler block, and the block "
                   "releases it only after the client handler returned", floor=2)
    fn = prog.fn("_dispatch_operation_deliver_data")
    rep.saw(fn)
    subs = [c for c in fn.all_insts() if c.op == "call" and c.callee in ("dispatch_async", "dispatch_async_f", "_dispatch_io_async")]
    if not subs:
        rep.unknown(rid, "_dispatch_operation_deliver_data: submission of the handler block not found")
        return
    rets = [c for c in calls_named(fn, "_dispatch_fd_entry_retain") if fld_load(prog, fn, c.ops[0], "fd_entry") is not None]
    for c in subs:
        rep.require(rid, any(fn.dominates(r, c) for r in rets), c.loc, fn.name, "handler-block-without-fd-entry-reference",
                    "_dispatch_operation_deliver_data submits the handler block without holding a reference on op->fd_entry for it: once the operation itself is disposed "
                    "the close queue resumes while data / done invocations are still queued, so the channel's cleanup handler runs before (or concurrently with) "
                    "its I/O handlers", sample={"submit": c.loc})
    blocks = [f for f in prog.all_functions() if f.name.startswith("___dispatch_operation_deliver_data_block_invoke")]
    n = 0
    for b in blocks:
        hcalls = [c for c in b.all_insts() if c.op == "call" and not c.callee and c.d.get("icallee") and len(c.ops) >= 3]
        rels = calls_named(b, "_dispatch_fd_entry_release")
        for h in hcalls:
            n += 1
            rep.saw(b)
            rep.require(rid, any(b.postdominates(r, h) for r in rels), h.loc, b.name, "fd-entry-released-before-handler-returns",
                        "the handler block does not release the fd_entry reference after the client handler returned (it is missing, or dropped before the call): the "
                        "cleanup handler is no longer ordered after this invocation", sample={"handler_call": h.loc})
    if n < 1:
        rep.unknown(rid, "no client handler invocation found in the deliver_data block")


def rule_BD17(rep, prog):
    from .C13 import edge_relations
    rid = rep.rule("C14-BD17", "a used-up request buffer is always recycled: _dispatch_operation_deliver_data returns early to keep buffering (below the low-water mark, "
                   "before looking at the direction) only when the buffer still has room, buf_len < buf_siz STRICTLY - a full buffer goes on to be handed over "
                   "/ trimmed, otherwise the next perform issues a zero-length read or write and takes its 0 result for end of file", floor=1)
    fn = prog.fn("_dispatch_operation_deliver_data")
    rep.saw(fn)
    first = next(iter(fn.all_insts()))
    res = paths.walk(fn, first, lambda i: False,
                     avoid=lambda i: (i.op == "store" and "buf_len" in prog.fields(i)) or (i.op == "load" and "direction" in prog.fields(i)))
    def fl(o, f):
        i = fn.inst(list(o)) if o[0] == "i" else None
        return i is not None and i.op == "load" and f in prog.fields(i)
    n = 0
    for kind, inst, cx, path in res:
        if kind != "exit":
            continue
        n += 1
        strict = any(p_ == "ult" and fl(a, "buf_len") and fl(b, "buf_siz") for p_, a, b in edge_relations(fn, cx))
        for cid, tv in cx.truth.items():
            t = fn.insts[cid]
            if t.op == "icmp" and t.d["pred"] in ("eq", "ne") and tv == (t.d["pred"] == "ne") and \
                    {True} == {fl(tuple(t.ops[0][:2]), "buf_len") or fl(tuple(t.ops[0][:2]), "buf_siz")} and \
                    {True} == {fl(tuple(t.ops[1][:2]), "buf_len") or fl(tuple(t.ops[1][:2]), "buf_siz")}:
                strict = True
        rep.require(rid, strict, inst.loc, fn.name, "full-buffer-kept",
                    "_dispatch_operation_deliver_data returns to keep buffering on a path (%s) where buf_len may equal buf_siz: the full buffer is neither delivered nor "
                    "recycled, the next perform asks the kernel for 0 bytes and treats the 0 result as EOF - a read ends early / a write reports completion although "
                    "only the first buffer reached the descriptor" % ">".join(map(str, path)), sample={"path": path})
    if n < 1:
        rep.unknown(rid, "no early keep-buffering return found in _dispatch_operation_deliver_data")


def rule_OD18(rep, prog):
    rid = rep.rule("C14-OD18", "a barrier runs after the operations submitted before it have COMPLETED: _dispatch_operation_dispose delivers the operation's final (done) "
                   "handler invocation before it leaves the fd_entry's barrier group - leaving first releases a pending dispatch_io_barrier, whose block is then "
                   "queued ahead of the done handler", floor=1)
    fn = prog.fn("_dispatch_operation_dispose")
    rep.saw(fn)
    dl = [c for c in calls_named(fn, "_dispatch_operation_deliver_data")]
    lv = [c for c in calls_named(fn, "dispatch_group_leave") if fld_load(prog, fn, c.ops[0], "barrier_group") is not None]
    if not dl or not lv:
        rep.unknown(rid, "_dispatch_operation_dispose: final delivery / barrier-group leave not found (deliver=%d leave=%d)" % (len(dl), len(lv)))
        return
    for l in lv:
        rep.require(rid, any(fn.dominates(d_, l) and d_ is not l for d_ in dl), l.loc, fn.name, "barrier-group-left-before-final-delivery",
                    "_dispatch_operation_dispose leaves the barrier group before it has queued the operation's done handler: a dispatch_io_barrier submitted after "
                    "this operation runs while the operation has not completed yet", sample={"leave": l.loc})


def rule_AI19(rep, prog, srcdir):
    rid = rep.rule("C14-AI19", "dispatch_io_close evaluated for every combination of the STOP flag and the channel's CLOSED / STOPPED bits: a stop request interrupts the "
                   "channel unless it is already STOPPED (in particular after a plain close: `stop after close` is how in-flight operations of a closed channel are "
                   "cancelled), a plain close is ignored when the channel is already closed or stopped", floor=8)
    k = consts.get(["DISPATCH_IO_STOP", "DIO_CLOSED", "DIO_STOPPED"], srcdir=srcdir, unit="io")
    fn = prog.fn("dispatch_io_close")
    rep.saw(fn)
    af = [l for l in fn.all_insts() if l.op == "load" and "atomic_flags" in prog.fields(l)]
    stop = calls_named(fn, "_dispatch_io_stop")
    closing = [c for c in fn.all_insts() if c.op == "call" and c.callee in ("dispatch_async", "dispatch_async_f", "_dispatch_retain")]
    if not af or not stop or not closing:
        rep.unknown(rid, "dispatch_io_close: flag loads / stop / close actions not found (%d/%d/%d)" % (len(af), len(stop), len(closing)))
        return
    for fl in (0, k["DISPATCH_IO_STOP"]):
        for st in (0, k["DIO_CLOSED"], k["DIO_STOPPED"], k["DIO_CLOSED"] | k["DIO_STOPPED"]):
            env = {l.id: st for l in af}
            env[("a", 1)] = fl
            hit, _e = concrete_walk(fn, env, lambda i: i in stop or i in closing)
            got = "stop" if hit in stop else ("close" if hit is not None else "nothing")
            want_ = ("stop" if not st & k["DIO_STOPPED"] else "nothing") if fl else ("close" if not st & (k["DIO_CLOSED"] | k["DIO_STOPPED"]) else "nothing")
            rep.require(rid, got == want_, (hit.loc if hit is not None else fn.file), fn.name, "io-close-decision:%d:%d" % (fl, st),
                        "dispatch_io_close(flags=%#x) on a channel with state bits %#x does `%s`, expected `%s`: a stop issued after a plain close must still interrupt "
                        "the operations in flight (they complete with ECANCELED and the cleanup handler can run)" % (fl, st, got, want_),
                        sample={"flags": fl, "state": st, "does": got})


def rule_MP20(rep, prog):
    rid = rep.rule("C14-MP20", "the stream and disk handlers re-check the channel for stop / error (_dispatch_io_get_error) on every operation they pick, before performing "
                   "it, and complete an operation of a stopped channel themselves: the perform function's own ERR result only cleans up the stopped channel's "
                   "operations and does not re-kick the stream for the other channels on the same descriptor", floor=2)
    n = 0
    for name, pick in (("_dispatch_stream_handler", "_dispatch_stream_pick_next_operation"), ("_dispatch_disk_handler", "_dispatch_disk_pick_next_operation")):
        fn = prog.fn(name, required=False)
        if fn is None:
            continue
        picks = calls_named(fn, pick)
        acts = calls_named(fn, ("_dispatch_operation_perform", "_dispatch_disk_perform")) + \
               [st for st in fn.all_insts() if st.op == "store" and prog.fields(st) & {"op", "cur_rq"} and st.ops[0][0] == "i"]
        errs = calls_named(fn, "_dispatch_io_get_error")
        if not picks:
            continue
        for pk in picks:
            n += 1
            rep.saw(fn)
            bare = [a for a in acts if fn.inst_reaches(pk, a, avoid_insts=errs)]
            rep.require(rid, bool(errs) and not bare, pk.loc, fn.name, "operation-started-without-stop-check:%s" % fn.name,
                        "%s can go from picking an operation to starting it without calling _dispatch_io_get_error for it: an operation of a channel that was stopped "
                        "meanwhile is performed (ERR), only that channel's operations are cleaned up and nothing resumes the stream - operations of another channel "
                        "on the same descriptor, queued behind it, stall with their data never delivered" % fn.name, sample={"pick": pk.loc, "checks": len(errs)})
    if n < 2:
        rep.unknown(rid, "fewer than 2 pick sites found in the stream / disk handlers (%d)" % n)


def rule_OD21(rep, prog):
    rid = rep.rule("C14-OD21", "the barrier queue stays closed while the barrier block runs, and operations that complete at once still queue behind a pending barrier: in the "
                   "block of dispatch_io_barrier the resume of the barrier queue comes after the call of the client's barrier block, and the early-completion path of "
                   "_dispatch_operation_create submits its done handler through channel->barrier_queue", floor=2)
    n = 0
    for fn in prog.all_functions():
        if not fn.name.startswith("__dispatch_io_barrier_block_invoke"):
            continue
        res = calls_named(fn, "dispatch_resume")
        user = [c for c in fn.all_insts() if c.op == "call" and not c.callee and c.d.get("icallee")]
        if not res or not user:
            continue
        n += 1
        rep.saw(fn)
        early = [(r, u) for r in res for u in user if fn.inst_reaches(r, u)]
        rep.require(rid, not early, (early[0][0].loc if early else res[0].loc), fn.name, "barrier-queue-resumed-before-barrier-block",
                    "the block of dispatch_io_barrier resumes the barrier queue before it calls the client's barrier block: operations submitted after the barrier are "
                    "enqueued, performed and delivered while the barrier block is still running", sample={"fn": fn.name})
    fn = prog.fn("_dispatch_operation_create")
    rep.saw(fn)
    subs = [c for c in fn.all_insts() if c.op == "call" and c.callee in ("dispatch_async", "dispatch_async_f")]
    for c in subs:
        n += 1
        rep.require(rid, fld_load(prog, fn, c.ops[0], "barrier_queue") is not None, c.loc, fn.name, "early-completion-bypasses-barrier-queue",
                    "_dispatch_operation_create reports an immediately complete operation (zero length, or an error known at submission) without going through the "
                    "channel's barrier queue: its done handler runs before a barrier submitted earlier has run", sample={"site": c.loc})
    if n < 2:
        rep.unknown(rid, "barrier block / early completion path not found (%d)" % n)


def rule_AI23(rep, prog):
    rid = rep.rule("C14-AI23", "the water marks stay ordered (low <= high): each setter compares the OTHER mark with the very value it is about to store (set_low_water raises "
                   "high when high < new low; set_high_water lowers low when low > new high) - with low > high a full buffer is neither delivered nor sized, the next "
                   "read asks for 0 bytes and the operation completes as if at end of file", floor=2)
    n = 0
    for name, mine, other in (("__dispatch_io_set_low_water_block_invoke", "low", "high"), ("__dispatch_io_set_high_water_block_invoke", "high", "low")):
        fn = prog.fn(name, required=False)
        if fn is None:
            continue
        def cap(o):
            """(offset) of the block-literal capture a value is loaded from"""
            i = fn.inst(o)
            seen = 0
            while i is not None and i.op in ("select", "zext", "trunc") and seen < 4:
                seen += 1
                i = fn.inst(i.ops[1] if i.op == "select" else i.ops[0])
            if i is not None and i.op == "load" and i.d.get("ptr") and tuple(i.d["ptr"]["base"][:2]) == ("a", 0):
                return i.d["ptr"].get("off")
            return None
        sts = [st for st in fn.all_insts() if st.op == "store" and mine in prog.fields(st) and other not in prog.fields(st)]
        cmps = [t for t in fn.all_insts() if t.op == "icmp" and any(fn.inst(o) is not None and fn.inst(o).op == "load" and other in prog.fields(fn.inst(o)) for o in t.ops)]
        if not sts or not cmps:
            continue
        n += 1
        rep.saw(fn)
        vs = {cap(st.ops[0]) for st in sts} - {None}       # the new value may be stored on one arm and its floor (1 when 0 was given) on the other
        v = next(iter(vs)) if len(vs) == 1 else None
        cmps = [t for t in cmps if not all(o[0] == "c" or cap(o) is not None for o in t.ops)]   # (a test of the new value alone, `new ? new : 1`, is not a comparison of marks)
        ok = v is not None and bool(cmps) and all(any(cap(o) == v for o in t.ops) for t in cmps)
        rep.require(rid, ok, cmps[0].loc, fn.name, "water-mark-compared-with-stale-value:%s" % mine,
                    "%s adjusts the `%s` water mark by comparing it with something other than the new `%s` value it stores: after set_high_water(H) followed by "
                    "set_low_water(L > H) the channel has low > high" % (fn.name, other, mine), sample={"fn": fn.name})
    if n < 2:
        rep.unknown(rid, "the two water-mark setter blocks were not both recognised (%d)" % n)


def rule_TB10(rep, prog):
    rid = rep.rule("C14-TB10", "what an operation that completes early hands back: a read that failed reports no data, a write that did NOT fail reports no unwritten "
                   "data, a write that failed (e.g. the channel was stopped) reports all of its data as unwritten - at every early-completion site alike; a read "
                   "that ends with an error first delivers the bytes it had already taken from the descriptor", floor=3)
    k = consts.get(["DOP_DIR_READ", "DOP_DIR_WRITE"], unit="io")
    R, W = k["DOP_DIR_READ"], k["DOP_DIR_WRITE"]
    want = {(R, 0): "data", (R, 5): "null", (W, 0): "null", (W, 5): "data"}
    n = 0
    for fn in prog.all_functions():
        if "_block_invoke" not in fn.name or not fn.file.endswith("io.c"):
            continue          # any block of io.c that completes an operation early: recognised by its shape below, not by its name
        hs = [c for c in _handler_calls(prog, fn) if c.ops[1][0] == "c" and c.ops[1][1] == 1]
        if len(hs) != 1:
            continue
        h = hs[0]
        errl = fn.inst(h.ops[3])
        if errl is None or errl.op != "load" or root_ptr(fn, errl.d["ptr"]["base"]) != ("a", 0):
            continue
        eoff = errl.d["ptr"]["off"]
        # the other captured int that is compared with the direction constants
        doffs = set()
        for i in fn.all_insts():
            if i.op == "icmp" and i.ops[1][0] == "c" and i.ops[1][1] in (R, W):
                l = fn.inst(i.ops[0])
                if l is not None and l.op == "load" and root_ptr(fn, l.d["ptr"]["base"]) == ("a", 0) and l.d["ptr"]["off"] != eoff:
                    doffs.add(l.d["ptr"]["off"])
        for i in fn.all_insts():
            # the same comparisons folded into a switch on the captured direction
            if i.op == "switch" and any(cv in (R, W) for cv, tgt in i.d.get("cases", [])):
                l = fn.inst(i.ops[0])
                while l is not None and l.op in ("zext", "trunc", "sext"):
                    l = fn.inst(l.ops[0])
                if l is not None and l.op == "load" and root_ptr(fn, l.d["ptr"]["base"]) == ("a", 0) and l.d["ptr"]["off"] != eoff:
                    doffs.add(l.d["ptr"]["off"])
        if len(doffs) != 1:
            continue
        doff = doffs.pop()
        n += 1
        rep.saw(fn)
        got = {}
        for (d_, e_), exp in sorted(want.items()):
            env = {}
            for l in fn.all_insts():
                if l.op == "load" and root_ptr(fn, l.d["ptr"]["base"]) == ("a", 0):
                    if l.d["ptr"]["off"] == eoff:
                        env[l.id] = e_
                    elif l.d["ptr"]["off"] == doff:
                        env[l.id] = d_
            hit, env = concrete_walk(fn, env, lambda i: i is h)
            if hit is None:
                got[(d_, e_)] = "?"
                continue
            v = h.ops[2]
            val = env.get(v[1]) if v[0] == "i" else None
            if v[0] == "n" or val == 0:
                got[(d_, e_)] = "null"
            elif val is None and v[0] == "i":
                x = ceval(fn, v, {k_: vv for k_, vv in env.items() if not isinstance(vv, tuple)})
                got[(d_, e_)] = "null" if x == 0 else "data"
            else:
                got[(d_, e_)] = "data"
        bad = {kk: vv for kk, vv in got.items() if vv != want[kk]}
        rep.require(rid, not bad, h.loc, fn.name, "early-completion-data-table:%s" % fn.name,
                    "%s hands the handler %s for (direction, error) = %s; expected read+error -> NULL, write+no error -> NULL, write+error -> the unwritten "
                    "data, read+no error -> the data: a write cancelled before it started would report neither written nor unwritten bytes"
                    % (fn.name, bad, sorted(bad)), sample={"fn": fn.name, "table": {str(k_): v for k_, v in got.items()}})
    # the final delivery block: buffered read data is flushed before a failing read completes
    fn = prog.fn("___dispatch_operation_deliver_data_block_invoke", required=False)
    if fn is not None:
        rep.saw(fn)
        n += 1
        partial = [c for c in _handler_calls(prog, fn) if c.ops[1][0] == "c" and c.ops[1][1] == 0 and c.ops[3][0] == "c" and c.ops[3][1] == 0]
        sizes = calls_named(fn, "dispatch_data_get_size")
        ok = bool(partial) and any(any(fn.dominates(s_, c) for s_ in sizes) for c in partial)
        rep.require(rid, ok, fn.file, fn.name, "read-error-drops-buffered-data",
                    "the delivery block no longer calls handler(false, data, 0) for the non-empty data a failing read had already taken from the descriptor before "
                    "it reports handler(true, NULL, error): those bytes are consumed from the descriptor but never delivered", sample={"partial_deliveries": len(partial)})
    if n < 3:
        rep.unknown(rid, "fewer than 3 early-completion / delivery blocks recognised (%d)" % n)


def rule_OD11(rep, prog):
    rid = rep.rule("C14-OD11", "a channel that shares another channel's fd_entry holds its own reference on it: every _dispatch_io_init with an fd_entry borrowed from "
                   "an existing channel is preceded by _dispatch_fd_entry_retain of that entry (each channel's close releases one)", floor=1)
    n = 0
    for fn in prog.all_functions():
        for c in calls_named(fn, "_dispatch_io_init"):
            l = fn.inst(list(root_ptr(fn, c.ops[1]))) if c.ops[1][0] == "i" else None
            if l is None or l.op != "load" or "fd_entry" not in prog.fields(l):
                continue
            n += 1
            rep.saw(fn)
            ok = any(root_ptr(fn, r.ops[0]) == ("i", l.id) and fn.dominates(r, c) for r in calls_named(fn, "_dispatch_fd_entry_retain"))
            rep.require(rid, ok, c.loc, fn.name, "shared-fd-entry-not-retained:%s" % fn.name,
                        "%s initialises a channel with another channel's fd_entry without retaining it: closing the derived channel drops the parent's "
                        "reference, the cleanup handlers of both run while the parent is still open and the entry is freed under it" % fn.name, sample={"init": c.loc})
    if n < 1:
        rep.unknown(rid, "no _dispatch_io_init with a borrowed fd_entry found")


def run(rep, tier="quick", srcdir=None, only=None):
    prog, units = load(UNITS, tier, srcdir)
    rep.units = units
    want = lambda r: only is None or r in only
    if want("C14-BD3"):
        rule_BD3(rep, prog)
    if want("C14-WR5"):
        rule_WR5(rep, prog)
    if want("C14-MP6"):
        rule_MP6(rep, prog)
    if want("C14-SB1"):
        rule_SB1(rep, prog)
    if want("C14-OD7"):
        rule_OD7(rep, prog)
    if want("C14-OD8"):
        rule_OD8(rep, prog)
    if want("C14-TB10"):
        rule_TB10(rep, prog)
    if want("C14-OD11"):
        rule_OD11(rep, prog)
    if want("C14-MP15"):
        rule_MP15(rep, prog)
    if want("C14-OD16"):
        rule_OD16(rep, prog)
    if want("C14-BD17"):
        rule_BD17(rep, prog)
    if want("C14-OD18"):
        rule_OD18(rep, prog)
    if want("C14-AI19"):
        rule_AI19(rep, prog, srcdir)
    if want("C14-MP20"):
        rule_MP20(rep, prog)
    if want("C14-OD21"):
        rule_OD21(rep, prog)
    if want("C14-AI23"):
        rule_AI23(rep, prog)
    if want("C14-OD12"):
        rule_OD12(rep, prog)
    if want("C14-MP13"):
        rule_MP13(rep, prog)
    if want("C14-MP14"):
        rule_MP14(rep, srcdir, tier)
    if want("C06-AI3"):
        # an fd_entry lives exactly as long as its close queue stays suspended: the suspend count of that queue is the entry's reference count (one per
        # channel, per operation, per handler delivery), so the cleanup handler runs after the last I/O handler only if no suspension is lost when the inline
        # counter spills into the side counter (shared with C06)
        from . import C06
        from dqsa import trans as _trans
        pq, _u = load(["queue"], tier, srcdir)
        ex_ = _trans.Extractor(pq, tier)
        ex_.compute_argbits()
        C06.rule_AI3(rep, pq, Q(srcdir), ex_)
    if want("C13-AI6") or want("C13-AI10"):
        # the write path keeps "what is still unwritten" as dispatch_data_create_subrange(data, written, rest) of fragmented client data: the bytes that
        # reach the descriptor are the submitted ones only if that subrange denotes exactly [written, end) (shared with C13)
        from . import C13
        pd, _u = load(["data"], tier, srcdir)
        if want("C13-AI6"):
            C13.rule_AI6(rep, pd)
        if want("C13-AI10"):
            C13.rule_AI10(rep, pd)


MANIFEST = {
    "technique": "value-flow / dominating-condition rules on io.c's operation bookkeeping (LLVM IR), sibling agreement of result-code switches + ring-buffer fill discipline (slot tested empty before store, index advanced only past a filled slot), who-may-write rule on the operation's parameter snapshot + flag/effect mirroring of the stream source suspension, reference bracketing of queued handler invocations, path rule with normalised order facts on the keep-buffering return",
    "level": "narrow structural clauses only (each a necessary condition): high-water buffer sizing, kernel pointer/length window, progress accounting, offset of the "
             "reported unwritten remainder, stream-source suspend condition, result-code coverage of both consumers. Byte conservation under every kernel chunking, "
             "handler ordering and done-exactly-once across the ~40 block-literal functions chained through queues are NOT decided",
    "note": "the property as a whole is largely outside what static structure can decide; these clauses are claimed only as necessary conditions",
}
