"""C07 - groups complete exactly when their count returns to zero.

Decided: the widths / constants / orders of the enter and leave operations, that the last leave (and only it) wakes,
how the wake treats waiters and notifications, the notify publication protocol, and the conditions under which
dispatch_group_wait reports success or timeout. Generation wrap-around and the kernel futex are trusted."""
from dqsa import trans, paths
from .common import *
from .sync_common import *

UNITS = ["semaphore", "shims/lock", "queue"]
GF = frozenset(["dg_state", "dg_bits", "dg_gen"])


def rule_TR1(rep, prog, g):
    rid = rep.rule("C07-TR1", "dispatch_group_leave is a 64-bit atomic add of VALUE_INTERVAL on dg_state (release: the carry of -1 -> 0 bumps the "
                   "generation); dispatch_group_enter is a 32-bit atomic sub of VALUE_INTERVAL on dg_bits (acquire: no borrow from the generation)", floor=2)
    for name, rmw, w, need, why in (("dispatch_group_leave", "add", 64, ord_has_release, "the 0 transition would not increment the generation atomically"),
                                    ("dispatch_group_enter", "sub", 32, ord_has_acquire, "a 0 -> -1 transition would borrow from (decrement) the generation and hide a completed generation from waiters")):
        fn = prog.fn(name)
        rep.saw(fn)
        sites = [i for i in fn.all_insts() if i.op == "atomicrmw" and (prog.fields(i) & GF)]
        ok = len(sites) == 1 and sites[0].d["rmw"] == rmw and sites[0].d.get("w") == w and need(sites[0].d["ord"]) and \
            sites[0].ops[1][0] == "c" and sites[0].ops[1][1] == g["DISPATCH_GROUP_VALUE_INTERVAL"] and \
            ("dg_state" in prog.fields(sites[0]) or "dg_bits" in prog.fields(sites[0]))
        rep.require(rid, ok, sites[0].loc if sites else fn.file, name, "group-rmw-shape:%s" % name,
                    "%s must be a %d-bit atomic %s of DISPATCH_GROUP_VALUE_INTERVAL (found %s): otherwise %s"
                    % (name, w, rmw, [(s.d["rmw"], s.d.get("w"), s.d["ord"]) for s in sites], why),
                    sample={"fn": name, "rmw": rmw, "width": w, "order": sites[0].d["ord"] if sites else None})


def rule_MP2(rep, prog, g):
    rid = rep.rule("C07-MP2", "leave wakes iff it moved the count from 1 to 0; the wake hands every pending notification to its queue and wakes "
                   "all waiters on dg_gen when HAS_WAITERS is set; the fix-up CAS clears HAS_WAITERS only when the count is zero", floor=5)
    fn = prog.fn("dispatch_group_leave")
    rep.saw(fn)
    rmw = [i for i in fn.all_insts() if i.op == "atomicrmw" and (prog.fields(i) & GF)]
    V1 = g["DISPATCH_GROUP_VALUE_1"]
    if rmw:
        res = paths.walk(fn, rmw[0], lambda i: i.op == "call" and i.callee == "_dispatch_group_wake")
        hits = [r for r in res if r[0] == "hit"]
        tests = [i for i in fn.all_insts() if i.op == "icmp" and i.d["pred"] in ("eq", "ne") and any(o[0] == "c" and o[1] in (V1, V1 & 0xffffffff) for o in i.ops)]
        ok = bool(hits) and bool(tests)
        for kind, inst, cx, path in hits:
            if not any(cx.truth.get(t.id) == (t.d["pred"] == "eq") for t in tests):
                ok = False
        rep.require(rid, ok, rmw[0].loc, fn.name, "wake-not-on-last-leave",
                    "dispatch_group_leave reaches _dispatch_group_wake on a path that did not establish old value == 1 (VALUE_1), or never wakes",
                    sample={"wake_paths": len(hits), "value_tests": len(tests)})
        # no exit without wake when the test is true
        for t in tests:
            pass
    # fix-up CAS
    cx = [i for i in fn.all_insts() if i.op == "cmpxchg" and (prog.fields(i) & GF)]
    ex = trans.Extractor(prog)
    HW, HN, VM = g["DISPATCH_GROUP_HAS_WAITERS"], g["DISPATCH_GROUP_HAS_NOTIFS"], g["DISPATCH_GROUP_VALUE_MASK"]
    ts = [t for t in ex.transitions(fn, GF) if not isinstance(t, trans.GiveUp) and t.kind.startswith("cas")]
    # the new value is computed from old by AND masks only; find and-masks applied: check via select structure is complex; use bit effect:
    okc = bool(ts)
    for t in ts:
        if t.clears(HW) and not (t.old.k0 & VM) == VM:
            okc = False
        if not t.clears(HN):
            okc = False
    rep.require(rid, okc, cx[0].loc if cx else fn.file, fn.name, "leave-fixup-cas",
                "dispatch_group_leave: the fix-up CAS must always clear HAS_NOTIFS and may clear HAS_WAITERS only when the re-read count is zero "
                "(otherwise waiters of a newer generation lose their wake-up)", sample={"cas_paths": len(ts)})
    # _dispatch_group_wake
    fn = prog.fn("_dispatch_group_wake")
    rep.saw(fn)
    wakes = calls_named(fn, "_dispatch_wake_by_address")
    asyncs = calls_named(fn, ("_dispatch_continuation_async",))
    snap = [i for i in fn.all_insts() if i.op == "atomicrmw" and i.d["rmw"] == "xchg" and "dg_notify_tail" in prog.fields(i)]
    res = paths.walk(fn, entry_point(fn), lambda i: False)
    okw = okn = bool(wakes) and bool(asyncs) and bool(snap)
    def flag_tests(flag):
        out = []
        for ii in fn.all_insts():
            if ii.op == "icmp" and ii.d["pred"] in ("ne", "eq") and ii.ops[1][0] == "c" and ii.ops[1][1] == 0:
                a = fn.inst(ii.ops[0])
                if a is not None and a.op == "and" and a.ops[1][0] == "c" and a.ops[1][1] == flag and list(a.ops[0][:2]) == ["a", 1]:
                    out.append(ii)
        return out
    tw, tn = flag_tests(HW), flag_tests(HN)
    if not tw or not tn:
        rep.unknown(rid, "anchor vanished: _dispatch_group_wake does not test HAS_WAITERS / HAS_NOTIFS of the state it was handed (%d/%d)" % (len(tw), len(tn)))
    for kind, inst, cx_, path in res:
        if kind != "exit":
            continue
        insts = [i for b in path for i in fn.blocks[b].insts]
        for tests_, needed, flag in ((tw, wakes, "w"), (tn, asyncs, "n")):
            # the flag may be set on this path unless a test of it was found false: a path that returns without having looked at the flag at all
            # (an early return above the test) leaves the waiters / notifications of a set flag behind
            known = [cx_.truth[t.id] == (t.d["pred"] == "ne") for t in tests_ if t.id in cx_.truth]
            mayset = (True in known) or not known
            if mayset and not any(x in insts for x in needed):
                if flag == "w":
                    okw = False
                else:
                    okn = False
    rep.require(rid, okw, wakes[0].loc if wakes else fn.file, fn.name, "wake-skips-waiters",
                "_dispatch_group_wake has a path with HAS_WAITERS set that does not call _dispatch_wake_by_address(&dg_gen): blocked "
                "dispatch_group_wait callers are left behind", sample={"wake_calls": len(wakes)})
    rep.require(rid, okn, asyncs[0].loc if asyncs else fn.file, fn.name, "wake-skips-notifications",
                "_dispatch_group_wake has a path with HAS_NOTIFS set that does not submit the captured notifications",
                sample={"async_calls": len(asyncs), "snapshot": len(snap)})
    for w in wakes:
        p = w.d and fn.inst(w.ops[0])
        rep.require(rid, p is not None and "dg_gen" in prog.fields(p), w.loc, fn.name, "wake-wrong-address",
                    "_dispatch_group_wake wakes an address other than dg_gen (the word waiters sleep on)", sample={"address": "dg_gen"})
    rule_wake_all(rep, rid, prog, "_dispatch_wake_by_address")


def rule_MP3(rep, prog, g):
    rid = rep.rule("C07-MP3", "notify: the node is pushed (release) and the first pusher ORs HAS_NOTIFS with release; when the count is already zero "
                   "the CAS gives up into _dispatch_group_wake (never drops the notification)", floor=2)
    HN = g["DISPATCH_GROUP_HAS_NOTIFS"]
    n = 0
    ex = trans.Extractor(prog)
    for fn in prog.all_functions():
        cxs = [i for i in fn.all_insts() if i.op == "cmpxchg" and (prog.fields(i) & GF) and i.origin == "_dispatch_group_notify"]
        if not cxs:
            continue
        n += 1
        rep.saw(fn)
        ts = [t for t in ex.transitions(fn, GF) if t.site in cxs]
        commits = [t for t in ts if not isinstance(t, trans.GiveUp)]
        gus = [t for t in ts if isinstance(t, trans.GiveUp)]
        # the thread that publishes HAS_NOTIFS (and may fire at once on an empty group) is THE one that made the notification list non-empty - the same
        # condition under which it took the group's reference just before; electing a second thread gives the single-consumer list two consumers
        xch = [i for i in fn.all_insts() if i.op == "atomicrmw" and i.d["rmw"] == "xchg" and "dg_notify_tail" in prog.fields(i)]
        for c_ in cxs:
            cxx = paths.dom_ctx(fn, c_)
            first = False
            for x in xch:
                v_ = cxx.value(["i", x.id])
                if v_ == paths.NULL or v_ == ("c", 0) or ("i", x.id) in cxx.isnull:
                    first = True
                for u in fn.users(x):
                    us = fn.users(u) if u.op in ("inttoptr", "bitcast") else [u]
                    for t_ in us:
                        if t_.op == "icmp" and t_.d["pred"] in ("eq", "ne") and any(o[0] == "n" or (o[0] == "c" and o[1] == 0) for o in t_.ops) \
                                and cxx.truth.get(t_.id) == (t_.d["pred"] == "eq"):
                            first = True
            rep.require(rid, first and bool(xch), c_.loc, fn.name, "notify-cas-not-only-first-pusher:%s" % fn.name,
                        "_dispatch_group_notify (in %s) reaches the HAS_NOTIFS compare-exchange at a point where the tail exchange was not established to have "
                        "returned NULL: a notifier queued BEHIND another one also fires _dispatch_group_wake on an empty group - two consumers of a single-consumer "
                        "list, an unpaired release, and a notification registered for the next generation submitted while the group is still entered" % fn.name,
                        sample={"in": fn.name})
        ok = bool(commits) and all(t.sets(HN) and ord_has_release(t.order) for t in commits)
        rep.require(rid, ok, cxs[0].loc, fn.name, "notify-cas:%s" % fn.name,
                    "_dispatch_group_notify (in %s): the state CAS must OR HAS_NOTIFS with release on every commit path" % fn.name,
                    sample={"in": fn.name, "commit_paths": len(commits)})
        okg = bool(gus)
        for gu in gus:
            # give-up only when low 32 bits are zero, and must reach _dispatch_group_wake
            if gu.to_block is None:
                okg = False
                continue
            first = gu.to_block.insts[0]
            class _S: pass
            s = _S(); s.block = gu.to_block; s.idx = -1; s.loc = first.loc
            res = paths.walk(fn, s, lambda i: i.op == "call" and i.callee == "_dispatch_group_wake")
            if any(r[0] == "exit" for r in res) or (gu.old.k0 & 0xfffffffc) != 0xfffffffc:
                okg = False
            # ... and by nothing more: the generation (high 32 bits) counts completed cycles and is non-zero for every group that was used before
            if gu.old.k0 >> 32:
                okg = False
        rep.require(rid, okg, cxs[0].loc, fn.name, "notify-giveup:%s" % fn.name,
                    "_dispatch_group_notify (in %s): the give-up of the HAS_NOTIFS CAS must be guarded by count == 0 - the low 32 bits only, not the "
                    "generation above them - and lead to _dispatch_group_wake (the group is already empty: the notification must fire now; a group or block "
                    "object that completed once has a non-zero generation forever)" % fn.name, sample={"in": fn.name, "giveups": len(gus)})
    if n == 0:
        rep.unknown(rid, "no expansion of _dispatch_group_notify found")


def rule_MP4(rep, prog, g):
    rid = rep.rule("C07-MP4", "dispatch_group_wait returns 0 only when it observed count == 0 (acquire fence) or, in the slow path, a generation change "
                   "re-read with acquire after the kernel wait; it reports a timeout only for timeout == 0 or rc == ETIMEDOUT", floor=6)
    ET = g["ETIMEDOUT"]
    # the blocking part is _dispatch_group_wait_slow, or - when that helper was merged into its caller - everything in dispatch_group_wait from the
    # kernel wait on
    slow = prog.fn("_dispatch_group_wait_slow", required=False)
    merged = slow is None
    fn = slow if slow is not None else prog.fn("dispatch_group_wait")
    rep.saw(fn)
    rule_recheck_after_wait(rep, rid, prog, fn.name, "dg_gen", ("_dispatch_wait_on_address",))
    waits = calls_named(fn, "_dispatch_wait_on_address")
    loads = [i for i in fn.all_insts() if i.op == "load" and "dg_gen" in prog.fields(i)]
    if merged:
        res = []
        for w in waits:
            pre = w.block.insts[w.block.insts.index(w) - 1] if w.block.insts.index(w) > 0 else None
            class _S: pass
            s0 = _S(); s0.block = w.block; s0.idx = w.block.insts.index(w) - 1; s0.loc = w.loc
            res += paths.walk(fn, s0, lambda i: False)
    else:
        res = paths.walk(fn, entry_point(fn), lambda i: False)
    waited = {tuple(w.ops[1][:2]) for w in waits}       # the generation the kernel wait was told to compare against
    def is_slow_entry(i):
        return i.op == "call" and (i.callee == "_dispatch_group_wait_slow" or (merged and i.callee == "_dispatch_wait_on_address"))
    seen0 = seent = 0
    for kind, inst, cx, path in res:
        if kind != "exit":
            continue
        v = cx.value(inst.ops[0])
        if v == ("c", 0) or v == paths.NULL:
            seen0 += 1
            # generation comparison must be known "different" on this path
            ok = False
            for iid, tv in cx.truth.items():
                ii = fn.insts[iid]
                if ii.op == "icmp" and ii.d["pred"] in ("ne", "eq") and any(fn.inst(o) in loads for o in ii.ops) and any(tuple(o[:2]) in waited for o in ii.ops):
                    if tv == (ii.d["pred"] == "ne"):
                        ok = True
            rep.require(rid, ok, inst.loc, fn.name, "wait-slow-success-without-gen-change",
                        "%s returns 0 after blocking on a path where the re-read generation was not found different from the one waited on: "
                        "the caller believes the group emptied although no leave-to-zero happened (path %s)" % (fn.name, path), sample={"returns": 0, "path": path})
        else:
            seent += 1
            ok = any(cx.consts.get(w.id) == ET for w in waits)
            rep.require(rid, ok, inst.loc, fn.name, "wait-slow-timeout-without-ETIMEDOUT",
                        "%s reports a timeout on a path where the kernel wait did not return ETIMEDOUT (e.g. EINTR): "
                        "dispatch_group_wait returns non-zero before the full timeout elapsed (path %s)" % (fn.name, path), sample={"returns": "timeout", "path": path})
    if not seen0 or not seent:
        rep.unknown(rid, "expected success and timeout returns after the kernel wait in %s (%d/%d)" % (fn.name, seen0, seent))
    # the relative timeout handed to the kernel is the whole of the caller's: seconds = ns / 10^9, nanoseconds = ns % 10^9, both at full width
    fw = prog.fn("_dispatch_wait_on_address", required=False)
    if fw is None:
        rep.unknown(rid, "anchor vanished: _dispatch_wait_on_address not found")
    else:
        rep.saw(fw)
        for fld, op_ in (("tv_sec", "udiv"), ("tv_nsec", "urem")):
            sts = [st for st in fw.all_insts() if st.op == "store" and fld in prog.fields(st)]
            okw = bool(sts)
            for st in sts:
                v = fw.inst(st.ops[0])
                okw = okw and v is not None and v.op == op_ and v.d.get("ty") == "i64" and v.ops[1][0] == "c" and v.ops[1][1] == 1000000000
            rep.require(rid, okw, sts[0].loc if sts else fw.file, fw.name, "wait-timeout-split:%s" % fld,
                        "_dispatch_wait_on_address does not store %s as the full 64-bit %s of the nanosecond timeout by 10^9: part of the timeout is dropped, the kernel "
                        "reports ETIMEDOUT early and dispatch_group_wait returns non-zero before its timeout although the group may still complete in time"
                        % (fld, "quotient" if op_ == "udiv" else "remainder"), sample={"field": fld})
    # fast path
    fn = prog.fn("dispatch_group_wait")
    rep.saw(fn)
    ex = trans.Extractor(prog)
    VM = g["DISPATCH_GROUP_VALUE_MASK"]
    gus = [t for t in ex.transitions(fn, GF) if isinstance(t, trans.GiveUp)]
    for gu in gus:
        if gu.to_block is None:
            continue
        class _S: pass
        s = _S(); s.block = gu.to_block; s.idx = -1; s.loc = gu.site.loc
        c0 = paths.PathCtx(fn)
        fb = gu.from_block
        if fb is not None:
            c0.pred[gu.to_block.id] = fb.id if hasattr(fb, "id") else fb   # the give-up edge: phis of the landing block take its values
        res = paths.walk(fn, s, is_slow_entry, ctx=c0)
        for kind, inst, cx, path in res:
            if kind != "exit":
                continue
            v = cx.value(inst.ops[0])
            if v == ("c", 0) or v == paths.NULL:
                fence = any(i.op == "fence" and ord_has_acquire(i.d["ord"]) for b in path for i in fn.blocks[b].insts)
                ok = (gu.old.k0 & VM) == VM and fence
                rep.require(rid, ok, inst.loc, fn.name, "wait-fast-success",
                            "dispatch_group_wait returns 0 from the state loop without count == 0 being established (known-zero bits %#x) or without "
                            "the acquire fence" % gu.old.k0, sample={"returns": 0, "guard": gu.old.notes[-2:]})

    # every way into the blocking slow path (commit of HAS_WAITERS, or the give-up taken when the bit is already set) has seen count != 0
    def nonzero(old):
        return bool(old.k1 & VM) or any(m and (m & ~VM) == 0 for m in old.some_set)
    nslow = 0
    for t in ex.transitions(fn, GF):
        if isinstance(t, trans.GiveUp):
            if t.to_block is None:
                continue
            class _S: pass
            s = _S(); s.block = t.to_block; s.idx = -1; s.loc = t.site.loc
            if not any(k_ == "hit" for k_, *_ in paths.walk(fn, s, is_slow_entry)):
                continue
            where = t.site.loc
        else:
            where = t.where
        nslow += 1
        rep.require(rid, nonzero(t.old), where, fn.name, "wait-blocks-on-empty-group",
                    "dispatch_group_wait goes on to block (%s) on a path that has not seen count != 0 in the state it read: while a leave has published "
                    "count 0 but not yet cleared HAS_WAITERS, a second waiter parks on the NEW generation of an empty group and times out / hangs"
                    % ("gives up into the slow path" if isinstance(t, trans.GiveUp) else "commits HAS_WAITERS"), sample={"guard": t.old.notes[-3:]})
    if nslow < 2:
        rep.unknown(rid, "expected the HAS_WAITERS commit and the already-set give-up in dispatch_group_wait, found %d" % nslow)
    # the generation handed to the slow path is the generation of the state this call observed (on every way into the slow path)
    cxs = [i for i in fn.all_insts() if i.op == "cmpxchg" and (prog.fields(i) & GF)]
    for c in (calls_named(fn, "_dispatch_wait_on_address") if merged else calls_named(fn, "_dispatch_group_wait_slow")):
        v = fn.inst(c.ops[1])
        while v is not None and v.op in ("trunc", "zext"):
            v = fn.inst(v.ops[0])
        okg = v is not None and v.op == "lshr" and v.ops[1][0] == "c" and v.ops[1][1] == 32 and bool(cxs)
        if okg:
            E = tuple(cxs[0].ops[1][:2])
            src = fn.inst(v.ops[0])
            incoming = [x[0] for x in src.ops] if (src is not None and src.op == "phi") else [v.ops[0]]
            for o in incoming:
                oi = fn.inst(o)
                if tuple(o[:2]) == E:
                    continue
                if oi is not None and oi.op == "or" and tuple(oi.ops[0][:2]) == E and oi.ops[1][0] == "c" and not (oi.ops[1][1] >> 32):
                    continue
                okg = False
        rep.require(rid, okg, c.loc, fn.name, "wait-slow-gen-not-from-observed-state",
                    "dispatch_group_wait passes _dispatch_group_wait_slow a generation that on some path is not taken from the dg_state value it just observed "
                    "(e.g. a stale / zero-initialised new_state on the 'HAS_WAITERS already set' give-up): on a reused group the slow path sees a generation "
                    "mismatch at once and returns 0 while work is still outstanding", sample={"call": c.loc})


def rule_MP8(rep, prog, g):
    rid = rep.rule("C07-MP8", "dispatch_group_enter: the enter that starts a generation (old count == 0, whatever the HAS_WAITERS / HAS_NOTIFS bits say) takes "
                   "the reference the last leave drops, and the enter that would wrap the 30-bit count back to 'empty' is refused", floor=12)
    fn = prog.fn("dispatch_group_enter")
    rep.saw(fn)
    rmw = [i for i in fn.all_insts() if i.op == "atomicrmw" and (prog.fields(i) & GF)]
    if len(rmw) != 1:
        rep.unknown(rid, "expected one atomic RMW on the group state in dispatch_group_enter, found %d" % len(rmw))
        return
    VM, IV = g["DISPATCH_GROUP_VALUE_MASK"] & 0xffffffff, g["DISPATCH_GROUP_VALUE_INTERVAL"]
    def is_retain(i):
        return (i.op == "call" and i.callee and "retain" in i.callee) or \
               (i.op == "atomicrmw" and i.d["rmw"] == "add" and (prog.fields(i) & {"os_obj_ref_cnt", "do_ref_cnt"}))
    def is_trap(i):
        return i.op == "call" and i.callee == "llvm.trap"
    for old in (0, 1, 2, 3, IV, IV | 1, IV | 3, 2 * IV, VM, VM | 1, VM | 2, VM | 3, 0x80000000, 0x80000002):
        seen = []
        def rec(i, seen=seen):
            if is_retain(i) or is_trap(i):
                seen.append(i)
            return is_trap(i)
        env = {rmw[0].id: old}
        last, env = concrete_walk(fn, env, rec)
        retained = any(is_retain(i) for i in seen)
        trapped = any(is_trap(i) for i in seen)
        cnt = old & VM
        rep.require(rid, retained == (cnt == 0), rmw[0].loc, fn.name, "enter-generation-reference:%#x" % old,
                    "dispatch_group_enter with previous dg_bits %#x (count field %#x, flag bits %d) %s: the reference dropped by the leave that ends a generation "
                    "is taken by the enter that finds the count at zero - also while a previous generation's HAS_WAITERS / HAS_NOTIFS bits are still "
                    "set - and by no other enter; otherwise the group is disposed while in use or leaked"
                    % (old, cnt, old & 3, "takes no reference" if not retained else "takes a reference"), sample={"old_bits": old, "retains": retained})
        rep.require(rid, trapped == (cnt == IV), rmw[0].loc, fn.name, "enter-overflow:%#x" % old,
                    "dispatch_group_enter with previous dg_bits %#x %s: the enter that finds the count field at its last value (%#x: the next one is 0 = "
                    "'empty') must be refused, and only that one; otherwise 2^30 outstanding enters look like an empty group and dispatch_group_wait / "
                    "notify report completion with no leave" % (old, "is refused" if trapped else "is accepted", IV), sample={"old_bits": old, "refused": trapped})


def rule_OD5(rep, prog, g):
    from .C03 import root_ptr
    rid = rep.rule("C07-OD5", "the implied leave of dispatch_group_async targets the group captured BEFORE the client callout: a continuation is returned to the "
                   "per-thread cache before its function runs, so nothing is read from it once _dispatch_client_callout(dc->dc_ctxt, dc->dc_func) was entered", floor=2)
    n = 0
    for fn in prog.all_functions():
        for c in calls_named(fn, "_dispatch_client_callout"):
            X = None
            for o in c.ops[:2]:
                i = fn.inst(o)
                while i is not None and i.op == "bitcast":
                    i = fn.inst(i.ops[0])
                if i is not None and i.op == "load" and (prog.fields(i) & {"dc_ctxt", "dc_func"}) and "dispatch_continuation_s" in (i.d["ptr"].get("sty") or ""):
                    X = root_ptr(fn, i.d["ptr"]["base"])
            if X is None:
                continue
            n += 1
            rep.saw(fn)
            late = [l for l in fn.all_insts() if l.op == "load" and l.d.get("ptr") and root_ptr(fn, l.d["ptr"]["base"]) == X and fn.inst_reaches(c, l)
                    and not (l.block is c.block and l.idx < c.idx)]
            rep.require(rid, not late, c.loc, fn.name, "continuation-read-after-callout",
                        "%s reads %s of the continuation at %s after its client function ran: the continuation was already recycled into the thread cache, a "
                        "block that itself submits group work overwrites it, so the leave goes to the wrong group (the outer group never empties, the inner "
                        "one empties early)" % (fn.name, sorted(prog.fields(late[0]))[:2] if late else "", late[0].loc if late else ""),
                        sample={"fn": fn.name, "callout": c.loc})
    if n < 2:
        rep.unknown(rid, "fewer than 2 continuation callouts found (%d)" % n)


def rule_MP6(rep, prog, g):
    from .C03 import root_ptr
    rid = rep.rule("C07-MP6", "_dispatch_group_wake hands EVERY notification of the captured list to its queue: the successor of a node that is not the captured tail "
                   "is obtained by waiting for the concurrent enqueuer to finish linking it (a NULL do_next there means 'not linked yet', not 'end of list'), and "
                   "the queue reference taken at registration is dropped only after the block was submitted to that queue", floor=2)
    fn = prog.fn("_dispatch_group_wake")
    rep.saw(fn)
    nxt = [l for l in fn.all_insts() if l.op == "load" and "do_next" in prog.fields(l)]
    waits = calls_named(fn, "_dispatch_wait_for_enqueuer")
    if not nxt:
        rep.unknown(rid, "no do_next load in _dispatch_group_wake")
    for l in nxt:
        ok = False
        for u in fn.users(l):
            w = u
            if w.op in ("inttoptr", "bitcast"):
                us = fn.users(w)
            else:
                us = [w]
            for t in us:
                if t.op == "icmp" and t.d["pred"] in ("eq", "ne") and any(o[0] == "n" or (o[0] == "c" and o[1] == 0) for o in t.ops):
                    for br, st, sf in paths.branch_edges(fn, t):
                        tgt = st if t.d["pred"] == "eq" else sf
                        if any(wc.block.id == tgt or wc.block.id in fn.reach_from_block(tgt, avoid=frozenset([l.block.id])) for wc in waits):
                            ok = True
        rep.require(rid, ok, l.loc, fn.name, "notify-list-walk-stops-at-unlinked-node",
                    "_dispatch_group_wake reads the successor of a notification node without waiting when it is still NULL: a node whose enqueuer has already "
                    "swapped itself in as tail but not yet linked it ends the walk early, and the notifications behind it - already removed from the group - "
                    "are never submitted", sample={"load": l.loc, "waits": len(waits)})
    asyncs = calls_named(fn, "_dispatch_continuation_async")
    # ... and it is read BEFORE the node is handed to its queue (from then on the node's do_next belongs to that queue's list)
    for l in nxt:
        node = root_ptr(fn, l.d["ptr"]["base"])
        mine = [a for a in asyncs if root_ptr(fn, a.ops[1]) == node]
        redef = [fn.insts[node[1]]] if node[0] == "i" else []      # the loop phi that gives `dc` its next value: crossing it starts the next iteration
        rep.require(rid, bool(mine) and not any(fn.inst_reaches(a, l, avoid_insts=redef) for a in mine), l.loc, fn.name, "notify-successor-read-after-handoff",
                    "_dispatch_group_wake reads a notification's successor after the notification was submitted to its queue: the target queue reuses do_next, so "
                    "with two or more pending notifications the walk follows a foreign link - the remaining ones are never submitted (or the thread crashes)",
                    sample={"load": l.loc})
    rels = calls_named(fn, ("_dispatch_release", "dispatch_release", "_os_object_release_internal"))
    for r in rels:
        q_ = root_ptr(fn, r.ops[0])
        li = fn.inst(q_) if q_[0] == "i" else None
        if li is None or li.op != "load" or "dc_data" not in prog.fields(li):
            continue
        ok = any(root_ptr(fn, a.ops[0]) == q_ and fn.dominates(a, r) for a in asyncs)
        rep.require(rid, ok, r.loc, fn.name, "notify-queue-released-before-submit",
                    "_dispatch_group_wake drops the reference on a notification's queue before submitting the block to it: when that was the last reference "
                    "the block is pushed onto a freed queue and is lost (or the process crashes)", sample={"release": r.loc})


def rule_CP7(rep, prog, g):
    from .sync_common import rule_cas_progress
    rid = rep.rule("C07-CP7", "progress of the group's state loops: every compare-exchange on dg_state / dg_bits that is retried in a loop retries with the value the "
                   "failed attempt returned", floor=2)
    n = rule_cas_progress(rep, rid, prog, fields=GF)
    if n < 2:
        rep.unknown(rid, "fewer than 2 retried compare-exchanges on the group state found (%d)" % n)


def rule_WM10(rep, prog, g):
    rid = rep.rule("C07-WM10", "HAS_WAITERS / HAS_NOTIFS are shared by every waiter / notification of a generation: they are cleared only by the thread that completes the "
                   "generation (the fix-up CAS of dispatch_group_leave) and by the constructor - never by an individual waiter (for instance when it times out) or "
                   "notifier", floor=2)
    HW, HN = g["DISPATCH_GROUP_HAS_WAITERS"], g["DISPATCH_GROUP_HAS_NOTIFS"]
    ex = trans.Extractor(prog)
    ALLOWED = {"dispatch_group_leave": "completes the generation", "_dispatch_group_create_with_count": "constructor (plain store before publication)"}
    n = 0
    for fn in sorted(prog.all_functions(), key=lambda f: f.name):
        if not any(prog.fields(i) & GF for i in fn.all_insts() if i.op in ("store", "atomicrmw", "cmpxchg")):
            continue
        for t in ex.transitions(fn, GF):
            if isinstance(t, trans.GiveUp) or not (t.clears(HW) or t.clears(HN)):
                continue
            n += 1
            rep.saw(fn)
            rep.require(rid, fn.name in ALLOWED, t.site.loc, fn.name, "group-flag-cleared-by:%s" % fn.name,
                        "%s clears %s in the group's state: the bit stands for ALL sleepers / notifications of the generation, so the final leave finds it clear, skips "
                        "the wake-up and the others are left behind on an empty group" % (fn.name, "HAS_WAITERS" if t.clears(HW) else "HAS_NOTIFS"),
                        sample={"fn": fn.name, "site": t.site.loc})
    if n < 2:
        rep.unknown(rid, "fewer than 2 transitions clearing the group flags found (%d)" % n)


def rule_OD9(rep, prog, g):
    rid = rep.rule("C07-OD9", "a notification is attributed to a generation: every path through _dispatch_group_notify looks at the group's state word (dg_state / dg_bits / "
                   "dg_gen), before or after publishing the notification - finding the list non-empty does not say whether it holds the CURRENT generation's notifications "
                   "(HAS_NOTIFS still set, fired at the next zero) or those of a generation whose last leave is between its zero transition and the detachment "
                   "of the list (they are about to be fired)", floor=1)
    fn = prog.fn("_dispatch_group_notify")
    rep.saw(fn)
    push = [i for i in fn.all_insts() if i.op == "atomicrmw" and i.d.get("rmw") == "xchg" and "dg_notify_tail" in prog.fields(i)]
    if not push:
        rep.unknown(rid, "_dispatch_group_notify: publication of the notification (exchange of dg_notify_tail) not found")
        return
    looks = [i for i in fn.all_insts() if i.op in ("load", "cmpxchg", "atomicrmw") and prog.fields(i) & {"dg_state", "dg_bits", "dg_gen"}]
    rets = [i for i in fn.all_insts() if i.op == "ret"]
    first = next(iter(fn.all_insts()))
    blind = [r for r in rets if first not in looks and fn.inst_reaches(first, r, avoid_insts=looks)]
    rep.require(rid, not blind, push[0].loc, fn.name, "notify-joins-list-without-observing-state",
                "_dispatch_group_notify returns on the list-was-not-empty path without ever reading the group's state: a notification registered (after a new "
                "dispatch_group_enter) while the last leave of the previous generation is between its zero transition and _dispatch_group_wake's detachment of the "
                "list is linked behind that generation's notifications and fired with them - before the work entered before the notify call has left",
                sample={"push": push[0].loc, "state_accesses": [i.loc for i in looks]})


def run(rep, tier="quick", srcdir=None, only=None):
    prog, units = load(UNITS, tier, srcdir)
    rep.units = units
    g = consts.get(["DISPATCH_GROUP_VALUE_INTERVAL", "DISPATCH_GROUP_VALUE_MASK", "DISPATCH_GROUP_VALUE_1", "DISPATCH_GROUP_HAS_NOTIFS",
                    "DISPATCH_GROUP_HAS_WAITERS", "ETIMEDOUT"], srcdir=srcdir, unit="semaphore")
    want = lambda r: only is None or r in only
    if want("C07-TR1"):
        rule_TR1(rep, prog, g)
    if want("C07-MP2"):
        rule_MP2(rep, prog, g)
    if want("C07-MP3"):
        rule_MP3(rep, prog, g)
    if want("C07-MP4"):
        rule_MP4(rep, prog, g)
    if want("C07-OD5"):
        rule_OD5(rep, prog, g)
    if want("C07-MP6"):
        rule_MP6(rep, prog, g)
    if want("C07-CP7"):
        rule_CP7(rep, prog, g)
    if want("C07-MP8"):
        rule_MP8(rep, prog, g)
    if want("C07-FK"):
        from .sync_common import rule_futex_key
        rule_futex_key(rep, "C07", prog)
    if want("C07-OD9"):
        rule_OD9(rep, prog, g)
    if want("C07-WM10"):
        rule_WM10(rep, prog, g)
    if want("C05-MP4"):
        # notifications fire for the generation that completed: the wake works on a detached snapshot of the list (shared with C05)
        from . import C05
        C05.rule_MP4(rep, prog)


MANIFEST = {
    "technique": "atomic-site shape rules (width, constant, order from IR types) + bit-level transition extraction on dg_state + path-sensitive must-pass rules + concrete evaluation of dispatch_group_enter over the previous-state grid (count field x flag bits)",
    "level": "the enter/leave operations, the last-leave wake, the wake's treatment of waiters and notifications, the notify CAS protocol and every "
             "return path of dispatch_group_wait/_dispatch_group_wait_slow are checked against the group protocol obligations for all interleavings "
             "(each is a per-step or per-path obligation); generation wrap-around and futex semantics are trusted",
    "note": "trusts the Linux futex wait/wake contract, atomicity of C11 RMWs, and that 2^32 generations do not wrap within one wait",
}
