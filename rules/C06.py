"""C06 - inactive and suspended queues run nothing; resume restarts them.

Decided: no transition takes the drain lock or sets an enqueue bit on a suspended/inactive state; the drain and the
barrier hand-off re-check suspension before starting another item; the suspend/resume/activate arithmetic moves exactly the
documented constants (inline and side counter, under the side lock); resume re-drives the queue. The count of items that
may start after a foreign suspend is not decided."""
from dqsa import trans, paths
from .common import *
from .sync_common import entry_point
from . import C02

UNITS = ["queue", "source", "object"]


def const_set(fn, op, depth=0, seen=None):
    """set of constants an operand may take through phi/select, or None if something else flows in"""
    seen = seen if seen is not None else set()
    if op[0] == "c":
        return {op[1]}
    i = fn.inst(op)
    if i is None or depth > 8:
        return None
    if i.id in seen:
        return set()
    seen.add(i.id)
    if i.op == "phi":
        out = set()
        for v, frm in i.ops:
            r = const_set(fn, v, depth + 1, seen)
            if r is None:
                return None
            out |= r
        return out
    if i.op == "select":
        a, b = const_set(fn, i.ops[1], depth + 1, seen), const_set(fn, i.ops[2], depth + 1, seen)
        if a is None or b is None:
            return None
        return a | b
    return None


def rule_TR1(rep, prog, q, ts):
    rid = rep.rule("C06-TR1", "no transition installs a drain owner or sets an enqueue bit while the old state is suspended / inactive "
                   "(bits >= NEEDS_ACTIVATION), apart from the resume that removes the last suspension", floor=8)
    ENQ = q.ENQUEUED | q.ENQUEUED_ON_MGR
    for t in ts:
        if isinstance(t, trans.GiveUp) or t.kind == "store" or t.width != 64:
            continue
        acq = C02.is_acquire(q, t) and t.origin not in C02.ACQUIRE_EXCEPTIONS and t.fn.name not in C02.ACQUIRE_EXCEPTIONS
        newly_enq = (t.old.k0 & ENQ) == ENQ and (t.sets(q.ENQUEUED) or t.sets(q.ENQUEUED_ON_MGR) or any(m and (m & ~ENQ) == 0 for m in t.new.someset))
        if not (acq or newly_enq):
            continue
        if t.origin == "_dispatch_queue_try_acquire_barrier_sync_and_suspend" and t.old.eq_exprs:
            continue      # compare-exchange from exactly the idle value (no suspend bits): shape checked by C02-TR2
        rep.saw(t.fn)
        delta = q.SUSPEND_INTERVAL if any(a[0] == "-" and a[3] == q.SUSPEND_INTERVAL for a in t.new.arith) else 0
        ok = t.old.uhi - delta < q.NEEDS_ACTIVATION and t.old.ulo >= delta
        rep.require(rid, ok, t.where, t.origin, "%s-while-suspended:%s" % ("acquire" if acq else "enqueue", t.origin),
                    "%s %s on a path where the old state may still be suspended or inactive (old range [%#x,%#x]): an item of a suspended / "
                    "not yet activated queue could start" % (t.origin, "takes the drain lock" if acq else "sets an enqueue bit", t.old.ulo, t.old.uhi),
                    sample={"site": t.origin, "what": "acquire" if acq else "enqueue", "old_max": hex(t.old.uhi)}, details={"guards": t.old.notes})


def _ceval(fn, op, ld, val, depth=0):
    """concrete value of operand `op` when load `ld` yields `val`; None if the chain is not a pure function of that load"""
    M64 = (1 << 64) - 1
    if op[0] == "c":
        return op[1] & M64
    if op[0] != "i" or depth > 8:
        return None
    i = fn.insts[op[1]]
    if i is ld:
        return val
    if i.op in ("trunc", "zext"):
        v = _ceval(fn, i.ops[0], ld, val, depth + 1)
        if v is None:
            return None
        bits = {"i1": 1, "i8": 8, "i16": 16, "i32": 32, "i64": 64}.get(i.d.get("ty"), 64)
        return v & ((1 << bits) - 1)
    if i.op in ("and", "or", "xor", "lshr", "shl", "udiv", "add", "sub"):
        x, y = _ceval(fn, i.ops[0], ld, val, depth + 1), _ceval(fn, i.ops[1], ld, val, depth + 1)
        if x is None or y is None:
            return None
        if i.op == "and": return x & y
        if i.op == "or": return x | y
        if i.op == "xor": return x ^ y
        if i.op == "lshr": return x >> y if y < 64 else 0
        if i.op == "shl": return (x << y) & M64 if y < 64 else 0
        if i.op == "udiv": return x // y if y else None
        if i.op == "add": return (x + y) & M64
        if i.op == "sub": return (x - y) & M64
    if i.op == "icmp":
        x, y = _ceval(fn, i.ops[0], ld, val, depth + 1), _ceval(fn, i.ops[1], ld, val, depth + 1)
        if x is None or y is None:
            return None
        return {"eq": x == y, "ne": x != y, "uge": x >= y, "ugt": x > y, "ule": x <= y, "ult": x < y}.get(i.d["pred"])
    return None


def _root_load(fn, op, prog, depth=0):
    if op[0] != "i" or depth > 8:
        return None
    i = fn.insts[op[1]]
    if i.op == "load":
        return i if (prog.fields(i) & DQ_STATE) else None
    if i.op == "call" and i.callee == "_dispatch_wait_prepare":
        return i          # returns the dq_state it just sampled (and marked with the waiter's override)
    if i.op in ("trunc", "zext", "and", "lshr", "udiv"):
        return _root_load(fn, i.ops[0], prog, depth + 1)
    return None


def _suspension_tests(fn, prog, q):
    """(icmp, polarity, load, missed_bits): every compare that is a pure function of one freshly loaded dq_state and separates states carrying an inline
    suspend count from the idle state 0. polarity True: icmp true means suspended. missed_bits: suspension-carrying bits (NEEDS_ACTIVATION, INACTIVE,
    HAS_SIDE_SUSPEND_CNT, the inline count) for which the test says "not suspended"."""
    out = []
    susp = [b for b in range(64) if (1 << b) >= q.NEEDS_ACTIVATION]
    for i in fn.all_insts():
        if i.op != "icmp" or i.ops[1][0] != "c":
            continue
        ld = _root_load(fn, i.ops[0], prog)
        if ld is None:
            continue
        z = _ceval(fn, ("i", i.id), ld, 0)
        vals = {b: _ceval(fn, ("i", i.id), ld, 1 << b) for b in range(64)}
        if z is None or any(v is None for v in vals.values()):
            continue
        hi = [b for b in range(64) if (1 << b) >= q.SUSPEND_INTERVAL]
        if not all(vals[b] != z for b in hi):
            continue      # does not look at the inline suspend count: some other test (width, enqueued, ...)
        if any(vals[b] != z for b in range(64) if (1 << b) < q.NEEDS_ACTIVATION):
            continue      # also fires on non-suspension bits: a different predicate
        missed = [b for b in susp if vals[b] == z]
        out.append((i, not z, ld, missed))
    return out


def _not_suspended_tests(fn, prog, q):
    """complete suspension tests only (see _suspension_tests)"""
    return [(i, pol, ld) for i, pol, ld, missed in _suspension_tests(fn, prog, q) if not missed]


def _incomplete_tests(rep, rid, fn, prog, q):
    bad = [(i, missed) for i, pol, ld, missed in _suspension_tests(fn, prog, q) if missed]
    for i, missed in bad:
        rep.require(rid, False, i.loc, fn.name, "suspension-test-ignores-bits",
                    "%s decides 'not suspended' from a test of dq_state that ignores bit(s) %s: with the inline count at 0 and suspensions parked in the side "
                    "counter (HAS_SIDE_SUSPEND_CNT) - or an inactive queue - the queue is treated as runnable" % (fn.name, missed), sample={"test": i.loc})
    return bad


def rule_MP2(rep, prog, q):
    rid = rep.rule("C06-MP2", "before every item it starts, the drain re-reads dq_state and leaves if suspended; the barrier-complete hand-off (lock transfer "
                   "to a sync waiter / redirect of readers) is taken only after seeing the queue not suspended", floor=3)
    fn = prog.fn("_dispatch_lane_drain")
    rep.saw(fn)
    tests = _not_suspended_tests(fn, prog, q)
    inc = _incomplete_tests(rep, rid, fn, prog, q)
    callouts = calls_named(fn, ("_dispatch_continuation_pop_inline", "_dispatch_continuation_redirect_push", "_dispatch_non_barrier_waiter_redirect_or_wake"))
    if (not tests and not inc) or not callouts:
        rep.unknown(rid, "anchor vanished in _dispatch_lane_drain (tests=%d callouts=%d)" % (len(tests), len(callouts)))
    starts = [entry_point(fn)] + callouts
    bad = []
    passes_check = lambda i: any(i is ld for (_, _, ld) in tests)
    for s in starts:
        res = paths.walk(fn, s, lambda i: i in callouts, avoid=passes_check)
        bad += [(s, r) for r in res if r[0] == "hit"]
    rep.require(rid, not bad, fn.file, fn.name, "drain-item-without-suspend-check",
                "_dispatch_lane_drain can start an item (%s) without re-reading dq_state for suspension since the previous item: after dispatch_suspend() "
                "from a running item the next item would still start" % (bad[0][1][1].callee if bad else "?"),
                sample={"starts": len(starts), "callouts": len(callouts)}, details={"path": bad[0][1][3] if bad else None})
    # the test must lead out of the loop when suspended: from the suspended edge no callout is reachable
    for tst, pol, ld in tests:
        ctx = paths.PathCtx(fn)
        for br, st, sf in paths.branch_edges(fn, tst):
            tgt = st if pol else sf
            c2 = paths.PathCtx(fn)
            if not c2.enter(br.block, fn.blocks[tgt]):
                continue
            class _S: pass
            s = _S(); s.block = fn.blocks[tgt]; s.idx = -1; s.loc = tst.loc
            res = paths.walk(fn, s, lambda i: i in callouts, ctx=c2)
            hits = [r for r in res if r[0] == "hit"]
            rep.require(rid, not hits, tst.loc, fn.name, "drain-continues-when-suspended",
                        "_dispatch_lane_drain: the suspended edge of the per-item check still reaches a callout", sample={"test": tst.loc})
    fn = prog.fn("_dispatch_lane_barrier_complete")
    rep.saw(fn)
    tests = _not_suspended_tests(fn, prog, q)
    _incomplete_tests(rep, rid, fn, prog, q)
    hand = calls_named(fn, ("_dispatch_lane_drain_barrier_waiter", "_dispatch_lane_drain_non_barriers"))
    if not hand:
        rep.unknown(rid, "anchor vanished: no hand-off call in _dispatch_lane_barrier_complete")
    res = paths.walk(fn, entry_point(fn), lambda i: i in hand)
    ok = bool(tests)
    for kind, inst, cx, path in res:
        if kind == "hit" and not any(cx.truth.get(t.id) is (not pol) for t, pol, ld in tests):
            ok = False
    rep.require(rid, ok, fn.file + ":" + str(fn.d.get("line")), fn.name, "barrier-complete-handoff-while-suspended",
                "_dispatch_lane_barrier_complete hands the queue to a blocked dispatch_sync caller / redirects readers without having seen the queue "
                "not suspended: work starts on a suspended queue", sample={"handoffs": len(hand), "suspend_tests": len(tests)})


def rule_MP5(rep, prog, q):
    rid = rep.rule("C06-MP5", "a blocked dispatch_sync caller computes where to wait by walking the target chain only through queues it has seen NOT suspended "
                   "(an inactive queue has no role yet: walking through it runs off the end of the hierarchy); a suspended / inactive hop ends the walk", floor=2)
    n = 0
    for name in ("_dispatch_wait_compute_wlh", "__DISPATCH_WAIT_FOR_QUEUE__"):
        fn = prog.fn(name)
        rep.saw(fn)
        tests = _not_suspended_tests(fn, prog, q)
        _incomplete_tests(rep, rid, fn, prog, q)
        for c in calls_named(fn, "_dispatch_wait_compute_wlh"):
            n += 1
            cx = paths.dom_ctx(fn, c)
            ok = any(cx.truth.get(t.id) is (not pol) for t, pol, ld in tests)
            rep.require(rid, ok, c.loc, fn.name, "wlh-walk-through-suspended-queue",
                        "%s descends to the next target queue without having seen the current hop not suspended: a dispatch_sync caller blocked behind a queue "
                        "that targets a not-yet-activated queue walks through it past the root queue (NULL target) and crashes instead of running after the "
                        "activation" % fn.name, sample={"call": c.loc, "suspend_tests": len(tests)})
    if n < 2:
        rep.unknown(rid, "expected 2 descents of the target chain, found %d" % n)


def rule_AI3(rep, prog, q, ex):
    rid = rep.rule("C06-AI3", "suspend adds exactly one SUSPEND_INTERVAL, resume removes exactly one; activation moves {inactive,needs-activation} to one "
                   "suspension and a plain activate clears INACTIVE only; the slow paths move the same HALF*INTERVAL-INTERVAL(+-HAS_SIDE) delta in "
                   "opposite directions and +-HALF on the side counter under the side lock", floor=8)
    SB, SI, NA, IN = q.SUSPEND_BITS, q.SUSPEND_INTERVAL, q.NEEDS_ACTIVATION, q.INACTIVE
    fn = prog.fn("_dispatch_lane_suspend")
    rep.saw(fn)
    ts = [t for t in ex.transitions(fn, DQ_STATE) if not isinstance(t, trans.GiveUp)]
    ok = bool(ts) and all(len(t.new.arith) == 1 and t.new.arith[0][0] == "+" and t.new.arith[0][3] == SI and t.preserves(SI - 1) for t in ts)
    rep.require(rid, ok, fn.file, fn.name, "suspend-delta", "_dispatch_lane_suspend must add exactly DISPATCH_QUEUE_SUSPEND_INTERVAL and preserve all lower bits",
                sample={"paths": len(ts)})
    gus = [t for t in ex.transitions(fn, DQ_STATE) if isinstance(t, trans.GiveUp)]
    okg = bool(gus) and all(g.to_block is not None and any(i.op == "call" and i.callee == "_dispatch_lane_suspend_slow" for i in g.to_block.insts) for g in gus)
    rep.require(rid, okg, fn.file, fn.name, "suspend-overflow", "_dispatch_lane_suspend: counter overflow must divert to _dispatch_lane_suspend_slow", sample={"giveups": len(gus)})
    # resume
    fn = prog.fn("_dispatch_lane_resume")
    rep.saw(fn)
    ts = [t for t in ex.transitions(fn, DQ_STATE) if not isinstance(t, trans.GiveUp)]
    seen = {"act-last": 0, "act-plain": 0, "res-na": 0, "res-normal": 0}
    for t in ts:
        o = t.old
        fld1, fld0 = o.k1 & SB, o.k0 & SB
        exact = (fld1 | fld0) == SB
        low_ok = True
        if t.order == "relaxed":
            # activation CAS
            if exact and fld1 == (NA | IN):
                seen["act-last"] += 1
                good = (t.new.k1 & SB) == SI and (t.new.k0 & SB) == (SB & ~SI) and t.preserves(NA - 1)
                rep.require(rid, good, t.where, fn.name, "activate-last", "dispatch_activate on {inactive, needs-activation, count 0} must yield exactly one "
                            "suspension (consumed after dq_activate) - found new %r" % t.new, sample={"arm": "{sc:0,i,na}->{sc:1}"})
            else:
                seen["act-plain"] += 1
                good = t.clears(IN) and t.preserves(q.ALL & ~IN) and bool(o.k1 & IN)
                rep.require(rid, good, t.where, fn.name, "activate-plain", "dispatch_activate on an inactive object with pending suspensions must clear "
                            "INACTIVE only (NEEDS_ACTIVATION and the count stay for the later resume) - found new %r" % t.new,
                            sample={"arm": "{sc>0,i,na}->{i:0}"})
        else:
            if exact and fld1 == (SI | NA):
                seen["res-na"] += 1
                good = t.clears(NA) and t.preserves(q.ALL & ~NA)
                rep.require(rid, good, t.where, fn.name, "resume-na", "resume of {sc:1, na:1} must only clear NEEDS_ACTIVATION - found %r" % t.new, sample={"arm": "{sc:1,na}->{sc:1}"})
            elif exact and fld1 == (NA | IN):
                good = (t.new.k1 & SB) == SI and (t.new.k0 & SB) == (SB & ~SI)
                rep.require(rid, good, t.where, fn.name, "resume-source-activate", "source resume from {inactive,na} must yield one suspension - found %r" % t.new, sample={"arm": "source {i,na}->{sc:1}"})
            else:
                seen["res-normal"] += 1
                subs = [a for a in t.new.arith if a[0] == "-" and a[3] is not None and a[2] >= 55]
                good = len(subs) == 1 and subs[0][3] == SI
                rep.require(rid, good, t.where, fn.name, "resume-delta", "dispatch_resume must remove exactly one SUSPEND_INTERVAL (found deltas %s)" % [(a[0], hex(a[3]) if a[3] else a[1]) for a in t.new.arith],
                            sample={"arm": "sc -= 1", "delta": hex(SI)})
    for k, v in seen.items():
        if v == 0:
            rep.unknown(rid, "_dispatch_lane_resume: arm %s not found" % k)
    # slow paths
    want = {q.SUSPEND_HALF * SI - SI, q.SUSPEND_HALF * SI - SI - q.HAS_SIDE}
    deltas = {}
    for name, callee, sign in (("_dispatch_lane_suspend_slow", "llvm.usub.with.overflow.i64", "-"), ("_dispatch_lane_resume_slow", "llvm.uadd.with.overflow.i64", "+")):
        fn = prog.fn(name)
        rep.saw(fn)
        cs = [c for c in calls_named(fn, callee) if fn.inst(c.ops[0]) is not None]
        cas = [i for i in fn.all_insts() if i.op == "cmpxchg" and (prog.fields(i) & DQ_STATE)]
        ds = None
        for c in cs:
            # the overflow op feeding the CAS new value
            if any(fn.inst(x.ops[2]) is not None for x in cas):
                r = const_set(fn, c.ops[1])
                if r is not None and (ds is None or len(r) > len(ds)):
                    ds = r
        deltas[name] = ds
        rep.require(rid, ds == want, fn.file + ":" + str(fn.d.get("line")), name, "slow-delta:%s" % name,
                    "%s must move {HALF*INTERVAL-INTERVAL, that minus HAS_SIDE_SUSPEND_CNT} %s dq_state, found %s: suspensions are lost or invented when "
                    "the inline counter spills into the side counter" % (name, "out of" if sign == "-" else "back into", sorted(hex(x) for x in ds) if ds else ds),
                    sample={"fn": name, "deltas": sorted(hex(x) for x in ds) if ds else None})
        lock = calls_named(fn, "_dispatch_queue_sidelock_lock")
        unlock = calls_named(fn, "_dispatch_queue_sidelock_unlock")
        okl = bool(lock) and bool(unlock) and all(any(fn.dominates(l, x) for l in lock) for x in cas)
        res = paths.walk(fn, entry_point(fn), lambda i: False, avoid=lambda i: i in unlock)
        okl = okl and not [r for r in res if r[0] == "exit"]
        rep.require(rid, okl, fn.file, name, "slow-sidelock:%s" % name, "%s must hold the side lock around the transfer and release it on every exit" % name,
                    sample={"fn": name, "lock": len(lock), "unlock": len(unlock)})
        # side counter +- HALF
        st = [i for i in fn.all_insts() if i.op == "store" and "dq_side_suspend_cnt" in prog.fields(i)]
        okc = False
        for s_ in st:
            v = fn.inst(s_.ops[0])
            if v is None:
                continue
            if v.op in ("add", "sub") and v.ops[1][0] == "c":
                c = v.ops[1][1]
                w = v.d.get("w", 32)
                if (v.op == "add" and sign == "-" and c == q.SUSPEND_HALF) or (v.op == "sub" and sign == "+" and c == q.SUSPEND_HALF) or \
                   (v.op == "add" and sign == "+" and c == ((1 << w) - q.SUSPEND_HALF)):
                    okc = True
            if v.op == "extractvalue":
                src = fn.inst(v.ops[0])
                if src is not None and src.op == "call" and "add.with.overflow" in (src.callee or "") and src.ops[1][0] == "c" and src.ops[1][1] == q.SUSPEND_HALF and sign == "-":
                    okc = True
        rep.require(rid, okc, st[0].loc if st else fn.file, name, "slow-sidecount:%s" % name,
                    "%s must move DISPATCH_QUEUE_SUSPEND_HALF %s dq_side_suspend_cnt" % (name, "into" if sign == "-" else "out of"), sample={"fn": name})
    fn = prog.fn("_dispatch_lane_try_inactive_suspend", required=False)
    if fn is not None:
        ts = [t for t in ex.transitions(fn, DQ_STATE) if not isinstance(t, trans.GiveUp)]
        rep.require(rid, bool(ts) and all(t.old.k1 & IN for t in ts), fn.file, fn.name, "inactive-suspend-guard",
                    "_dispatch_lane_try_inactive_suspend must commit only while the INACTIVE bit is set", sample={"paths": len(ts)})


def rule_MP4(rep, prog, q, ex):
    rid = rep.rule("C06-MP4", "resume re-drives: when the last suspension is removed the state is either marked DIRTY (someone else will look), the lock is "
                   "taken for a hand-off, or a wakeup is issued; every non-suspended exit consumes the +2 taken at suspend time", floor=3)
    fn = prog.fn("_dispatch_lane_resume")
    rep.saw(fn)
    ts = [t for t in ex.transitions(fn, DQ_STATE) if not isinstance(t, trans.GiveUp) and t.order != "relaxed"]
    n = 0
    for t in ts:
        subs = [a for a in t.new.arith if a[0] == "-" and a[3] == q.SUSPEND_INTERVAL]
        if not subs:
            continue
        if not (t.old.uhi - q.SUSPEND_INTERVAL < q.NEEDS_ACTIVATION):
            continue   # still suspended afterwards
        n += 1
        locked = bool(t.old.some_set) or bool(t.old.k1 & q.OWNER)
        full = not (t.old.uhi - q.SUSPEND_INTERVAL < q.WIDTH_FULL_BIT)
        if locked or full:
            rep.require(rid, t.sets(q.DIRTY), t.where, fn.name, "resume-locked-without-dirty",
                        "_dispatch_lane_resume removes the last suspension while the queue is locked / out of width but does not set DIRTY: the current "
                        "holder unlocks without re-checking and pending items are stranded", sample={"arm": "locked -> DIRTY"})
        else:
            rep.ok(rid, "resume-unlocked", {"arm": "unlocked", "new": repr(t.new)[:100]})
    if n == 0:
        rep.unknown(rid, "no last-resume transition recognised")
    wk = icalls_slot(prog, fn, "dq_wakeup") + calls_named(fn, ("_dispatch_queue_wakeup", "_dispatch_lane_wakeup"))
    rel = calls_named(fn, ("_dispatch_release_2", "_dispatch_release_2_tailcall"))
    okw = bool(wk) and bool(rel)
    for w in wk:
        fl = None
        # flags argument must carry CONSUME_2
        from dqsa import trans as _t
        ex.fn = fn
        bv = _t.Ev(ex, None, 64).ev(w.ops[2])
        if not (bv.k1 & q.CONSUME_2):
            okw = False
    rep.require(rid, okw, fn.file, fn.name, "resume-wakeup-consume2",
                "_dispatch_lane_resume must finish with dx_wakeup(... CONSUME_2) or _dispatch_release_2: the reference taken by the first suspend is leaked "
                "or the queue is never re-driven", sample={"wakeups": len(wk), "release_2": len(rel)})


def rule_MP8(rep, prog, q):
    rid = rep.rule("C06-MP8", "the library's own temporary suspension of an inactive object (set_target_queue, set_*_handler: _dispatch_lane_try_inactive_suspend) is "
                   "always given back: every path from the successful suspend to a return passes _dispatch_lane_resume - otherwise activation clears INACTIVE but "
                   "leaves a suspend count nobody owns and nothing submitted ever runs", floor=2)
    n = 0
    for fn in prog.all_functions():
        cxs = [i for i in fn.all_insts() if i.op == "cmpxchg" and (prog.fields(i) & DQ_STATE) and i.origin == "_dispatch_lane_try_inactive_suspend"] + \
              calls_named(fn, "_dispatch_lane_try_inactive_suspend")
        if fn.name == "_dispatch_lane_try_inactive_suspend":
            continue
        for cx in cxs:
            n += 1
            rep.saw(fn)
            ctx = paths.PathCtx(fn)
            if cx.op == "call":
                ctx.truth[cx.id] = True
            for u in fn.users(cx):
                if u.op == "extractvalue" and u.d.get("idx") == [1]:
                    ctx.truth[u.id] = True
            res = paths.walk(fn, cx, lambda i: False, avoid=lambda i: i.op == "call" and i.callee in ("_dispatch_lane_resume", "dispatch_resume", "_dispatch_lane_resume_activate"), ctx=ctx)
            exits = [r for r in res if r[0] == "exit"]
            rep.require(rid, not exits, cx.loc, fn.name, "inactive-suspend-not-resumed:%s" % fn.name,
                        "%s can return after _dispatch_lane_try_inactive_suspend succeeded without calling _dispatch_lane_resume (path %s): the suspend count taken "
                        "to fence off a concurrent activation is leaked; dispatch_activate() then leaves the object suspended for ever and no item submitted to "
                        "it runs" % (fn.name, exits[0][3] if exits else None), sample={"fn": fn.name, "paths": len(res)})
    if n < 2:
        rep.unknown(rid, "expected the inactive-suspend fence in _dispatch_lane_set_target_queue and _dispatch_source_set_handler, found %d" % n)


def rule_TB9(rep, srcdir, tier):
    rid = rep.rule("C06-TB9", "activation wiring: every queue class whose instances a client can create inactive (serial and concurrent lanes, sources) has its "
                   "activation function in the dq_activate slot of its vtable - never the 'no activate' stub of the root / manager / main classes, which traps "
                   "when the once-per-object activation of an initially-inactive queue runs (the queue then never becomes active and its items never run)", floor=3)
    pi, _u = load(["init"], tier, srcdir)
    k = consts.get(["_DISPATCH_QUEUE_BASE_TYPEFLAG", "_DISPATCH_QUEUE_ROOT_TYPEFLAG", "_DISPATCH_LANE_TYPE", "_DISPATCH_SOURCE_TYPE", "_DISPATCH_META_TYPE_MASK"], srcdir=srcdir)
    # the slot: the one holding _dispatch_lane_activate / _dispatch_source_activate / _dispatch_queue_no_activate in the lane-family vtables
    vts = {}
    for m in pi.modules.values():
        for name, g in m.globals.items():
            if name.startswith("__OS_dispatch_") and name.endswith("_vtable") and g.get("fptrs") and g.get("init"):
                try:
                    ty = int(g["init"][2][0])
                except Exception:
                    continue
                vts[name] = (ty, dict((o, f) for o, f in g["fptrs"]))
    slot = None
    for name, (ty, f) in vts.items():
        for o, fnm in f.items():
            if fnm in ("_dispatch_lane_activate", "_dispatch_source_activate"):
                slot = o
    if slot is None:
        rep.unknown(rid, "anchor vanished: no vtable holds _dispatch_lane_activate / _dispatch_source_activate")
        return
    n = 0
    for name, (ty, f) in sorted(vts.items()):
        meta = ty & k["_DISPATCH_META_TYPE_MASK"]
        if meta not in (k["_DISPATCH_LANE_TYPE"], k["_DISPATCH_SOURCE_TYPE"]) or (ty & (k["_DISPATCH_QUEUE_BASE_TYPEFLAG"] | k["_DISPATCH_QUEUE_ROOT_TYPEFLAG"])):
            continue
        n += 1
        want = "_dispatch_source_activate" if meta == k["_DISPATCH_SOURCE_TYPE"] else "_dispatch_lane_activate"
        rep.require(rid, f.get(slot) == want, "src/init.c", name, "activate-slot:%s" % name,
                    "%s (do_type %#x, a class clients can create inactive) has %s in its dq_activate slot, expected %s: activating an initially-inactive queue of this "
                    "class calls the wrong function (the 'no activate' stub traps) and its pending items never run" % (name, ty, f.get(slot), want),
                    sample={"vtable": name, "activate": want})
    if n < 3:
        rep.unknown(rid, "fewer than 3 client-creatable queue classes found (%d)" % n)


def rule_MP10(rep, prog, q):
    rid = rep.rule("C06-MP10", "the side suspend counter is only looked at under its lock, and the decision based on it is made after the lock was taken: in "
                   "_dispatch_lane_suspend_slow / _dispatch_lane_resume_slow every access to dq_side_suspend_cnt is dominated by _dispatch_queue_sidelock_lock, and "
                   "resume_slow transfers counts back only after finding the side count non-zero under the lock (another resumer may already have done the transfer: "
                   "a second transfer wraps the side count and the queue stays suspended after N suspends and N resumes)", floor=4)
    n = 0
    for name in ("_dispatch_lane_suspend_slow", "_dispatch_lane_resume_slow"):
        fn = prog.fn(name)
        rep.saw(fn)
        locks = calls_named(fn, ("_dispatch_queue_sidelock_lock", "_dispatch_queue_sidelock_trylock"))
        acc = [i for i in fn.all_insts() if i.op in ("load", "store") and "dq_side_suspend_cnt" in prog.fields(i)]
        if not locks or not acc:
            rep.unknown(rid, "anchor vanished in %s (side lock calls=%d, side counter accesses=%d)" % (name, len(locks), len(acc)))
            continue
        for a in acc:
            n += 1
            rep.require(rid, any(fn.dominates(l_, a) for l_ in locks), a.loc, name, "side-count-outside-lock:%s" % name,
                        "%s %s dq_side_suspend_cnt at a point not dominated by taking the side lock: two threads overflowing (or draining) the inline counter together "
                        "both act on the same stale value - suspensions are stranded in, or invented from, the side counter"
                        % (name, "reads" if a.op == "load" else "writes"), sample={"fn": name, "access": a.loc})
    fn = prog.fn("_dispatch_lane_resume_slow")
    cas = [i for i in fn.all_insts() if i.op in ("cmpxchg", "atomicrmw") and (prog.fields(i) & DQ_STATE)]
    sl = [l for l in fn.all_insts() if l.op == "load" and "dq_side_suspend_cnt" in prog.fields(l)]
    locks = calls_named(fn, ("_dispatch_queue_sidelock_lock", "_dispatch_queue_sidelock_trylock"))
    for l_ in locks:
        for kind, inst, cx, path in paths.walk(fn, l_, lambda i: i in cas):
            if kind != "hit":
                continue
            n += 1
            known = any(("i", s_.id) in cx.nonnull or (isinstance(cx.value(["i", s_.id]), tuple) and cx.value(["i", s_.id])[0] == "c" and cx.value(["i", s_.id])[1] != 0)
                        or cx.value(["i", s_.id]) == paths.NONNULL for s_ in sl)
            rep.require(rid, known, inst.loc, fn.name, "resume-slow-transfers-from-empty-side-count",
                        "_dispatch_lane_resume_slow reaches the transfer of HALF suspend counts back into dq_state on a path (%s) that did not find the side counter "
                        "non-zero after taking the side lock" % path, sample={"path": path})
    if n < 4:
        rep.unknown(rid, "fewer than 4 side-counter obligations found (%d)" % n)


def rule_WM6(rep, prog, q, ex):
    from .C01 import PLAIN_STORE_OK
    rid = rep.rule("C06-WM6", "the suspend count lives in dq_state: outside constructors / destructors the word is changed only by atomic read-modify-write "
                   "operations, never by a store (a store of a value computed from an earlier load overwrites a concurrent dispatch_suspend / dispatch_resume)", floor=2)
    n = 0
    for fn in prog.all_functions():
        for i in fn.all_insts():
            if i.op == "store" and (prog.fields(i) & DQ_STATE) and (i.d["ptr"].get("sty") or "").startswith(("struct.dispatch_queue_s", "struct.dispatch_lane_s", "struct.dispatch_workloop_s", "struct.dispatch_source_s", "struct.dispatch_queue_global_s")):
                n += 1
                rep.saw(fn)
                ok = fn.name in PLAIN_STORE_OK or i.origin in PLAIN_STORE_OK
                rep.classified(rid, i.origin, ok, i.loc, fn.name, "dq_state-stored:%s" % i.origin,
                               "%s stores to dq_state (%s) outside a constructor / destructor: a dispatch_suspend or dispatch_resume from another thread that lands "
                               "between the load this value was computed from and the store is lost - a later balanced resume traps as over-resume, or the queue "
                               "stays suspended for ever" % (fn.name, i.d.get("ord")), sample={"fn": fn.name, "order": i.d.get("ord")})
    if n < 2:
        rep.unknown(rid, "fewer than 2 stores to dq_state found (constructors vanished?) (%d)" % n)


def rule_AI11(rep, prog, q):
    from .common import concrete_walk_any, ceval
    rid = rep.rule("C06-AI11", "a queue popped off its target while it cannot be drained (suspended, locked by someone else, out of width) is marked NOT enqueued: "
                   "_dispatch_queue_drain_try_lock, evaluated for each such state for a target-queue drain (ENQUEUED) and a manager-queue drain (ENQUEUED_ON_MGR), "
                   "clears that bit in the state it commits - dispatch_resume (and every other "
                   "wake-up) pushes the queue again only when ENQUEUED is clear, so a stale bit leaves a resumed, idle, non-empty queue that nobody drains", floor=7)
    fn = prog.fn("_dispatch_queue_drain_try_lock")
    rep.saw(fn)
    k = consts.get(["DISPATCH_QUEUE_WIDTH_FULL", "DISPATCH_QUEUE_WIDTH_SHIFT"], srcdir=q.srcdir)
    FULL, SH = k["DISPATCH_QUEUE_WIDTH_FULL"], k["DISPATCH_QUEUE_WIDTH_SHIFT"]
    wl = [l for l in fn.all_insts() if l.op == "load" and "dq_width" in prog.fields(l)]
    sl = [l for l in fn.all_insts() if l.op == "load" and (prog.fields(l) & DQ_STATE)]
    cx = [c for c in fn.all_insts() if c.op == "cmpxchg" and (prog.fields(c) & DQ_STATE)]
    me = calls_named(fn, "_dispatch_lock_value_for_self")
    if not wl or not sl or not cx or not me:
        rep.unknown(rid, "anchor vanished in _dispatch_queue_drain_try_lock")
        return
    W = 4
    idle = (FULL - W) << SH
    cases = {"suspended": idle | q.SUSPEND_INTERVAL, "suspended twice": idle | 2 * q.SUSPEND_INTERVAL, "drain locked by another thread": q.WIDTH_FULL_BIT | q.IN_BARRIER | 0x4444,
             "all width in use": q.WIDTH_FULL_BIT, "inactive": idle | q.INACTIVE | q.NEEDS_ACTIVATION}
    MGR = consts.get(["DISPATCH_INVOKE_MANAGER_DRAIN"], srcdir=q.srcdir)["DISPATCH_INVOKE_MANAGER_DRAIN"]
    for name, S0, fl, bit in [(n_, s_, 0, q.ENQUEUED) for n_, s_ in cases.items()] + \
                             [(n_ + " (popped off the manager queue)", s_, MGR, q.ENQUEUED_ON_MGR) for n_, s_ in list(cases.items())[:3]]:
        S = S0 | bit
        env = {l.id: W for l in wl}
        env.update({l.id: S for l in sl})
        env.update({c.id: 0x1234 for c in me})
        env[("a", 1)] = fl
        hit, env2 = concrete_walk_any(fn, env, lambda i: i in cx or i.op == "ret")
        v = ceval(fn, hit.ops[2], {k_: v_ for k_, v_ in env2.items() if not isinstance(v_, tuple)}) if hit is not None and hit.op == "cmpxchg" else None
        rep.require(rid, v is not None and not (v & bit) and (v | bit) == S, fn.file + ":" + str(fn.d.get("line")), fn.name, "popped-queue-keeps-enqueued:%s" % name,
                    "_dispatch_queue_drain_try_lock on a queue that was popped off its target but is %s (state %#x) commits %s instead of the same state with its ENQUEUED / "
                    "ENQUEUED_ON_MGR bit cleared: after the matching dispatch_resume() the wake-up sees the bit still set, does not push the queue, and its pending items never run"
                    % (name, S, ("%#x" % v) if v is not None else "nothing"), sample={"case": name, "state": S, "new": v})


def rule_CP12(rep, prog, q):
    rid = rep.rule("C06-CP12", "decisions taken inside a dq_state CAS loop look at the state the CAS is about to replace: no branch or select inside such a loop depends on "
                   "a SEPARATE, earlier read of dq_state (for instance `is the queue suspended` sampled before the loop) - a resume that lands between that read and "
                   "the CAS leaves the redrive to the lock holder, who would still believe the queue suspended and unlock without re-enqueueing", floor=20)
    def roots(fn, op, depth=0, seen=None):
        seen = seen if seen is not None else set()
        out = set()
        if op[0] != "i" or depth > 10 or op[1] in seen:
            return out
        seen.add(op[1])
        i = fn.insts[op[1]]
        if i.op == "load":
            out.add(i)
            return out
        if i.op in ("call", "alloca", "cmpxchg", "atomicrmw"):
            return out
        ops = [v for v, frm in i.ops] if i.op == "phi" else i.ops
        for o in ops:
            if isinstance(o, (list, tuple)) and o and isinstance(o[0], str):
                out |= roots(fn, o, depth + 1, seen)
        return out
    n = 0
    for fn in sorted(prog.all_functions(), key=lambda f: f.name):
        for cx in fn.all_insts():
            if cx.op != "cmpxchg" or not (prog.fields(cx) & DQ_STATE):
                continue
            fwd = fn.reach_from_block(cx.block.id)
            if cx.block.id not in fwd:
                continue
            loop = {b for b in fwd if cx.block.id in fn.reach_from_block(b)}
            n += 1
            rep.saw(fn)
            initial = set()
            for b in loop:
                for ph in fn.blocks[b].insts:
                    if ph.op == "phi":
                        initial |= {v[1] for v, frm in ph.ops if frm not in loop and v[0] == "i"}
            stale = []
            for b in loop:
                t = fn.blocks[b].term
                conds = [t.ops[0]] if t.op == "br" and t.ops else []
                conds += [s_.ops[0] for s_ in fn.blocks[b].insts if s_.op == "select"]
                for c in conds:
                    stale += [l for l in roots(fn, c) if (prog.fields(l) & DQ_STATE) and l.block.id not in loop and l.id not in initial]
            rep.require(rid, not stale, (stale[0].loc if stale else cx.loc), fn.name, "cas-decision-on-stale-state:%s" % fn.name,
                        "a decision inside the dq_state CAS loop of %s depends on a read of dq_state made before the loop (at %s), not on the value being replaced: if the "
                        "state changes in between (a dispatch_resume landing in the window) the loop commits a decision taken for a state that no longer exists"
                        % (fn.name, stale[0].loc if stale else ""), sample={"cas": cx.loc})
    if n < 20:
        rep.unknown(rid, "fewer than 20 dq_state CAS loops found (%d)" % n)


def rule_AI13(rep, prog, q):
    rid = rep.rule("C06-AI13", "the suspend count is a COUNT: every read-modify-write that touches the suspend-count field of dq_state adds or subtracts "
                   "SUSPEND_INTERVAL; no xor / or / and ever flips or clears bits of that field (flipping the low bit equals subtracting one only while the count is "
                   "exactly 1 - with a second suspension outstanding it ADDS one, and the queue stays suspended after every resume has been issued)", floor=8)
    count_field = ((1 << 64) - 1) & ~(q.SUSPEND_INTERVAL - 1)
    n = 0
    for fn in sorted(prog.all_functions(), key=lambda f: f.name):
        for i in fn.all_insts():
            if i.op != "atomicrmw" or not (prog.fields(i) & DQ_STATE):
                continue
            v = i.ops[-1]
            n += 1
            rep.saw(fn)
            if v[0] != "c":
                continue
            c = v[1] & ((1 << 64) - 1)
            rmw = i.d.get("rmw")
            bad = (rmw in ("xor", "or") and (c & count_field)) or (rmw == "and" and ((~c) & count_field & ((1 << 64) - 1)))
            rep.require(rid, not bad, i.loc, fn.name, "suspend-count-changed-bitwise:%s" % fn.name,
                        "%s changes the suspend count in dq_state with a bitwise %s (operand %#x): that equals the intended add / subtract only for one particular "
                        "count - with another dispatch_suspend() outstanding the count moves the wrong way and the queue remains suspended after all resumes"
                        % (fn.name, rmw, c), sample={"site": i.loc, "rmw": rmw})
    if n < 8:
        rep.unknown(rid, "fewer than 8 atomic read-modify-writes of dq_state found (%d)" % n)


def rule_AI14(rep, prog, q):
    from .common import concrete_walk_any
    rid = rep.rule("C06-AI14", "a drainer leaves a suspended queue alone: _dispatch_queue_drain_try_unlock, evaluated over (suspended?, DIRTY?), commits the unlock whenever the "
                   "queue is suspended - DIRTY makes it renew the lock (and the caller re-enter the drain) only when the queue is NOT suspended; otherwise a merge or "
                   "push that lands while the object is suspended sends the lock holder back into the invoke function, which runs work on a suspended object", floor=4)
    fn = prog.fn("_dispatch_queue_drain_try_unlock")
    rep.saw(fn)
    sl = [l for l in fn.all_insts() if l.op == "load" and (prog.fields(l) & DQ_STATE)]
    cx = [c for c in fn.all_insts() if c.op == "cmpxchg" and (prog.fields(c) & DQ_STATE)]
    renew = [x for x in fn.all_insts() if x.op == "atomicrmw" and (prog.fields(x) & DQ_STATE)]
    if not sl or not cx or not renew:
        rep.unknown(rid, "anchor vanished in _dispatch_queue_drain_try_unlock (loads=%d cas=%d renew=%d)" % (len(sl), len(cx), len(renew)))
        return
    base = q.WIDTH_FULL_BIT | q.IN_BARRIER | 0x1234
    for susp in (0, 1, 2):
        for dirty in (0, 1):
            S = base | (q.DIRTY if dirty else 0) | susp * q.SUSPEND_INTERVAL
            env = {l.id: S for l in sl}
            env[("a", 1)] = q.IN_BARRIER
            env[("a", 2)] = 0
            hit, _e = concrete_walk_any(fn, env, lambda i: i in cx or i in renew)
            commits = hit in cx
            want_commit = bool(susp) or not dirty
            rep.require(rid, hit is not None and commits == want_commit, fn.file + ":" + str(fn.d.get("line")), fn.name, "try-unlock-decision:%d:%d" % (susp, dirty),
                        "_dispatch_queue_drain_try_unlock on a queue with suspend count %d and DIRTY %s %s; expected %s: with DIRTY taking precedence over suspension the "
                        "lock holder re-enters the invoke function on a suspended object - a dispatch source's handler then runs (and delivers merged data) while the "
                        "source is suspended" % (susp, "set" if dirty else "clear", "commits the unlock" if commits else "renews the lock",
                                                   "commit" if want_commit else "renew"), sample={"suspended": susp, "dirty": dirty})


def run(rep, tier="quick", srcdir=None, only=None):
    prog, units = load(UNITS, tier, srcdir)
    rep.units = units
    q = Q(srcdir)
    ex = trans.Extractor(prog, tier)
    ex.compute_argbits()
    ts = []
    for fn in sorted(prog.all_functions(), key=lambda f: f.name):
        ts.extend(ex.transitions(fn, DQ_STATE))
    want = lambda r: only is None or r in only
    if want("C06-TR1"):
        rule_TR1(rep, prog, q, ts)
    if want("C06-MP2"):
        rule_MP2(rep, prog, q)
    if want("C06-MP5"):
        rule_MP5(rep, prog, q)
    if want("C06-AI3"):
        rule_AI3(rep, prog, q, ex)
    if want("C06-MP4"):
        rule_MP4(rep, prog, q, ex)
    if want("C06-WM6"):
        rule_WM6(rep, prog, q, ex)
    if want("C06-MP8"):
        rule_MP8(rep, prog, q)
    if want("C06-TB9"):
        rule_TB9(rep, srcdir, tier)
    if want("C06-MP10"):
        rule_MP10(rep, prog, q)
    if want("C06-AI11"):
        rule_AI11(rep, prog, q)
    if want("C06-CP12"):
        rule_CP12(rep, prog, q)
    if want("C06-AI13"):
        rule_AI13(rep, prog, q)
    if want("C06-AI14"):
        rule_AI14(rep, prog, q)
    if want("C04-AI17"):
        # "after the last resume every pending item runs": a suspension that lands while a concurrent drainer is parked in front of a barrier must not make the
        # drainer reserve the barrier's width twice - the queue would be resumed, unlocked and never runnable again (shared with C04)
        from . import C04
        C04.rule_AI17(rep, prog, q)
    if want("C18-TB2"):
        # "initially inactive" is one digit of the attribute index: the attribute table decodes every one of its entries as itself (shared with C18)
        from . import C18
        pi, _u = load(["init"], tier, srcdir)
        C18.rule_TB2(rep, pi)
    if want("C06-CP7"):
        from .sync_common import rule_cas_memoryless
        rid = rep.rule("C06-CP7", "the dq_state retry loops (suspend, resume, activate, the lock / width acquisitions) are memoryless: a decision taken by a failed "
                       "attempt - e.g. resume's 'still suspended, nobody to wake' - is not carried into the attempt that succeeds on a different state", floor=15)
        n = rule_cas_memoryless(rep, rid, prog, fields=DQ_STATE)
        if n < 15:
            rep.unknown(rid, "fewer than 15 dq_state retry loops found (%d)" % n)
    if want("C04-TR1"):
        # a suspended / inactive queue admits no new reader either: the width-taking fast paths carry the same "not suspended" guard (shared with C04)
        from . import C04
        C04.rule_TR1(rep, prog, q, ts)


def run_thorough(rep, srcdir=None, only=None):
    """cross-check: the universal (for-all-transitions) rules are re-evaluated on the module built WITH the always-inliner, where every
    inlined copy of a state transition appears in its caller's context (constant arguments folded, caller guards visible)"""
    if only:
        return
    facts = build.facts_for("all", mode="all", srcdir=srcdir)
    prog = ir.Program(facts)
    q = Q(srcdir)
    ex = trans.Extractor(prog, "thorough")
    ex.compute_argbits()
    ts = []
    for fn in sorted(prog.all_functions(), key=lambda f: f.name):
        ts.extend(ex.transitions(fn, DQ_STATE, plain=True))
    rep.extra["inlined_form_transitions"] = len(ts)
    n0 = len(rep.findings)
    sub = report_sub(rep)
    rule_TR1(sub, prog, q, ts)
    merge_sub(rep, sub, 'C06-TR1i', 'C06-TR1 re-evaluated on the fully inlined modules')


MANIFEST = {
    "technique": "atomic state-word transition extraction with exact arithmetic on known bit-fields + path-sensitive must-pass rules (LLVM IR) + memoryless-retry rule over every dq_state compare-exchange loop + internal suspend/resume pairing",
    "level": "every lock-taking / enqueueing transition is shown to exclude suspended and inactive states, the drain and the barrier hand-off to re-check "
             "suspension per item, and the suspend/resume/activate transitions (inline and side counter) to move exactly the documented constants, "
             "symbolically for every nesting depth; the number of items that may still start after a foreign suspend is not decided",
    "note": "trusts LLVM normalisation, cmpxchg atomicity and the side lock's mutual exclusion (checked separately as a memory-order role in C05)",
}
