"""C08 - semaphores conserve permits: no spurious success, no lost signal.

Decided: the only writers of dsema_value are +1 (release) in signal, -1 (acquire) in wait and the guarded undo CAS;
the slow paths are entered exactly on the documented sign conditions; a timeout is reported only after the undo CAS
succeeded; a raced signal is drained; success is returned only after a successful kernel wait.
Not decided: POSIX semaphore semantics and the timing of the timeout."""
from dqsa import trans, paths
from .common import *
from .sync_common import *

UNITS = ["semaphore", "shims/lock"]
F = frozenset(["dsema_value"])


def rule_TR1(rep, prog, ex):
    rid = rep.rule("C08-TR1", "dsema_value is written only by: +1 release (signal), -1 acquire (wait), the undo CAS orig->orig+1 guarded by orig<0, "
                   "and the constructor; slow paths are taken exactly when the new value is <= 0 (signal) / < 0 (wait)", floor=6)
    writers = {}
    for fn in prog.all_functions():
        for t in ex.transitions(fn, F, plain=True):
            if isinstance(t, trans.GiveUp):
                continue
            writers.setdefault(t.origin, []).append(t)
    allowed = {"dispatch_semaphore_signal", "dispatch_semaphore_wait", "_dispatch_semaphore_wait_slow", "dispatch_semaphore_create"}
    for o, ts in sorted(writers.items()):
        rep.classified(rid, o, o in allowed, ts[0].where, o, "unclassified-writer:%s" % o,
                    "%s writes dsema_value but is not one of the classified writers" % o, sample={"writer": o, "kind": ts[0].kind})
    def one(name, rmw, order_ok, what):
        ts = [t for t in writers.get(name, []) if t.kind == "rmw"]
        ok = len(ts) == 1 and ts[0].rmw == rmw and ts[0].operand is not None and ts[0].operand.value() == 1 and order_ok(ts[0].order) and ts[0].width == 64
        rep.require(rid, ok, ts[0].where if ts else name, name, "rmw-shape:%s" % name,
                    "%s must change dsema_value by exactly one with %s (found %s)" % (name, what, [(t.rmw, t.order, t.operand) for t in ts]),
                    sample={"fn": name, "rmw": rmw, "order": ts[0].order if ts else None})
    one("dispatch_semaphore_signal", "add", ord_has_release, "an atomic add of 1, release")
    one("dispatch_semaphore_wait", "sub", ord_has_acquire, "an atomic sub of 1, acquire")
    # undo CAS
    undo = [t for t in writers.get("_dispatch_semaphore_wait_slow", [])]
    fn = prog.fn("_dispatch_semaphore_wait_slow")
    cx = [i for i in fn.all_insts() if i.op == "cmpxchg" and (prog.fields(i) & F)]
    ok = False
    for x in cx:
        new = fn.inst(x.ops[2])
        if new is not None and new.op == "add" and new.ops[0] == x.ops[1] and new.ops[1][0] == "c" and new.ops[1][1] == 1:
            # guard: expected < 0 on every path to the cmpxchg: the branch into x's block tests slt 0 on the expected value
            # (the loop may be `while (orig < 0) { cas }` - one test on the loop-carried value - or rotated `if (orig < 0) do { cas } while (orig < 0)` -
            # one test per entering edge on the value that edge carries into the loop)
            preds_ok = True
            exp = fn.inst(x.ops[1])
            for p in x.block.preds:
                want = x.ops[1]
                if exp is not None and exp.op == "phi" and exp.block is x.block:
                    inc = [v for v, frm in exp.ops if frm == p.id]
                    want = inc[0] if inc else want
                t = p.term
                c = fn.inst(t.ops[0]) if t.ops else None
                if not (t.op == "br" and c is not None and c.op == "icmp" and c.d["pred"] == "slt" and list(c.ops[0][:2]) in (list(want[:2]), list(x.ops[1][:2]))
                        and c.ops[1][0] == "c" and c.ops[1][1] == 0 and t.d["succs"][0] == x.block.id):
                    preds_ok = False
            ok = preds_ok
    rep.require(rid, ok and len(cx) == 1, cx[0].loc if cx else fn.file, fn.name, "undo-cas-shape",
                "_dispatch_semaphore_wait_slow: the undo must be cmpxchg(orig -> orig+1) entered only under orig < 0 "
                "(a waiter may give its decrement back only while the count shows it is still waiting)",
                sample={"undo": cx[0].loc if cx else None})
    # sign conditions
    for name, lin_c, slow, cond in (("dispatch_semaphore_signal", 1, "_dispatch_semaphore_signal_slow", "le0"),
                                    ("dispatch_semaphore_wait", -1, "_dispatch_semaphore_wait_slow", "lt0")):
        f2 = prog.fn(name)
        rep.saw(f2)
        itp, rets = interp_events(f2)
        atom = None
        slow_seen = False
        for c, st in itp.events:
            if c.callee == slow:
                slow_seen = True
                v = None
                for k, av in st.env.items():
                    if av.lin is not None and len([a for a in av.lin if a != 1]) == 1 and av.lin.get(1, 0) == lin_c:
                        v = av
                good = v is not None and (v.hi <= 0 if cond == "le0" else v.hi < 0)
                rep.require(rid, good, c.loc, name, "slow-path-condition:%s" % name,
                            "%s enters %s although the new value may be %s" % (name, slow, v.hi if v else "?"),
                            sample={"fn": name, "slow_when_new_value_in": [v.lo, v.hi] if v else None})
        for st, retop in rets:
            called = any(c.callee == slow and set(s2.trace) <= set(st.trace) and s2.trace == st.trace[:len(s2.trace)] for c, s2 in itp.events)
            if called:
                continue
            v = None
            for k, av in st.env.items():
                if av.lin is not None and len([a for a in av.lin if a != 1]) == 1 and av.lin.get(1, 0) == lin_c:
                    v = av
            good = v is not None and (v.lo >= 1 if cond == "le0" else v.lo >= 0)
            rep.require(rid, good, f2.file, name, "fast-path-condition:%s" % name,
                        "%s returns on the fast path although the new value may be %s (a waiter would not be woken / a permit would be invented)"
                        % (name, v.lo if v else "?"), sample={"fn": name, "fast_when_new_value_in": [v.lo, v.hi] if v else None})
        if not slow_seen:
            rep.unknown(rid, "%s never calls %s" % (name, slow))


def rule_MP2(rep, prog):
    rid = rep.rule("C08-MP2", "_dispatch_semaphore_wait_slow: the timeout result is returned only on the success edge of the undo CAS; when the undo "
                   "loop ends because a signal raced in, the pending wake-up is consumed by _dispatch_sema4_wait; 0 is returned only after a "
                   "successful kernel wait", floor=3)
    fn = prog.fn("_dispatch_semaphore_wait_slow")
    rep.saw(fn)
    cx = [i for i in fn.all_insts() if i.op == "cmpxchg" and (prog.fields(i) & F)]
    res = paths.walk(fn, entry_point(fn), lambda i: False)
    nz = z = 0
    for kind, inst, c, path in res:
        if kind != "exit":
            continue
        v = c.value(inst.ops[0]) if inst.ops else None
        passed_wait = any(i.op == "call" and i.callee == "_dispatch_sema4_wait" for b in path for i in fn.blocks[b].insts)
        tw = [i for b in path for i in fn.blocks[b].insts if i.op == "call" and i.callee == "_dispatch_sema4_timedwait"]
        if v == ("c", 0) or v == paths.NULL:
            z += 1
            ok = passed_wait or any(c.truth.get(t.id) is False for t in tw)
            rep.require(rid, ok, inst.loc, fn.name, "success-without-kernel-wait",
                        "_dispatch_semaphore_wait_slow returns 0 (success) on a path that neither consumed a wake-up with _dispatch_sema4_wait nor "
                        "had _dispatch_sema4_timedwait succeed: a later waiter will be satisfied by a signal that was never issued (path %s)" % path,
                        sample={"returns": 0, "path": path})
        else:
            nz += 1
            # must have passed a successful undo CAS: extractvalue idx1 of the cmpxchg known true
            ok = False
            for x in cx:
                for u in fn.users(x):
                    if u.op == "extractvalue" and u.d.get("idx") == [1] and c.truth.get(u.id) is True:
                        ok = True
            extra = [i for b in path for i in fn.blocks[b].insts if i.op == "call" and i.callee in ("_dispatch_sema4_wait", "_dispatch_sema4_timedwait")
                     and any(fn.inst_reaches(x, i) for x in cx)]
            rep.require(rid, not (ok and extra), extra[0].loc if extra else inst.loc, fn.name, "kernel-wait-after-undo",
                        "_dispatch_semaphore_wait_slow touches the kernel semaphore (%s) after it has given its decrement back and before reporting the timeout: this "
                        "thread is no longer counted as a waiter, so a post it consumes there belongs to ANOTHER waiter that is still counted - that waiter is never "
                        "released although its signal was issued" % (extra[0].callee if extra else None), sample={"path": path})
            rep.require(rid, ok, inst.loc, fn.name, "timeout-without-undo",
                        "_dispatch_semaphore_wait_slow reports a timeout on a path where the undo CAS did not succeed: the caller's decrement stays "
                        "in dsema_value and a later signal is swallowed (path %s)" % path, sample={"returns": "timeout", "path": path})
    if not nz or not z:
        rep.unknown(rid, "expected both timeout and success return paths (found %d / %d)" % (nz, z))


def rule_MP3(rep, prog):
    rid = rep.rule("C08-MP3", "kernel semaphore wrappers: _dispatch_sema4_wait returns only after sem_wait succeeded (EINTR is retried); "
                   "_dispatch_sema4_timedwait reports a timeout only for ret == -1 with errno ETIMEDOUT and success only for ret != -1", floor=3)
    M1 = 0xffffffff
    ET = consts.get(["ETIMEDOUT"], unit="shims/lock", includes=("errno.h",))["ETIMEDOUT"]
    def ret_tests(fn, call):
        return [i for i in fn.all_insts() if i.op == "icmp" and i.d["pred"] in ("eq", "ne") and
                any(fn.inst(o) is call for o in i.ops) and any(o[0] == "c" and o[1] in (M1, (1 << 64) - 1) for o in i.ops)]
    def failed(cx, tests):
        """True if ret == -1 known, False if ret != -1 known, None otherwise"""
        for t in tests:
            tv = cx.truth.get(t.id)
            if tv is not None:
                return tv == (t.d["pred"] == "eq")
        return None
    fn = prog.fn("_dispatch_sema4_wait")
    rep.saw(fn)
    sw = calls_named(fn, "sem_wait")
    if not sw:
        rep.unknown(rid, "sem_wait not called in _dispatch_sema4_wait (not the POSIX configuration?)")
    for c in sw:
        tests = ret_tests(fn, c)
        res = paths.walk(fn, c, lambda i: i is c)
        bad = [r for r in res if r[0] == "exit" and failed(r[2], tests) is not False]
        rep.require(rid, not bad and bool(tests), c.loc, fn.name, "sema4-wait-returns-on-failure",
                    "_dispatch_sema4_wait can return although sem_wait did not succeed (e.g. interrupted by a signal): a blocked dispatch_semaphore_wait "
                    "would report success without a signal", sample={"fn": fn.name, "paths": len(res)})
    # ... and it goes round again ONLY after a failed call (errno is not cleared by a successful sem_wait: a stale EINTR must not trigger a second wait
    # that swallows the next signal)
    for c in sw:
        tests = ret_tests(fn, c)
        again = [r for r in paths.walk(fn, c, lambda i: i is c) if r[0] in ("hit", "loop")]
        # the walk cuts back edges: look at loop re-entries that lead to the call's block as well
        bad = []
        for kind, inst, cx, path in again:
            if kind == "hit" or (kind == "loop" and inst.block is c.block or fn.inst_reaches(inst, c)):
                if failed(cx, tests) is not True:
                    bad.append(path)
        rep.require(rid, not bad and bool(tests), c.loc, fn.name, "sema4-wait-retries-after-success",
                    "_dispatch_sema4_wait can call sem_wait again on a path where the previous call was not established to have failed (ret == -1), e.g. because "
                    "errno still holds EINTR from an earlier system call: the waiter consumes its wake-up, waits again and swallows the next signal as well "
                    "(path %s)" % (bad[0] if bad else None), sample={"fn": fn.name, "retry_paths": len(again)})
    fn = prog.fn("_dispatch_sema4_timedwait")
    rep.saw(fn)
    # the absolute deadline handed to the kernel keeps its full width: seconds = nsec / NSEC_PER_SEC as a 64-bit value
    for fld, op_ in (("tv_sec", "udiv"), ("tv_nsec", "urem")):
        sts = [st for st in fn.all_insts() if st.op == "store" and fld in prog.fields(st)]
        okw = bool(sts)
        for st in sts:
            v = fn.inst(st.ops[0])
            okw = okw and v is not None and v.op == op_ and v.d.get("ty") == "i64" and v.ops[1][0] == "c" and v.ops[1][1] == 1000000000
        rep.require(rid, okw, sts[0].loc if sts else fn.file, fn.name, "deadline-truncated:%s" % fld,
                    "_dispatch_sema4_timedwait does not store %s as the full 64-bit %s of the nanosecond deadline (a narrowing cast in between): a deadline after "
                    "2038 becomes negative / wraps into the past and a long timed dispatch_semaphore_wait returns non-zero at once" % (fld, "quotient" if op_ == "udiv" else "remainder"),
                    sample={"field": fld})
    sw = calls_named(fn, "sem_timedwait")
    if not sw:
        rep.unknown(rid, "sem_timedwait not called in _dispatch_sema4_timedwait")
    for c in sw:
        tests = ret_tests(fn, c)
        res = paths.walk(fn, c, lambda i: i is c)
        for kind, inst, cx, path in res:
            if kind != "exit":
                continue
            v = cx.value(inst.ops[0])
            if v is None:
                b = cx.cond(inst.ops[0])
                v = None if b is None else ("c", 1 if b else 0)
            f = failed(cx, tests)
            if v == ("c", 1):
                # the failure must be the deadline: errno compared equal to ETIMEDOUT on this path (an interrupted wait - EINTR - is retried, never reported)
                et = False
                for iid, tv in cx.truth.items():
                    ii = fn.insts[iid]
                    if ii.op == "icmp" and ii.d["pred"] in ("eq", "ne") and tv == (ii.d["pred"] == "eq") and any(o[0] == "c" and o[1] == ET for o in ii.ops):
                        l = [fn.inst(o) for o in ii.ops if o[0] == "i"]
                        if l and l[0] is not None and l[0].op == "load":
                            src = fn.inst(l[0].d["ptr"]["base"]) if l[0].d.get("ptr") else None
                            if src is not None and src.op == "call" and src.callee == "__errno_location":
                                et = True
                rep.require(rid, et, inst.loc, fn.name, "timedwait-timeout-without-ETIMEDOUT",
                            "_dispatch_sema4_timedwait reports a timeout on a path where errno was not found equal to ETIMEDOUT (e.g. EINTR from a signal handler): "
                            "dispatch_semaphore_wait returns non-zero before its deadline and a signal arriving before the real deadline is not picked up by "
                            "that waiter (path %s)" % path, sample={"returns": "timeout", "errno": "ETIMEDOUT"})
                rep.require(rid, f is True, inst.loc, fn.name, "timedwait-timeout-without-failure",
                            "_dispatch_sema4_timedwait reports a timeout on a path where sem_timedwait was not established to have failed (ret == -1): a "
                            "stale errno turns a consumed wake-up into a timeout and the signal is lost (path %s)" % path, sample={"returns": "timeout"})
            elif v == ("c", 0) or v == paths.NULL:
                rep.require(rid, f is False, inst.loc, fn.name, "timedwait-success-on-failure",
                            "_dispatch_sema4_timedwait reports success on a path where sem_timedwait may have failed (path %s)" % path, sample={"returns": "acquired"})
            else:
                rep.violation(rid, inst.loc, fn.name, "timedwait-result-not-determined-by-ret",
                              "_dispatch_sema4_timedwait: on path %s (sem_timedwait %s) the reported result is not fixed by the call's outcome (e.g. it "
                              "depends on a possibly stale errno): a successful wait can be reported as a timeout or vice versa"
                              % (path, {True: "failed", False: "succeeded", None: "outcome untested"}[f]))


def rule_MP4(rep, prog):
    rid = rep.rule("C08-MP4", "_dispatch_semaphore_signal_slow posts exactly one wake-up on every path: the signaller that found a waiter (new value <= 0) owes it "
                   "the kernel post unconditionally - a waiter that times out meanwhile drains it - and it posts to the semaphore's own dsema_sema", floor=2)
    fn = prog.fn("_dispatch_semaphore_signal_slow")
    rep.saw(fn)
    posts = calls_named(fn, "_dispatch_sema4_signal")
    if not posts:
        rep.unknown(rid, "anchor vanished: _dispatch_semaphore_signal_slow never calls _dispatch_sema4_signal")
        return
    res = paths.walk(fn, entry_point(fn), lambda i: False)
    exits = [r for r in res if r[0] == "exit"]
    bad = [r[3] for r in exits if sum(1 for b in r[3] for i in fn.blocks[b].insts if i in posts) != 1]
    rep.require(rid, not bad and bool(exits), posts[0].loc, fn.name, "signal-slow-skips-post",
                "_dispatch_semaphore_signal_slow returns on a path that does not post exactly one wake-up (path %s): the signaller whose increment found a waiter "
                "is the only one that will ever post for it (later signals see a positive value and take the fast path), so the blocked waiter is never "
                "released although enough signals arrived" % (bad[0] if bad else None), sample={"paths": len(exits), "posts": len(posts)})
    for c in posts:
        p = fn.inst(c.ops[0])
        cnt = c.ops[1] if len(c.ops) > 1 else None
        ok = p is not None and "dsema_sema" in prog.fields(p) and cnt is not None and cnt[0] == "c" and cnt[1] == 1
        rep.require(rid, ok, c.loc, fn.name, "signal-slow-post-shape",
                    "_dispatch_semaphore_signal_slow must post count 1 to &dsema->dsema_sema (found count %s on %s)" % (cnt, sorted(prog.fields(p)) if p is not None else None),
                    sample={"count": 1, "on": "dsema_sema"})


def run(rep, tier="quick", srcdir=None, only=None):
    prog, units = load(UNITS, tier, srcdir)
    rep.units = units
    ex = trans.Extractor(prog, tier)
    want = lambda r: only is None or r in only
    if want("C08-TR1"):
        rule_TR1(rep, prog, ex)
    if want("C08-MP2"):
        rule_MP2(rep, prog)
    if want("C08-MP3"):
        rule_MP3(rep, prog)
    if want("C08-MP4"):
        rule_MP4(rep, prog)
    if want("C12-P7"):
        # "a wait returns non-zero only after its full timeout": the absolute deadline handed to sem_timedwait is decoded from the dispatch_time_t by
        # _dispatch_time_nanoseconds_since_epoch (shared with C12)
        from dqsa import build, ir
        from . import C12
        p12 = ir.Program(build.facts_for(C12.UNITS, mode="all", srcdir=srcdir))
        C12.run_epoch(rep, p12)
        C12.run_clock_ids(rep, p12, srcdir)


MANIFEST = {
    "technique": "atomic-site census + interval abstract interpretation of the fast paths + path-sensitive must-pass rules on the slow path (LLVM IR) + must-post rule on the slow signal path + the deadline decoder shared with C12",
    "level": "all writers of dsema_value are classified and shape-checked, the fast/slow split is decided by interval entailment on the new value, and "
             "every return path of the slow path is checked for the permit-conservation obligations (timeout only after undo, success only after a "
             "kernel wait, raced signal drained); holds for every interleaving because each obligation is per atomic step / per path",
    "note": "trusts POSIX sem_wait/sem_timedwait semantics and atomicity of the C11 operations; timing of the timeout is not analysed",
}
