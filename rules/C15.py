"""C15 - sources coalesce without loss and never re-enter their handler.

Decided: merges are single atomic RMWs of the operation matching the source type, always followed by a MAKE_DIRTY wakeup;
the handler side takes the value with one atomic exchange and never runs for zero; who may write the pending word;
delivery only on the target queue with a re-check afterwards; the value handed to the client is not truncated; sources go
through the serial drain lock. The arithmetic identity itself follows from atomicity of xchg/add/or (trusted)."""
from dqsa import paths, trans
from .common import *
from .sync_common import entry_point
from .C03 import root_ptr
from .C10 import roots_of

UNITS = ["source", "event/event", "event/event_epoll", "queue"]
PD = frozenset(["ds_pending_data"])

PENDING_WRITERS = {
    "dispatch_source_merge_data": "client merges",
    "_dispatch_source_latch_and_call": "the single take (xchg 0)",
    "_dispatch_timers_run": "timer fires (manager)", "_dispatch_timer_unote_configure": "reconfiguration clears",
    "_dispatch_event_merge_fd": "epoll readiness", "_dispatch_event_merge_hangup": "epoll hangup", "_dispatch_event_merge_signal": "signalfd",
    "_dispatch_source_merge_evt": "kevent-style merge", "_dispatch_source_cancel_callout": "cancellation drops pending data",
    "_dispatch_source_handle_wlh_change": "re-registration",
}


def rule_TR1(rep, prog):
    rid = rep.rule("C15-TR1", "dispatch_source_merge_data: DATA_ADD is an atomic add, DATA_OR an atomic or, DATA_REPLACE an atomic store of the caller's value, "
                   "each the only write of the pending word on its path and followed on every path by a wakeup with MAKE_DIRTY; cancelled/released sources are ignored "
                   "first", floor=7)
    k = consts.get(["DISPATCH_EVFILT_CUSTOM_ADD", "DISPATCH_EVFILT_CUSTOM_OR", "DISPATCH_EVFILT_CUSTOM_REPLACE", "DISPATCH_WAKEUP_MAKE_DIRTY"], unit="source")
    fn = prog.fn("dispatch_source_merge_data")
    rep.saw(fn)
    sw = [i for i in fn.all_insts() if i.op == "switch"]
    want = {k["DISPATCH_EVFILT_CUSTOM_ADD"] & 0xff: ("atomicrmw", "add"), k["DISPATCH_EVFILT_CUSTOM_OR"] & 0xff: ("atomicrmw", "or"),
            k["DISPATCH_EVFILT_CUSTOM_REPLACE"] & 0xff: ("store", None)}
    wk = icalls_slot(prog, fn, "dq_wakeup") + calls_named(fn, ("_dispatch_source_wakeup",))
    found = {}
    for s_ in sw:
        for cv, tgt in s_.d["cases"]:
            key = cv & 0xff
            if key not in want:
                continue
            ops = [i for i in fn.blocks[tgt].insts if (prog.fields(i) & PD) and i.op in ("atomicrmw", "store", "cmpxchg")]
            opk, rmw = want[key]
            ok = len(ops) == 1 and ops[0].op == opk and (rmw is None or ops[0].d["rmw"] == rmw) and ops[0].d.get("ord") != "na" and \
                roots_of(fn, ops[0].ops[0] if opk == "store" else ops[0].ops[1]) == {("a", 1)}
            found[key] = ok
            rep.require(rid, ok, ops[0].loc if ops else fn.file, fn.name, "merge-op:%s" % (rmw or "store"),
                        "dispatch_source_merge_data must merge the caller's value into ds_pending_data with a single atomic %s for this source type (found %s): "
                        "a non-atomic or different operation loses concurrent merges" % (rmw or "store", [(o.op, o.d.get("rmw"), o.d.get("ord")) for o in ops]),
                        sample={"filter": hex(cv), "op": rmw or "store"})
            # ... and it is the ONLY write of the pending word on the way to the wake-up (a case that falls through into the next one merges, then overwrites)
            allw = [i for i in fn.all_insts() if (prog.fields(i) & PD) and i.op in ("atomicrmw", "store", "cmpxchg")]
            for o in ops:
                extra = [x for x in allw if x is not o and fn.inst_reaches(o, x) and any(fn.inst_reaches(x, w_) for w_ in wk)]
                rep.require(rid, not extra, (extra[0].loc if extra else o.loc), fn.name, "merge-followed-by-second-write:%s" % (rmw or "store"),
                            "after the %s of this source type dispatch_source_merge_data goes on to write ds_pending_data again (%s) before the wake-up: an atomic OR that "
                            "falls through into the REPLACE case is overwritten with the last mask alone, so coalesced merges lose the earlier bits"
                            % (rmw or "store", [(x.op, x.d.get("rmw")) for x in extra]), sample={"filter": hex(cv)})
            for o in ops:
                good, bad = fn.must_pass(o, wk)
                flags_ok = all((arg_const(fn, w, 2) or 0) & k["DISPATCH_WAKEUP_MAKE_DIRTY"] for w in wk)
                rep.require(rid, good and flags_ok and bool(wk), o.loc, fn.name, "merge-without-dirty-wakeup:%s" % (rmw or "store"),
                            "dispatch_source_merge_data must wake the source with DISPATCH_WAKEUP_MAKE_DIRTY after merging: without DIRTY a drainer that is "
                            "unlocking concurrently (the handler is running) never re-checks ds_pending_data and the merge is not delivered",
                            sample={"wakeups": len(wk), "flags": [arg_const(fn, w, 2) for w in wk]})
    if len(found) != 3:
        rep.unknown(rid, "did not find the three custom source types in dispatch_source_merge_data's switch (%s)" % sorted(found))


def rule_TR2(rep, prog):
    rid = rep.rule("C15-TR2", "the handler side takes the pending value with ONE atomic exchange to 0 and touches ds_pending_data no other way; the event "
                   "handler is invoked only for a non-zero value; ds_pending_data is written only by the classified writers", floor=4)
    fn = prog.fn("_dispatch_source_latch_and_call")
    rep.saw(fn)
    acc = [i for i in fn.all_insts() if (prog.fields(i) & PD) and i.op in ("load", "store", "atomicrmw", "cmpxchg")]
    ok = len(acc) == 1 and acc[0].op == "atomicrmw" and acc[0].d["rmw"] == "xchg" and acc[0].ops[1][0] == "c" and acc[0].ops[1][1] == 0
    rep.require(rid, ok, acc[0].loc if acc else fn.file, fn.name, "latch-not-single-xchg",
                "_dispatch_source_latch_and_call must take ds_pending_data with a single atomic exchange to 0 (found %s): a load followed by a store loses "
                "merges that land in between" % [(a.op, a.d.get("rmw")) for a in acc], sample={"accesses": [(a.op, a.d.get("rmw")) for a in acc]})
    pops = calls_named(fn, ("_dispatch_continuation_pop", "_dispatch_continuation_pop_inline"))
    if acc and pops:
        x = acc[0]
        res = paths.walk(fn, x, lambda i: i in pops)
        okz = True
        for kind, inst, cx, path in res:
            if kind == "hit" and cx.value(["i", x.id]) != paths.NONNULL:
                okz = False
        rep.require(rid, okz, pops[0].loc, fn.name, "handler-for-zero",
                    "_dispatch_source_latch_and_call can invoke the event handler on a path where the latched value was not established non-zero "
                    "(dispatch_source_get_data would report 0)", sample={"callouts": len(pops)})
    for f2 in prog.all_functions():
        for i in f2.all_insts():
            if (prog.fields(i) & PD) and i.op in ("store", "atomicrmw", "cmpxchg"):
                rep.classified(rid, i.origin, i.origin in PENDING_WRITERS, i.loc, i.origin, "unclassified-pending-writer:%s" % i.origin,
                            "%s writes ds_pending_data but is not a classified writer (a second consumer or an unsynchronised producer breaks coalescing)" % i.origin,
                            sample={"writer": i.origin, "role": PENDING_WRITERS.get(i.origin)})
    # client-visible value is not truncated unless the source type has extended status
    fn = prog.fn("dispatch_source_get_data")
    rep.saw(fn)
    lds = [i for i in fn.all_insts() if i.op == "load" and "ds_data" in prog.fields(i)]
    rets = [i for i in fn.all_insts() if i.op == "ret"]
    def alts(op, d=0):
        i = fn.inst(op)
        if i is None or d > 6:
            return [op]
        if i.op == "select":
            return alts(i.ops[1], d + 1) + alts(i.ops[2], d + 1)
        if i.op == "phi":
            out = []
            for v, frm in i.ops:
                out += alts(v, d + 1)
            return out
        return [op]
    raw = any(fn.inst(a) in lds for r in rets for a in alts(r.ops[0]))
    rep.require(rid, raw and bool(lds), fn.file, fn.name, "get-data-truncates",
                "dispatch_source_get_data never returns the full 64-bit ds_data: values merged above 2^32 are silently cut (sums mismatch, OR bits lost, a handler can "
                "see 0)", sample={"loads": len(lds)})


def flags_loads(fn):
    return calls_named(fn, "_dispatch_queue_atomic_flags")


def rule_MP3(rep, prog):
    rid = rep.rule("C15-MP3", "_dispatch_source_invoke2 delivers only on the source's target queue with non-zero pending data and looks at ds_pending_data again "
                   "after the handler returned (re-enqueue); _dispatch_source_wakeup targets the queue when data is pending", floor=3)
    fn = prog.fn("_dispatch_source_invoke2")
    rep.saw(fn)
    L = calls_named(fn, "_dispatch_source_latch_and_call")
    cur = calls_named(fn, "_dispatch_queue_get_current")
    pend = [i for i in fn.all_insts() if i.op == "load" and (prog.fields(i) & PD)]
    if not L or not cur or not pend:
        rep.unknown(rid, "anchor vanished in _dispatch_source_invoke2")
        return
    ok = True
    for l in L:
        cx = paths.dom_ctx(fn, l)
        on_target = False
        for iid, tv in cx.truth.items():
            ii = fn.insts[iid]
            if ii.op == "icmp" and ii.d["pred"] in ("eq", "ne") and tv == (ii.d["pred"] == "eq"):
                a, b = root_ptr(fn, ii.ops[0]), root_ptr(fn, ii.ops[1])
                la, lb = fn.insts.get(a[1]) if a[0] == "i" else None, fn.insts.get(b[1]) if b[0] == "i" else None
                if (la in cur and lb is not None and lb.op == "load" and "do_targetq" in prog.fields(lb)) or \
                   (lb in cur and la is not None and la.op == "load" and "do_targetq" in prog.fields(la)):
                    on_target = True
        nz = any(cx.value(["i", p.id]) == paths.NONNULL for p in pend)
        if not (on_target and nz):
            ok = False
    rep.require(rid, ok, L[0].loc, fn.name, "deliver-off-target-or-empty",
                "_dispatch_source_invoke2 reaches the handler latch without every path having established current queue == ds->do_targetq and "
                "ds_pending_data != 0", sample={"latch_calls": len(L)})
    after = [p for p in pend if any(fn.inst_reaches(l, p) for l in L) and not any(fn.dominates(p, l) for l in L)]
    rep.require(rid, bool(after), fn.file, fn.name, "no-recheck-after-handler",
                "_dispatch_source_invoke2 does not look at ds_pending_data again after the handler ran: merges made while the handler was running are not "
                "delivered until some later merge", sample={"rechecks": len(after)})
    # a merge that arrived before an earlier step of this invocation (installation, the registration handler) has already spent its wake-up: the same
    # invocation must go on to look at the pending data - unless it found the source cancelled, or returns a queue on which it will be invoked again
    k = consts.get(["DSF_CANCELED"], unit="source")
    cts = []
    for t in fn.all_insts():
        if t.op == "icmp" and t.d["pred"] in ("eq", "ne") and t.ops[1][0] == "c" and t.ops[1][1] == 0:
            a = fn.inst(t.ops[0])
            if a is not None and a.op == "and" and a.ops[1][0] == "c" and (a.ops[1][1] & k["DSF_CANCELED"]):
                cts.append(t)
    steps = calls_named(fn, ("_dispatch_source_registration_callout", "_dispatch_source_install"))
    if not steps:
        rep.unknown(rid, "anchor vanished: _dispatch_source_invoke2 neither installs the source nor delivers the registration handler")
    for c in steps:
        bad = []
        for kind, inst, cx, path in paths.walk(fn, c, lambda i: False, avoid=lambda i: i in pend):
            if kind != "exit":
                continue
            if any(cx.truth.get(t.id) == (t.d["pred"] == "ne") for t in cts):
                continue                                   # found cancelled: nothing is delivered any more
            def names_queue(o, depth=0):
                if o is None or depth > 6:
                    return False
                if o[0] in ("g", "ce"):
                    return True
                i = fn.inst(o) if o[0] == "i" else None
                if i is None:
                    return False
                if i.op in ("bitcast", "getelementptr"):
                    return names_queue(i.ops[0], depth + 1)
                if i.op == "phi":
                    return all(names_queue(v_, depth + 1) for v_, frm in i.ops)
                if i.op == "select":
                    return names_queue(i.ops[1], depth + 1) and names_queue(i.ops[2], depth + 1)
                return i.op == "load" and "do_targetq" in prog.fields(i)
            if inst.ops and names_queue(cx.resolve(inst.ops[0])):
                continue                                   # re-driven on the queue it names
            bad.append(path)
        rep.require(rid, not bad, c.loc, fn.name, "returns-after-%s-without-looking-at-pending-data" % c.callee,
                    "_dispatch_source_invoke2 can return after %s without examining ds_pending_data, finding the source cancelled, or naming a queue to be re-driven on "
                    "(path %s): data merged before that step - while the source was suspended, or right after resume while the target queue was busy - has used its "
                    "wake-up already and stays undelivered until some later merge" % (c.callee, bad[0] if bad else None), sample={"step": c.callee})
    fn = prog.fn("_dispatch_source_wakeup")
    rep.saw(fn)
    pl = [i for i in fn.all_insts() if i.op == "load" and (prog.fields(i) & PD)]
    rep.require(rid, bool(pl), fn.file, fn.name, "wakeup-ignores-pending", "_dispatch_source_wakeup must consider ds_pending_data when choosing the wakeup target",
                sample={"loads": len(pl)})


def rule_TB5(rep, prog, srcdir):
    rid = rep.rule("C15-TB5", "descriptor wiring of the three custom data source types: DISPATCH_SOURCE_TYPE_DATA_ADD / _OR / _REPLACE carry the filter "
                   "DISPATCH_EVFILT_CUSTOM_ADD / _OR / _REPLACE that dispatch_source_merge_data switches on (three distinct filters): a DATA_OR source wired to the "
                   "ADD filter coalesces overlapping masks by addition and hands the handler bits nobody merged", floor=3)
    k = consts.get(["DISPATCH_EVFILT_CUSTOM_ADD", "DISPATCH_EVFILT_CUSTOM_OR", "DISPATCH_EVFILT_CUSTOM_REPLACE"], srcdir=srcdir, unit="event/event")
    seen = {}
    for nm, cn in (("_dispatch_source_type_data_add", "DISPATCH_EVFILT_CUSTOM_ADD"), ("_dispatch_source_type_data_or", "DISPATCH_EVFILT_CUSTOM_OR"),
                   ("_dispatch_source_type_data_replace", "DISPATCH_EVFILT_CUSTOM_REPLACE")):
        g = prog.global_(nm)
        if not g or not g.get("init"):
            rep.unknown(rid, "anchor vanished: source type descriptor %s not found" % nm)
            continue
        # dst_filter is the first integer member (after the kind string)
        ints = [x for x in g["init"] if isinstance(x, int)]
        flt = ints[0] if ints else None
        want = k[cn]
        if want >> 63:
            want -= 1 << 64
        wv = want & 0xff if flt is not None and 0 <= flt < 256 else want
        rep.require(rid, flt is not None and (flt == want or flt == wv or (flt - 256) == want), "src/event/event.c", nm, "data-source-filter:%s" % nm,
                    "%s has dst_filter %s, expected %s (%s)" % (nm, flt, cn, want), sample={"type": nm, "filter": cn})
        seen[nm] = flt
    rep.require(rid, len(set(seen.values())) == len(seen) == 3, "src/event/event.c", "_dispatch_source_type_data_*", "data-source-filters-distinct",
                "the three custom data source types do not carry three distinct filters: %s" % seen, sample={"filters": {k_: str(v) for k_, v in seen.items()}})


def rule_SB4(rep, prog):
    rid = rep.rule("C15-SB4", "no re-entrancy: sources are invoked through _dispatch_queue_class_invoke (serial drain lock, C02) and are created with width 1", floor=2)
    fn = prog.fn("_dispatch_source_invoke")
    rep.saw(fn)
    ci = calls_named(fn, "_dispatch_queue_class_invoke")
    rep.require(rid, bool(ci), fn.file, fn.name, "source-invoke-bypasses-lock",
                "_dispatch_source_invoke must go through _dispatch_queue_class_invoke (which takes the drain lock): otherwise two threads can run the handler",
                sample={"calls": len(ci)})
    fn = prog.fn("dispatch_source_create")
    rep.saw(fn)
    qi = calls_named(fn, "_dispatch_queue_init")
    okw = bool(qi) and all(arg_const(fn, c, 2) == 1 for c in qi)
    rep.require(rid, okw, qi[0].loc if qi else fn.file, fn.name, "source-width-not-1",
                "dispatch_source_create must initialise the source's queue with width 1 (found %s)" % [arg_const(fn, c, 2) for c in qi],
                sample={"width": [arg_const(fn, c, 2) for c in qi]})


def rule_TB6(rep, prog, q):
    from .C13 import linform
    rid = rep.rule("C15-TB6", "barrier release balances barrier acquisition: every caller of _dispatch_lane_class_barrier_complete gives back "
                   "IN_BARRIER + width * WIDTH_INTERVAL (for a source, whose width is 1: IN_BARRIER + WIDTH_INTERVAL) - exactly what taking the barrier "
                   "(WIDTH_FULL_BIT | IN_BARRIER from the idle state) added", floor=2)
    n = 0
    for fn in prog.all_functions():
        for c in calls_named(fn, "_dispatch_lane_class_barrier_complete"):
            n += 1
            rep.saw(fn)
            a = c.ops[4]
            if a[0] == "c":
                ok = a[1] == q.IN_BARRIER + q.WIDTH_INTERVAL
                got = "%#x" % a[1]
            else:
                lf = linform(fn, a)
                muls = [k_ for k_, v in lf.items() if isinstance(k_, tuple) and k_[0] == "i" and v == 1 and fn.insts[k_[1]].op in ("mul", "shl")]
                ok = lf.get(1) == q.IN_BARRIER and len(lf) == 2 and len(muls) == 1
                if ok:
                    m = fn.insts[muls[0][1]]
                    kk = [o for o in m.ops if o[0] == "c"]
                    wl = [o for o in m.ops if o[0] != "c"]
                    ok = bool(kk) and bool(wl) and (kk[0][1] == q.WIDTH_INTERVAL if m.op == "mul" else (1 << kk[0][1]) == q.WIDTH_INTERVAL)
                    src_ = fn.inst(wl[0]) if wl else None
                    while src_ is not None and src_.op in ("zext", "sext", "trunc"):
                        src_ = fn.inst(src_.ops[0])
                    ok = ok and src_ is not None and src_.op == "load" and "dq_width" in prog.fields(src_)
                got = str({str(k_): v for k_, v in lf.items()})
            rep.require(rid, ok, c.loc, fn.name, "barrier-release-unbalanced:%s" % fn.name,
                        "%s completes a barrier giving back %s instead of IN_BARRIER + width * WIDTH_INTERVAL: the queue's width field never returns to its idle value, so "
                        "the lane (for _dispatch_queue_wakeup: the dispatch source whose handler was just replaced) is never runnable again and every later merge stays "
                        "undelivered" % (fn.name, got), sample={"site": c.loc, "owned": got})
    if n < 2:
        rep.unknown(rid, "fewer than 2 callers of _dispatch_lane_class_barrier_complete found (%d)" % n)


def rule_MP7(rep, prog):
    rid = rep.rule("C15-MP7", "scheduling sees what merging stores: the `is anything pending` tests of _dispatch_source_wakeup and _dispatch_source_invoke2 look at the "
                   "whole 64-bit ds_pending_data word that dispatch_source_merge_data updates (no mask, no truncation) - a value whose low half is zero still gets "
                   "the source woken and delivered", floor=3)
    n = 0
    for name in ("_dispatch_source_wakeup", "_dispatch_source_invoke2"):
        fn = prog.fn(name)
        rep.saw(fn)
        for t in fn.all_insts():
            if t.op != "icmp" or t.d["pred"] not in ("eq", "ne"):
                continue
            for a, b in ((t.ops[0], t.ops[1]), (t.ops[1], t.ops[0])):
                if not (b[0] == "c" and b[1] == 0):
                    continue
                i = fn.inst(a)
                narrowed = []
                while i is not None and i.op in ("and", "trunc", "zext", "sext", "lshr", "shl"):
                    if i.op in ("and", "trunc", "lshr", "shl"):
                        narrowed.append(i.op)
                    i = fn.inst(i.ops[0])
                if i is None or i.op != "load" or "ds_pending_data" not in prog.fields(i):
                    continue
                n += 1
                rep.require(rid, not narrowed and (i.d.get("w") or 64) == 64, t.loc, fn.name, "pending-test-on-part-of-word:%s" % fn.name,
                            "%s decides whether the source has pending data from only part of ds_pending_data (%s): a merged value with no bits in that part (an OR mask "
                            "using bits 32 and up, an ADD that is a multiple of 2^32) never makes the source runnable - the data is stranded until an unrelated merge"
                            % (fn.name, "/".join(narrowed) or "narrow load"), sample={"test": t.loc})
    if n < 3:
        rep.unknown(rid, "fewer than 3 pending-data tests found in the source's wakeup / invoke functions (%d)" % n)


def run(rep, tier="quick", srcdir=None, only=None):
    prog, units = load(UNITS, tier, srcdir)
    rep.units = units
    want = lambda r: only is None or r in only
    if want("C15-TR1"):
        rule_TR1(rep, prog)
    if want("C15-TR2"):
        rule_TR2(rep, prog)
    if want("C15-MP3"):
        rule_MP3(rep, prog)
    if want("C15-SB4"):
        rule_SB4(rep, prog)
    if want("C15-TB5"):
        rule_TB5(rep, prog, srcdir)
    if want("C15-TB6"):
        rule_TB6(rep, prog, Q(srcdir))
    if want("C15-MP7"):
        rule_MP7(rep, prog)
    if want("C06-AI14"):
        # "merges made while the source is suspended are delivered after the matching resume": the unlock must not send the drainer back into the source's invoke
        # function while the source is suspended (shared with C06)
        from . import C06
        C06.rule_AI14(rep, prog, Q(srcdir))
    if want("C06-AI3"):
        # "merges made while the source is suspended are delivered after the matching resume": a source is a lane, its suspension accounting is the
        # queue's (shared with C06)
        from . import C06
        from dqsa import trans as _trans
        C06.rule_AI3(rep, prog, Q(srcdir), _trans.Extractor(prog, tier))
    if want("C01-TR1") or want("C01-TR4"):
        # a merge that lands while a client thread holds the source's drain lock (a handler setter, cancel_and_wait) only sets DIRTY: the unlock must notice it
        # and re-evaluate the source through its wakeup function, or the merged value stays pending with nobody scheduled to deliver it (shared with C01)
        from . import C01
        from dqsa import trans as _trans
        ex = _trans.Extractor(prog, tier)
        ex.compute_argbits()
        ts = []
        for f_ in sorted(prog.all_functions(), key=lambda f: f.name):
            ts.extend(ex.transitions(f_, DQ_STATE, plain=True))
        C01.rule_TR1(rep, prog, ex, Q(srcdir), ts)
        if want("C01-TR4"):
            # a merge made from inside the source's own handler is re-driven by the DIRTY bit alone when the source sits directly on an overcommit root queue
            # (invoke2 re-checks pending data only under avoid_starvation): the wake-up must publish DIRTY even when the caller is the drainer itself (shared with C01)
            C01.rule_TR4(rep, prog, ex, Q(srcdir), ts)


MANIFEST = {
    "technique": "atomic-site shape rules, who-may-write census, switch/table agreement and path-sensitive must-pass rules over the LLVM IR of source.c + constant / linear-form agreement of every barrier completion with the barrier acquisition, full-width rule on the pending-data tests",
    "level": "producer side (one atomic RMW of the right kind + MAKE_DIRTY wakeup), consumer side (single exchange, non-zero, re-check after the handler, only on "
             "the target queue), writer census of ds_pending_data and non-truncation of the delivered value are decided for all merge/handler interleavings; the "
             "sum/union identity rests on atomicity of the RMW operations (trusted) and on C01/C02 for wakeup and drain-lock correctness",
    "note": "epoll back end; kevent-only code compiled out is not analysed",
}
