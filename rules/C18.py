"""C18 - queue identity, queue-specific data and attributes are reported faithfully.

Decided: (DM1) the dispatch_qos_t and qos_class_t code spaces are never mixed (typed AST rule); (TB2) the attribute
table's mixed-radix encoder and decoder are inverse, cover the table exactly and have a digit wide enough for every admissible
field value; (TB3) dispatch_get_global_queue maps every documented identifier to the documented root queue and rejects every
flag bit other than OVERCOMMIT (conditional constant propagation of each documented constant through the inlined IR) and the
root queue table carries the class/overcommit its index denotes; (MP4) thread frames are pushed/popped in pairs, apply helpers
carry the submitting queue's frame, dispatch_get_specific walks the target chain.
Not decided: dispatch_assert_queue over all frame stacks."""
import os, re, subprocess
from dqsa import paths, build, ir, sccp
from .common import *
from .sync_common import entry_point
from .C03 import root_ptr

UNITS = ["init", "queue", "apply"]

DM_QUERY = r'''
set bind-root true
set output diag
match binaryOperator(isComparisonOperator(), hasEitherOperand(ignoringParenImpCasts(expr(hasType(typedefType(hasDeclaration(typedefNameDecl(hasName("dispatch_qos_t")))))))), hasEitherOperand(ignoringParenImpCasts(declRefExpr(to(enumConstantDecl(matchesName("QOS_CLASS_")))))))
match binaryOperator(isAssignmentOperator(), hasLHS(ignoringParenImpCasts(expr(hasType(typedefType(hasDeclaration(typedefNameDecl(hasName("dispatch_qos_t")))))))), hasRHS(ignoringParenImpCasts(declRefExpr(to(enumConstantDecl(matchesName("QOS_CLASS_")))))))
match binaryOperator(isComparisonOperator(), hasEitherOperand(ignoringParenImpCasts(expr(hasType(typedefType(hasDeclaration(typedefNameDecl(hasName("qos_class_t")))))))), hasEitherOperand(ignoringParenImpCasts(declRefExpr(to(enumConstantDecl(matchesName("^::DISPATCH_QOS_")))))))
'''

FIXTURE = '''
#include "internal.h"
int verif_dm1_fixture(dispatch_qos_t q) { return q == QOS_CLASS_MAINTENANCE; }
'''


def rule_DM1(rep, srcdir, tier):
    rid = rep.rule("C18-DM1", "code-space agreement: a dispatch_qos_t value is never compared with / assigned from a QOS_CLASS_* enumerator (and vice versa) "
                   "outside the conversion helpers", floor=2)
    units = ["init", "queue"] if tier == "quick" else [u for u in sorted(build.compdb()) if u not in ("event/event_kevent", "event/event_windows", "mach", "introspection")]
    sd = build.scratch()
    qf = os.path.join(sd, "dm1.cq")
    open(qf, "w").write(DM_QUERY)
    fx = os.path.join(sd, "dm1_fixture.c")
    open(fx, "w").write(FIXTURE)
    def run(src, flags, cwd):
        r = subprocess.run(["clang-query-14", "-f", qf, src, "--"] + flags + ["-Wno-everything"], capture_output=True, text=True, cwd=cwd if os.path.isdir(cwd) else None)
        hits = []
        for m in re.finditer(r"^(\S+?):(\d+):(\d+): note: \"root\" binds here\n(.*)\n", r.stdout, re.M):
            hits.append((m.group(1), int(m.group(2)), m.group(4).strip()))
        return hits, r
    src, flags, cwd = build.ast_flags("init", srcdir=srcdir)
    hits, r = run(fx, flags, cwd)
    if not hits:
        rep.unknown(rid, "clang-query positive fixture did not match (tool or matcher broken): %s" % (r.stderr[-300:] or r.stdout[-300:]))
        return
    rep.ok(rid, "fixture", {"fixture": "dispatch_qos_t == QOS_CLASS_MAINTENANCE matches", "hits": len(hits)})
    for u in units:
        src, flags, cwd = build.ast_flags(u, srcdir=srcdir)
        hits, r = run(src, flags, cwd)
        if r.returncode != 0 and not r.stdout:
            rep.unknown(rid, "clang-query failed on %s: %s" % (u, r.stderr[-300:]))
            continue
        seen = set()
        for f, line, text in hits:
            if "/src/" not in f and "/verif" not in f and not f.startswith("src/"):
                continue
            key = (os.path.basename(f), text)
            if key in seen:
                continue
            seen.add(key)
            # enclosing function: look it up from the IR facts by line later; report with the expression text
            fnname = _function_at(f, line)
            if fnname in ("_dispatch_qos_from_qos_class", "_dispatch_qos_to_qos_class", "_dispatch_qos_class_valid"):
                continue
            rep.violation(rid, "%s:%d" % (os.path.relpath(f, "/repo") if f.startswith("/") else f, line), fnname, "qos-domain-mix:%s:%s" % (fnname, re.sub(r"\s+", " ", text)),
                          "%s mixes the internal dispatch_qos_t code space with a QOS_CLASS_* enumerator: `%s` (DISPATCH_QOS_USER_INITIATED == 5 == "
                          "QOS_CLASS_MAINTENANCE, so the test selects the wrong class)" % (fnname, re.sub(r"\s+", " ", text)))
        if not [h for h in hits if "/src/" in h[0] or h[0].startswith("src/")]:
            rep.ok(rid, u, {"unit": u, "mixed_comparisons": 0})


def _function_at(path, line):
    """name of the C function whose body contains `line` (cheap scan for the last line that looks like a definition head)"""
    try:
        lines = open(path).read().split("\n")
    except OSError:
        return "?"
    for k in range(line - 1, 0, -1):
        m = re.match(r"^([A-Za-z_][A-Za-z0-9_]*)\s*\(", lines[k])
        if m and not lines[k].startswith((" ", "\t")) and m.group(1) not in ("if", "while", "switch", "for", "return", "sizeof"):
            return m.group(1)
    return "?"


def rule_TB2(rep, prog):
    rid = rep.rule("C18-TB2", "attribute table: the decoder's radix sequence is the reverse of the encoder's, the product of the radices is the table length, "
                   "and there is a digit wide enough for every relative priority / QoS the constructors admit", floor=4)
    to = prog.fn("_dispatch_queue_attr_to_info")
    fr = prog.fn("_dispatch_queue_attr_from_info")
    rep.saw(to); rep.saw(fr)
    # decoder: chain idx -> urem c / udiv c
    rad_to = []
    divs = [i for i in to.all_insts() if i.op == "udiv" and i.ops[1][0] == "c"]
    rems = [i for i in to.all_insts() if i.op == "urem" and i.ops[1][0] == "c"]
    # order by data dependence: the first urem/udiv act on the index, the following on the previous quotient
    def depth(i, d=0):
        x = to.inst(i.ops[0])
        while x is not None and x.op in ("zext", "trunc", "sext"):
            x = to.inst(x.ops[0])
        return 1 + depth(x, d) if x is not None and x.op == "udiv" and x.ops[1][0] == "c" and x.ops[1][1] < 64 else 0
    rems = [r for r in rems if r.ops[1][1] < 64]
    rad_to = [r.ops[1][1] for r in sorted(rems, key=depth)]
    muls = [i for i in fr.all_insts() if i.op == "mul" and any(o[0] == "c" and o[1] < 64 for o in i.ops)]
    def mdepth(i):
        n = 0
        x = i
        while x is not None:
            nxt = None
            for o in x.ops:
                y = fr.inst(o)
                seen = 0
                while y is not None and y.op in ("add", "zext", "trunc", "sext") and seen < 6:
                    seen += 1
                    cand = [fr.inst(oo) for oo in y.ops]
                    y2 = next((c for c in cand if c is not None and c.op in ("mul", "add")), None)
                    y = y2
                    if y is not None and y.op == "mul":
                        break
                if y is not None and y.op == "mul" and y is not x:
                    nxt = y
            if nxt is None:
                break
            n += 1
            x = nxt
        return n
    rad_fr = [next(o[1] for o in m.ops if o[0] == "c") for m in sorted(muls, key=mdepth)]
    tbl = prog.global_("_dispatch_queue_attrs")
    n = tbl.get("len") if tbl else None
    prod = 1
    for r in rad_to:
        prod *= r
    rep.require(rid, len(rad_to) >= 5 and prod == n, to.file, to.name, "decoder-radix-product",
                "_dispatch_queue_attr_to_info decodes with radices %s (product %d) but _dispatch_queue_attrs has %s entries" % (rad_to, prod, n),
                sample={"radices": rad_to, "product": prod, "table": n})
    # the "not one of the table's entries" test covers the WHOLE table: its upper bound is the table's end (entries x entry size), so that every one of the
    # n attribute values decodes as itself (the last entry - every digit at its maximum, inactive included - is otherwise taken for a foreign copy and aliased to
    # entry 0: the queue comes out active and runs before dispatch_activate)
    esz = [i.ops[1][1] for i in to.all_insts() if i.op in ("sdiv", "udiv") and i.ops[1][0] == "c" and to.inst(i.ops[0]) is not None and to.inst(i.ops[0]).op == "sub"]
    ubs = [t for t in to.all_insts() if t.op == "icmp" and t.d["pred"] in ("uge", "ugt", "ult", "ule") and any(o[0] == "g" and o[1] == "_dispatch_queue_attrs" for o in t.ops)]
    if not esz or not ubs:
        rep.unknown(rid, "anchor vanished: range test / entry size of _dispatch_queue_attrs in the decoder not found (%d/%d)" % (len(ubs), len(esz)))
    else:
        # every comparison of the argument with an address inside the table draws a boundary: "p < G+b" / "p >= G+b" at b, "p <= G+b" / "p > G+b" at b + entry;
        # the boundaries of the in-table test are exactly the table's start and its end
        bounds = set()
        for t in ubs:
            gi = [k_ for k_, o in enumerate(t.ops) if o[0] == "g" and o[1] == "_dispatch_queue_attrs"][0]
            off = t.ops[gi][2] if len(t.ops[gi]) > 2 else 0
            pred = t.d["pred"]
            if gi == 0:      # G+off <pred> p  ==  p <swapped pred> G+off
                pred = {"uge": "ule", "ugt": "ult", "ult": "ugt", "ule": "uge"}[pred]
            bounds.add(off + (esz[0] if pred in ("ugt", "ule") else 0))
        want_b = {0, (n or 0) * esz[0]}
        rep.require(rid, bounds == want_b, ubs[0].loc, to.name, "decoder-table-bound",
                    "_dispatch_queue_attr_to_info tests its argument against the byte range %s of _dispatch_queue_attrs, but the table is %s (%s entries of %d bytes): "
                    "entries outside the tested range are not decoded as themselves (the last one - initially inactive, every digit at its maximum - is aliased to "
                    "entry 0: the queue is created active)" % (sorted(bounds), sorted(want_b), n, esz[0]), sample={"bounds": sorted(bounds), "table": sorted(want_b)})
    # encoder multiplies by all but the outermost radix (idx starts at 0): compare as reversed sequence, ignoring the leading multiply of zero
    enc = [r for r in rad_fr]
    rev = list(reversed(rad_to))
    ok = enc == rev or enc == rev[1:] or enc == rev[-len(enc):] if enc else False
    rep.require(rid, ok, fr.file, fr.name, "encoder-decoder-radix-mismatch",
                "_dispatch_queue_attr_from_info multiplies by %s but the decoder divides by %s (reversed %s): an attribute encodes to an index that decodes to a "
                "different attribute" % (enc, rad_to, rev), sample={"encoder": enc, "decoder_reversed": rev})
    # admissible relative priorities from the validation in _dispatch_qos_class_valid / dispatch_queue_attr_make_with_qos_class
    k = consts.get(["QOS_MIN_RELATIVE_PRIORITY", "DISPATCH_QOS_MAX"], unit="init")
    nrel = 1 - (k["QOS_MIN_RELATIVE_PRIORITY"] - (1 << 64) if k["QOS_MIN_RELATIVE_PRIORITY"] >> 63 else k["QOS_MIN_RELATIVE_PRIORITY"])
    rep.require(rid, nrel in rad_to, to.file, to.name, "no-digit-for-relpri",
                "the attribute index has no digit of radix %d: relative priorities 0..QOS_MIN_RELATIVE_PRIORITY (%d values) are admitted by the constructor but "
                "the largest one overflows into the neighbouring (QoS) digit, so the created queue reports a different class / priority (radices %s)" % (nrel, nrel, rad_to),
                sample={"relpri_values": nrel, "radices": rad_to})
    rep.require(rid, (k["DISPATCH_QOS_MAX"] + 1) in rad_to, to.file, to.name, "no-digit-for-qos",
                "the attribute index has no digit of radix DISPATCH_QOS_MAX+1 = %d (radices %s)" % (k["DISPATCH_QOS_MAX"] + 1, rad_to), sample={"qos_values": k["DISPATCH_QOS_MAX"] + 1})


DOC_IDS = [
    # identifier expression, documented class (qos_class name)
    ("DISPATCH_QUEUE_PRIORITY_HIGH", "USER_INITIATED"), ("DISPATCH_QUEUE_PRIORITY_DEFAULT", "DEFAULT"),
    ("DISPATCH_QUEUE_PRIORITY_LOW", "UTILITY"), ("DISPATCH_QUEUE_PRIORITY_BACKGROUND", "BACKGROUND"),
    ("DISPATCH_QUEUE_PRIORITY_NON_INTERACTIVE", "UTILITY"),     # private header (queue_private.h)
    ("QOS_CLASS_USER_INTERACTIVE", "USER_INTERACTIVE"), ("QOS_CLASS_USER_INITIATED", "USER_INITIATED"), ("QOS_CLASS_DEFAULT", "DEFAULT"),
    ("QOS_CLASS_UTILITY", "UTILITY"), ("QOS_CLASS_BACKGROUND", "BACKGROUND"), ("QOS_CLASS_MAINTENANCE", "MAINTENANCE"),
]


def rule_TB3(rep, srcdir):
    rid = rep.rule("C18-TB3", "dispatch_get_global_queue: every documented priority / QoS identifier reaches the root queue of its documented class (clamped to the "
                   "classes this platform supports), equal classes the same queue, OVERCOMMIT selects the overcommit twin, any other flag bit and any "
                   "unlisted identifier yields NULL; _dispatch_root_queues[i] carries class i/2+1 and overcommit i&1", floor=20)
    facts = build.facts_for(["init"], mode="all", srcdir=srcdir)
    prog = ir.Program(facts)
    fn = prog.fn("dispatch_get_global_queue")
    rep.saw(fn)
    names = [n for n, _ in DOC_IDS] + ["DISPATCH_QOS_" + c for c in ("MAINTENANCE", "BACKGROUND", "UTILITY", "DEFAULT", "USER_INITIATED", "USER_INTERACTIVE")] + \
            ["DISPATCH_QUEUE_OVERCOMMIT", "HAVE_PTHREAD_WORKQUEUE_QOS", "DISPATCH_PRIORITY_QOS_MASK", "DISPATCH_PRIORITY_QOS_SHIFT",
             "DISPATCH_PRIORITY_FALLBACK_QOS_MASK", "DISPATCH_PRIORITY_FALLBACK_QOS_SHIFT", "DISPATCH_PRIORITY_FLAG_OVERCOMMIT"]
    k = consts.get(names, srcdir=srcdir, unit="init")
    OC = k["DISPATCH_QUEUE_OVERCOMMIT"]
    tbl = prog.global_("_dispatch_root_queues")
    es = tbl["esize"]
    clamp = {}
    if not k["HAVE_PTHREAD_WORKQUEUE_QOS"]:
        clamp = {"USER_INTERACTIVE": "USER_INITIATED", "MAINTENANCE": "BACKGROUND"}
    results = {}
    for ident, cls in DOC_IDS:
        want_cls = clamp.get(cls, cls)
        qos = k["DISPATCH_QOS_" + want_cls]
        for oc in (0, OC):
            outs = sccp.SCCP(prog, fn, {0: ("c", k[ident], 64), 1: ("c", oc, 64)}).run()
            vals = {v for v, p in outs}
            want = ("g", "_dispatch_root_queues", (2 * (qos - 1) + (1 if oc else 0)) * es)
            got = sorted(vals, key=str)
            def label(v):
                if v and v[0] == "g":
                    return "_dispatch_root_queues[%d]" % (v[2] // es)
                return "NULL" if v == ("c", 0, 64) else str(v)
            rep.require(rid, vals == {want}, fn.file + ":" + str(fn.d.get("line")), fn.name, "global-queue-mapping:%s:%s" % (ident, "overcommit" if oc else "plain"),
                        "dispatch_get_global_queue(%s, %s) yields %s but the documented class %s%s is %s" % (ident, "DISPATCH_QUEUE_OVERCOMMIT" if oc else "0",
                        [label(v) for v in got], cls, (" (clamped to %s on this platform)" % want_cls) if want_cls != cls else "", label(want)),
                        sample={"id": ident, "flags": oc, "queue": label(want)})
            results[(ident, oc)] = vals
    # undefined flags: every single other bit -> NULL (for a defined identifier)
    bad_bits = []
    for b in range(64):
        if (1 << b) == OC:
            continue
        for extra in (0, OC):
            outs = sccp.SCCP(prog, fn, {0: ("c", k["QOS_CLASS_DEFAULT"], 64), 1: ("c", (1 << b) | extra, 64)}).run()
            if {v for v, p in outs} != {("c", 0, 64)}:
                bad_bits.append(b)
    rep.require(rid, not bad_bits, fn.file, fn.name, "undefined-flag-bits-accepted",
                "dispatch_get_global_queue returns a queue although undefined flag bit(s) %s are set (only DISPATCH_QUEUE_OVERCOMMIT is defined)" % sorted(set(bad_bits)),
                sample={"flag_bits_checked": 63, "rejected": 63 - len(set(bad_bits))})
    # unlisted identifiers: TOP identifier minus the listed switch cases cannot be enumerated; check the structural fact instead:
    # the number of identifier values that can reach a non-NULL return equals the number of documented identifiers.
    sws = [i for i in fn.all_insts() if i.op == "switch"]
    accepted = 0
    for s_ in sws:
        for cv, tgt in s_.d["cases"]:
            accepted += 1
    # cases mapping to UNSPECIFIED (e.g. QOS_CLASS_UNSPECIFIED) still return NULL; count by propagating each case constant
    nonnull = 0
    first = sws[0] if sws else None
    cand = set()
    if first is not None:
        cand |= {cv for cv, _ in first.d["cases"]}
    cand |= {k[n] for n, _ in DOC_IDS}
    for s_ in sws[1:]:
        # preimage under the rotate idiom ror32(x - c, r): recognised structurally
        x = fn.inst(s_.ops[0])
        if x is not None and x.op == "or":
            a, b = fn.inst(x.ops[0]), fn.inst(x.ops[1])
            if a is not None and b is not None and {a.op, b.op} == {"lshr", "shl"}:
                lsh = a if a.op == "lshr" else b
                shl = b if a.op == "lshr" else a
                r = lsh.ops[1][1]
                if shl.ops[1][1] == 32 - r and lsh.ops[0] == shl.ops[0]:
                    sub = fn.inst(lsh.ops[0])
                    if sub is not None and sub.op == "sub" and sub.ops[1][0] == "c":
                        for cv, _ in s_.d["cases"]:
                            pre = (((cv << r) | (cv >> (32 - r))) & 0xffffffff) + sub.ops[1][1]
                            cand.add(pre & 0xffffffff)
    for cv in sorted(cand):
        outs = sccp.SCCP(prog, fn, {0: ("c", cv, 64), 1: ("c", 0, 64)}).run()
        if {v for v, p in outs} != {("c", 0, 64)}:
            nonnull += 1
    rep.require(rid, nonnull == len(DOC_IDS), fn.file, fn.name, "accepted-identifier-count",
                "dispatch_get_global_queue accepts %d distinct identifier constants but %d are documented" % (nonnull, len(DOC_IDS)),
                sample={"accepted_constants": nonnull, "documented": len(DOC_IDS)})
    # identifiers that agree with a documented QoS class only in their low 32 bits are undefined identifiers
    aliased = []
    for ident, cls in DOC_IDS:
        if not ident.startswith("QOS_CLASS_"):
            continue
        outs = sccp.SCCP(prog, fn, {0: ("c", k[ident] | (1 << 32), 64), 1: ("c", 0, 64)}).run()
        if {v for v, p in outs} != {("c", 0, 64)}:
            aliased.append(ident)
    rep.require(rid, not aliased, fn.file, fn.name, "identifier-truncated-to-32-bits",
                "dispatch_get_global_queue(<%s> + 2^32, 0) returns a queue: the intptr_t identifier is truncated to 32 bits before it is classified, so "
                "undefined identifiers that alias a QoS class in their low half are accepted instead of yielding NULL" % "/".join(aliased),
                sample={"aliases_checked": len([1 for i, c in DOC_IDS if i.startswith("QOS_CLASS_")])})
    # the table itself
    ents = tbl["init"]
    pos = None
    if len(ents) >= 2:
        for j in range(len(ents[0])):
            a, b = ents[0][j], ents[1][j]
            if isinstance(a, int) and isinstance(b, int) and (a ^ b) == k["DISPATCH_PRIORITY_FLAG_OVERCOMMIT"]:
                pos = j
    if pos is None:
        rep.unknown(rid, "cannot locate dq_priority in the _dispatch_root_queues initialiser")
    else:
        for i, e in enumerate(ents):
            v = e[pos]
            q1 = (v & k["DISPATCH_PRIORITY_QOS_MASK"]) >> k["DISPATCH_PRIORITY_QOS_SHIFT"]
            q2 = (v & k["DISPATCH_PRIORITY_FALLBACK_QOS_MASK"]) >> k["DISPATCH_PRIORITY_FALLBACK_QOS_SHIFT"]
            oc = bool(v & k["DISPATCH_PRIORITY_FLAG_OVERCOMMIT"])
            rep.require(rid, (q1 or q2) == i // 2 + 1 and oc == bool(i & 1), "src/init.c", "_dispatch_root_queues", "root-queue-table-entry:%d" % i,
                        "_dispatch_root_queues[%d] has qos %d / overcommit %s, expected qos %d / overcommit %s" % (i, q1 or q2, oc, i // 2 + 1, bool(i & 1)),
                        sample={"index": i, "qos": q1 or q2, "overcommit": oc})
    # the flag mask itself covers all 64 bits
    ands = [i for i in fn.all_insts() if i.op == "and" and i.ops[0] == ["a", 1] and i.ops[1][0] == "c"]
    full = [a for a in ands if a.ops[1][1] == ((1 << 64) - 1) & ~OC]
    rep.require(rid, bool(full), fn.file, fn.name, "flag-mask-width", "the undefined-flags test must mask with ~DISPATCH_QUEUE_OVERCOMMIT over all 64 bits (found %s)"
                % [hex(a.ops[1][1]) for a in ands], sample={"mask": [hex(a.ops[1][1]) for a in ands]})


def rule_MP4(rep, prog):
    rid = rep.rule("C18-MP4", "thread frames: every function that pushes a thread frame pops it on every path; dispatch_apply helper threads run through the "
                   "redirect invoke that pushes the submitting queue's frame; dispatch_get_specific walks current -> do_targetq and stops at the first value", floor=6)
    n = 0
    for fn in prog.all_functions():
        push = calls_named(fn, "_dispatch_thread_frame_push")
        if not push:
            continue
        pop = calls_named(fn, "_dispatch_thread_frame_pop")
        n += 1
        rep.saw(fn)
        ok = bool(pop)
        for p in push:
            res = paths.walk(fn, p, lambda i: False, avoid=lambda i: i in pop, ctx=paths.dom_ctx(fn, p), bound=100000)
            if [r for r in res if r[0] == "exit"]:
                ok = False
        rep.require(rid, ok, push[0].loc, fn.name, "frame-push-without-pop:%s" % fn.name,
                    "%s pushes a thread frame but can return without popping it: the current-queue identity of everything that runs later on this thread is wrong" % fn.name,
                    sample={"fn": fn.name, "push": len(push), "pop": len(pop)})
    if n < 4:
        rep.unknown(rid, "fewer than 4 functions push a thread frame (%d)" % n)
    fn = prog.fn("_dispatch_apply_redirect")
    rep.saw(fn)
    af = calls_named(fn, "_dispatch_apply_f")
    ok = bool(af) and all(any(o[0] == "f" and o[1] == "_dispatch_apply_redirect_invoke" for o in c.ops) for c in af)
    rep.require(rid, ok, af[0].loc if af else fn.file, fn.name, "apply-helpers-without-queue-frame",
                "_dispatch_apply_redirect starts its helper continuations with %s instead of _dispatch_apply_redirect_invoke: helper threads run the iterations "
                "without the submitting queue's thread frame, so dispatch_get_specific / dispatch_assert_queue fail there"
                % [o[1] for c in af for o in c.ops if o[0] == "f"], sample={"helper_fn": "_dispatch_apply_redirect_invoke"})
    fr = prog.fn("_dispatch_apply_redirect_invoke")
    inv = prog.fn("_dispatch_apply_invoke2")
    rep.saw(inv)
    cs = calls_named(fr, "_dispatch_apply_invoke2")
    flag = arg_const(fr, cs[0], 1) if cs else None
    push = calls_named(inv, "_dispatch_thread_frame_push")
    okf = bool(flag) and bool(push)
    for p in push:
        cx = paths.dom_ctx(inv, p)
        good = False
        for iid, tv in cx.truth.items():
            ii = inv.insts[iid]
            if ii.op == "icmp" and ii.d["pred"] in ("ne", "eq") and tv == (ii.d["pred"] == "ne"):
                a = inv.inst(ii.ops[0])
                if a is not None and a.op == "and" and a.ops[1][0] == "c" and flag and (a.ops[1][1] & flag):
                    good = True
        okf = okf and good
    rep.require(rid, okf, inv.file, inv.name, "redirect-flag-frame", "_dispatch_apply_invoke2 must push the queue's thread frame exactly under the REDIRECT flag "
                "passed by _dispatch_apply_redirect_invoke (flag %s)" % flag, sample={"flag": flag, "pushes": len(push)})
    fn = prog.fn("dispatch_get_specific")
    rep.saw(fn)
    gs = calls_named(fn, "_dispatch_queue_get_specific_inline")
    tq = [i for i in fn.all_insts() if i.op == "load" and "do_targetq" in prog.fields(i)]
    cur = calls_named(fn, "_dispatch_queue_get_current")
    ok = bool(gs) and bool(tq) and bool(cur)
    if ok:
        # the queue passed to the lookup is the loop phi fed by get_current and the do_targetq load of itself
        a0 = fn.inst(gs[0].ops[0])
        ok = a0 is not None and a0.op == "phi" and {tuple(v[:2]) for v, _ in a0.ops} <= ({("i", c.id) for c in cur} | {("i", t.id) for t in tq}) and \
            all(root_ptr(fn, t.d["ptr"]["base"]) == ("i", a0.id) for t in tq)
    rep.require(rid, ok, fn.file, fn.name, "get-specific-walk", "dispatch_get_specific must look the key up on the current queue and then along do_targetq", sample={"lookups": len(gs)})


def rule_OD5(rep, prog):
    rid = rep.rule("C18-OD5", "a dispatch_sync / async_and_wait item that ends up executed by the thread a bottom queue is bound to runs with the queue it was "
                   "SUBMITTED to as current queue: every sync context whose invoke function is _dispatch_async_and_wait_invoke records the function's top queue "
                   "(first parameter) in dc_other, and the invoke pushes exactly that value as the thread frame's queue", floor=4)
    n = 0
    for fn in prog.all_functions():
        fstores = [st for st in fn.all_insts() if st.op == "store" and st.ops[0][0] == "f" and st.ops[0][1] == "_dispatch_async_and_wait_invoke"
                   and "dc_func" in prog.fields(st)]
        for fs in fstores:
            ctxroot = root_of(fn, fs.d["ptr"]["base"])
            others = [st for st in fn.all_insts() if st.op == "store" and "dc_other" in prog.fields(st) and root_of(fn, st.d["ptr"]["base"]) == ctxroot
                      and fn.dominates(st, fs) or (st.op == "store" and "dc_other" in prog.fields(st) and root_of(fn, st.d["ptr"]["base"]) == ctxroot and st.block is fs.block)]
            n += 1
            rep.saw(fn)
            ok = bool(others) and all(root_of(fn, st.ops[0]) == ("a", 0) for st in others)
            rep.require(rid, ok, fs.loc, fn.name, "sync-context-records-wrong-queue:%s" % fn.name,
                        "%s builds a sync waiter context whose dc_other is not the queue the item was submitted to (its first parameter): when the item is run by "
                        "the thread a bottom queue is bound to, that value becomes the current queue, so dispatch_get_specific / the queue label / "
                        "dispatch_assert_queue inside the block see the wrong queue" % fn.name, sample={"fn": fn.name, "dc_other_stores": len(others)})
    fn = prog.fn("_dispatch_async_and_wait_invoke")
    rep.saw(fn)
    push = calls_named(fn, ("_dispatch_thread_frame_push_and_rebase", "_dispatch_thread_frame_push"))
    okp = bool(push)
    for c in push:
        v = fn.inst(c.ops[1])
        while v is not None and v.op == "bitcast":
            v = fn.inst(v.ops[0])
        okp = okp and v is not None and v.op == "load" and "dc_other" in prog.fields(v)
    rep.require(rid, okp, fn.file, fn.name, "invoke-pushes-other-queue",
                "_dispatch_async_and_wait_invoke must install the context's dc_other (the submitted-to queue) as the frame's queue", sample={"pushes": len(push)})
    if n < 3:
        rep.unknown(rid, "fewer than 3 sync-context constructors found (%d)" % n)
    # the thread that ends up running a parked dispatch_sync item rebases its frames onto the frame linkage saved in the waiter's context: that linkage is
    # saved on EVERY path before the context is pushed - the queue being waited on need not be the thread-bound one, the bottom of its hierarchy may be
    fn = prog.fn("__DISPATCH_WAIT_FOR_QUEUE__")
    rep.saw(fn)
    push = icalls_slot(prog, fn, "dq_push")
    save = calls_named(fn, "_dispatch_thread_frame_save_state") + [st for st in fn.all_insts() if st.op == "store" and "dsc_dtf" in prog.fields(st)]
    if not push:
        rep.unknown(rid, "anchor vanished: __DISPATCH_WAIT_FOR_QUEUE__ does not push the waiter")
    else:
        from .sync_common import entry_point
        bare = [r for r in paths.walk(fn, entry_point(fn), lambda i: i in push, avoid=lambda i: i in save) if r[0] == "hit"]
        rep.require(rid, not bare and bool(save), push[0].loc, fn.name, "waiter-pushed-without-frame-linkage",
                    "__DISPATCH_WAIT_FOR_QUEUE__ can push the sync waiter without having saved the caller's thread-frame linkage in dsc_dtf (path %s): when the item is "
                    "later run by the thread a bottom queue is bound to (main / run-loop queue under an ordinary serial queue), that thread rebases onto a zeroed "
                    "linkage and the submitting context disappears - dispatch_assert_queue on the submitting queue traps, dispatch_assert_queue_not passes"
                    % (bare[0][3] if bare else None), sample={"saves": len(save)})

    # dispatch_async_and_wait run by the CALLING thread (it locked the whole hierarchy itself): the item runs as an item of the queue it was submitted to
    fn = prog.fn("_dispatch_async_and_wait_invoke_and_complete_recurse")
    rep.saw(fn)
    pushes = calls_named(fn, ("_dispatch_thread_frame_push", "_dispatch_thread_frame_push_and_rebase"))
    rep.require(rid, bool(pushes) and all(tuple(root_of(fn, c.ops[1])[:2]) == ("a", 0) for c in pushes), (pushes[0].loc if pushes else fn.file), fn.name,
                "and-wait-runs-as-bottom-queue",
                "_dispatch_async_and_wait_invoke_and_complete_recurse pushes a frame for a queue other than the one the item was submitted to (its first parameter): with a "
                "hierarchy of two or more levels dispatch_get_specific misses the keys of the submitted-to and intermediate queues, the current-queue label names the bottom "
                "queue and dispatch_assert_queue(top) traps", sample={"pushes": len(pushes)})
    # the main queue serviced from a run-loop callout hides whatever frames the callout happens to be nested in: its drain frame is pushed with the
    # linkage cut (rebased onto NULL), so items of the main queue never see the queues of an enclosing dispatch_sync as their own hierarchy
    fn = prog.fn("_dispatch_main_queue_drain")
    rep.saw(fn)
    pushes = calls_named(fn, ("_dispatch_thread_frame_push_and_rebase", "_dispatch_thread_frame_push"))
    cut = [c for c in pushes if c.callee == "_dispatch_thread_frame_push_and_rebase" and len(c.ops) >= 3 and (c.ops[2][0] == "n" or (c.ops[2][0] == "c" and c.ops[2][1] == 0))]
    rep.require(rid, bool(pushes) and len(cut) == len(pushes), (pushes[0].loc if pushes else fn.file), fn.name, "main-drain-frame-chained",
                "_dispatch_main_queue_drain pushes its frame chained to the frames already on the thread instead of rebasing onto an empty linkage: when the run loop "
                "services the main queue from inside a dispatch_sync block, items of the main queue see the enclosing queues in their hierarchy - "
                "dispatch_assert_queue_not(outer) traps and dispatch_assert_queue(outer) passes inside a main-queue item", sample={"pushes": len(pushes), "cut": len(cut)})


def rule_MP12(rep, prog):
    rid = rep.rule("C18-MP12", "dispatch_assert_queue_not(q) passes only after BOTH ways of being on q were ruled out: every path to its return has found the drain lock "
                   "not held by the calling thread AND searched the thread's frames for q (concurrent and global queues are entered without the drain lock, so the "
                   "lock test alone says nothing about them)", floor=1)
    fn = prog.fn("dispatch_assert_queue_not")
    rep.saw(fn)
    find = calls_named(fn, "_dispatch_thread_frame_find_queue")
    lock = calls_named(fn, "_dq_state_drain_locked_by_self")
    rets = [i for i in fn.all_insts() if i.op == "ret"]
    first = next(iter(fn.all_insts()))
    if not find or not rets:
        rep.unknown(rid, "dispatch_assert_queue_not: frame search / return not found")
        return
    bare = [r for r in rets if fn.inst_reaches(first, r, avoid_insts=find)]
    rep.require(rid, not bare, (bare[0].loc if bare else find[0].loc), fn.name, "assert-queue-not-passes-without-frame-search",
                "dispatch_assert_queue_not can return (accept) without having searched the calling thread's frames for the queue: a queue that is in the current "
                "hierarchy but not drain-locked by this thread - a concurrent queue running the item, a global queue, a queue entered as a dispatch_sync reader - is "
                "silently accepted", sample={"returns": len(rets)})
    if lock:
        bare2 = [r for r in rets if fn.inst_reaches(first, r, avoid_insts=lock)]
        rep.require(rid, not bare2, lock[0].loc, fn.name, "assert-queue-not-passes-without-lock-test",
                    "dispatch_assert_queue_not can accept without having tested the drain lock owner")


def rule_AI13(rep, prog, srcdir):
    rid = rep.rule("C18-AI13", "every documented QoS class is a valid argument of dispatch_queue_attr_make_with_qos_class: evaluated for each QOS_CLASS_* constant "
                   "(UNSPECIFIED included - it is how an attribute's class is reset) with relative priority 0, the function goes on to rebuild the attribute instead "
                   "of returning its input unchanged", floor=7)
    k = consts.get(["QOS_CLASS_USER_INTERACTIVE", "QOS_CLASS_USER_INITIATED", "QOS_CLASS_DEFAULT", "QOS_CLASS_UTILITY", "QOS_CLASS_BACKGROUND", "QOS_CLASS_MAINTENANCE",
                    "QOS_CLASS_UNSPECIFIED"], srcdir=srcdir)
    fn = prog.fn("dispatch_queue_attr_make_with_qos_class")
    rep.saw(fn)
    rebuild = calls_named(fn, ("_dispatch_queue_attr_to_info", "_dispatch_queue_attr_from_info"))
    if not rebuild:
        rep.unknown(rid, "dispatch_queue_attr_make_with_qos_class: attribute rebuild not found")
        return
    for name, v in sorted(k.items()):
        hit, _e = concrete_walk(fn, {("a", 1): v, ("a", 2): 0}, lambda i: i in rebuild)
        rep.require(rid, hit is not None, fn.file + ":" + str(fn.d.get("line")), fn.name, "qos-class-rejected:%s" % name,
                    "dispatch_queue_attr_make_with_qos_class(attr, %s, 0) returns its input unchanged (the class is treated as invalid): an attribute that already carries "
                    "a class cannot be reset, it keeps the old class and relative priority - the result depends on earlier constructor calls" % name,
                    sample={"class": name, "value": v})


def rule_MP14(rep, prog):
    rid = rep.rule("C18-MP14", "a synchronously submitted function runs with the queue it was submitted to as the current queue: wherever the library calls a client "
                   "function that it received as its OWN parameter (the *_f entry points and their helpers), a thread-frame push for the queue dominates the call - "
                   "the root-queue shortcut of dispatch_async_and_wait_f included - so that dispatch_get_specific / dispatch_assert_queue inside the item see that queue",
                   floor=1)
    n = 0
    for fn in sorted(prog.all_functions(), key=lambda f: f.name):
        for c in calls_named(fn, "_dispatch_client_callout"):
            if not (len(c.ops) >= 2 and c.ops[0][0] == "a" and c.ops[1][0] == "a"):
                continue
            if not any(("dispatch_queue_s" in str(t_) or "dispatch_lane_s" in str(t_) or "dispatch_queue_global_s" in str(t_)) for _n, t_ in fn.params):
                continue      # not a queue submission path (dispatch_once, apply helpers ...)
            n += 1
            rep.saw(fn)
            pushes = [p_ for p_ in fn.all_insts() if p_.op == "call" and p_.callee and "thread_frame_push" in p_.callee]
            rep.require(rid, any(fn.dominates(p_, c) for p_ in pushes), c.loc, fn.name, "client-function-called-without-queue-frame:%s" % fn.name,
                        "%s calls the client function it was given without having pushed a thread frame for the queue: inside the item the current queue is the "
                        "caller's - dispatch_assert_queue(q) on the queue it was submitted to traps, dispatch_get_specific returns the caller's values" % fn.name,
                        sample={"site": c.loc})
    if n < 1:
        rep.unknown(rid, "no direct call of a parameter function found")


def rule_OD15(rep, prog):
    rid = rep.rule("C18-OD15", "the attribute decoder indexes with the pointer it ended up accepting: when _dispatch_queue_attr_to_info redirects a copy-relocated "
                   "_dispatch_queue_attr_concurrent (outside the table, equal to entry 0) to the table, the table index is computed from the redirected pointer - an "
                   "index computed before the redirection decodes DISPATCH_QUEUE_CONCURRENT as an arbitrary attribute", floor=1)
    fn = prog.fn("_dispatch_queue_attr_to_info")
    rep.saw(fn)
    fix = calls_named(fn, "memcmp")
    idx = []
    for pi in fn.all_insts():
        if pi.op != "ptrtoint":
            continue
        if any(u.op == "sub" for u in fn.users(pi)):
            idx.append(pi)
    if not idx:
        rep.unknown(rid, "_dispatch_queue_attr_to_info: table index computation (pointer difference) not found")
        return
    for pi in idx:
        P = fn.inst(pi.ops[0])
        from_param_only = tuple(pi.ops[0][:2]) == ("a", 0)
        merges_table = P is not None and P.op == "phi" and any(v[0] == "g" for v, frm in P.ops)
        ok = (not fix) or merges_table or not from_param_only
        rep.require(rid, ok, pi.loc, fn.name, "attribute-index-from-unredirected-pointer",
                    "_dispatch_queue_attr_to_info computes the table index from the attribute pointer as passed in although it can redirect that pointer afterwards (the "
                    "copy-relocated concurrent attribute of a non-PIE client): the decoder then runs on an out-of-table index", sample={"site": pi.loc, "fixup": len(fix)})


def rule_TB16(rep, prog):
    rid = rep.rule("C18-TB16", "every digit of the attribute index fits the field that carries it: in _dispatch_queue_attr_to_info a digit taken modulo R is stored through a "
                   "bit-field mask of at least R values, and the negated digit (the relative priority, 0 .. -(R-1)) through a signed field of at least 2R values - a "
                   "narrower carrier wraps relative priorities -9 .. -15 to positive values and the encoder then indexes another row of the table", floor=5)
    fn = prog.fn("_dispatch_queue_attr_to_info")
    rep.saw(fn)
    n = 0
    for a in fn.all_insts():
        if a.op != "and" or a.ops[1][0] != "c":
            continue
        M = a.ops[1][1]
        if M & (M + 1):
            continue                      # not a low-bits mask
        v = fn.inst(a.ops[0])
        neg = False
        seen = 0
        while v is not None and v.op in ("trunc", "zext", "sext", "sub", "xor", "icmp") and seen < 6:
            seen += 1
            if v.op == "sub":
                if not (v.ops[0][0] == "c" and v.ops[0][1] == 0):
                    break
                neg = True
                v = fn.inst(v.ops[1])
            elif v.op in ("xor", "icmp"):
                v = fn.inst(v.ops[0])
            else:
                v = fn.inst(v.ops[0])
        if v is None or v.op != "urem" or v.ops[1][0] != "c":
            continue
        R = v.ops[1][1]
        n += 1
        need = 2 * R if neg else R
        rep.require(rid, M + 1 >= need, a.loc, fn.name, "attribute-digit-truncated:%d" % R,
                    "_dispatch_queue_attr_to_info stores a %sdigit of radix %d through a %d-valued field: values beyond the field wrap, the decoded attribute info differs "
                    "from what the index denotes and _dispatch_queue_attr_from_info maps it to a different table row (wrong QoS class / relative priority reported, "
                    "depending on the order of the attribute constructors)" % ("negated " if neg else "", R, M + 1), sample={"radix": R, "field_values": M + 1, "signed": neg})
    if n < 5:
        rep.unknown(rid, "fewer than 5 digit-to-field stores recognised in the attribute decoder (%d)" % n)


def rule_TB9(rep, prog, srcdir):
    rid = rep.rule("C18-TB9", "which queues carry queue-specific data is a fixed property of the queue's TYPE: _dispatch_queue_admits_specific is a function of do_type "
                   "alone and admits serial / concurrent queues, the main queue and workloops, and no manager or run-loop queue - it gives the same answer before "
                   "and after dispatch_main() (which un-binds the main queue from its thread)", floor=8)
    names = {"DISPATCH_QUEUE_SERIAL_TYPE": True, "DISPATCH_QUEUE_CONCURRENT_TYPE": True, "DISPATCH_QUEUE_MAIN_TYPE": True, "DISPATCH_WORKLOOP_TYPE": True,
             "DISPATCH_QUEUE_MGR_TYPE": False, "DISPATCH_QUEUE_RUNLOOP_TYPE": False, "DISPATCH_SOURCE_KEVENT_TYPE": False,
             # root queues: determined by the type as well; which way is not part of the property (the library accepts them)
             "DISPATCH_QUEUE_GLOBAL_ROOT_TYPE": None, "DISPATCH_QUEUE_PTHREAD_ROOT_TYPE": None}
    k = consts.get(list(names), srcdir=srcdir, unit="queue")
    fn = prog.fn("_dispatch_queue_admits_specific")
    rep.saw(fn)
    tl = [l for l in fn.all_insts() if l.op == "load" and "do_type" in prog.fields(l)]
    if not tl:
        rep.unknown(rid, "anchor vanished: _dispatch_queue_admits_specific does not read do_type")
        return
    for nm, want in sorted(names.items()):
        env = {l.id: k[nm] for l in tl}
        r, env = concrete_walk(fn, env, lambda i: i.op == "ret")
        v = ceval(fn, r.ops[0], {k_: v_ for k_, v_ in env.items() if not isinstance(v_, tuple)}) if r is not None and r.ops else None
        rep.require(rid, v is not None and (want is None or bool(v) == want), fn.file + ":" + str(fn.d.get("line")), fn.name, "admits-specific:%s" % nm,
                    "_dispatch_queue_admits_specific for a queue of type %s (%#x) %s, expected %s: %s"
                    % (nm, k[nm], "is not determined by the type (it consults mutable state such as DQF_THREAD_BOUND, which dispatch_main() clears: values set on the "
                       "main queue stop being reported by dispatch_get_specific afterwards)" if v is None else "evaluates to %s" % bool(v), want,
                       "queue-specific data is supported on serial, concurrent, main and workloop queues only"), sample={"type": nm, "admits": want})


def rule_TB10(rep, prog, srcdir):
    rid = rep.rule("C18-TB10", "activation keeps what the attribute requested: the priority normalisation in _dispatch_lane_activate may drop the FALLBACK QoS and its "
                   "flag, but the requested QoS class and relative priority (DISPATCH_PRIORITY_REQUESTED_MASK) of an initially-inactive queue come out unchanged", floor=6)
    k = consts.get(["DISPATCH_PRIORITY_REQUESTED_MASK", "DISPATCH_PRIORITY_QOS_MASK", "DISPATCH_PRIORITY_RELPRI_MASK", "DISPATCH_PRIORITY_FALLBACK_QOS_MASK",
                    "DISPATCH_PRIORITY_FLAG_FALLBACK", "DISPATCH_PRIORITY_FLAG_FLOOR", "DISPATCH_PRIORITY_FLAG_OVERCOMMIT"], srcdir=srcdir, unit="queue")
    RQ = k["DISPATCH_PRIORITY_REQUESTED_MASK"]
    fn = prog.fn("_dispatch_lane_activate")
    rep.saw(fn)
    lds = [l for l in fn.all_insts() if l.op == "load" and "dq_priority" in prog.fields(l)]
    sts = [st for st in fn.all_insts() if st.op == "store" and "dq_priority" in prog.fields(st)]
    if not lds or not sts:
        rep.unknown(rid, "anchor vanished in _dispatch_lane_activate (dq_priority loads=%d stores=%d)" % (len(lds), len(sts)))
        return
    qsh = (k["DISPATCH_PRIORITY_QOS_MASK"] & -k["DISPATCH_PRIORITY_QOS_MASK"]).bit_length() - 1
    fsh = (k["DISPATCH_PRIORITY_FALLBACK_QOS_MASK"] & -k["DISPATCH_PRIORITY_FALLBACK_QOS_MASK"]).bit_length() - 1
    for qos in (0, 2, 5):
        for relpri in (0xff, 0xf1, 0xfc):
            for fb in (0, 4):
                P = (qos << qsh) | (relpri if qos else 0) | (fb << fsh) | (k["DISPATCH_PRIORITY_FLAG_FALLBACK"] if fb else 0) | k["DISPATCH_PRIORITY_FLAG_OVERCOMMIT"]
                env = {l.id: P for l in lds}
                final = [P]
                def rec(i, env=env, final=final):
                    if i in sts:
                        final.append(ceval(fn, i.ops[0], {k_: v_ for k_, v_ in env.items() if not isinstance(v_, tuple)}))
                    return i.op == "call" and i.callee == "_dispatch_queue_priority_inherit_from_target"
                concrete_walk(fn, env, rec)
                v = final[-1]
                rep.require(rid, v is not None and (v & RQ) == (P & RQ) and (v & k["DISPATCH_PRIORITY_FLAG_OVERCOMMIT"]), sts[0].loc, fn.name,
                            "activation-changes-requested-priority:%d:%#x:%d" % (qos, relpri, fb),
                            "_dispatch_lane_activate turns dq_priority %#x into %s: the requested QoS class / relative priority bits (%#x) must survive the normalisation "
                            "- a queue created inactive with (class, relpri) reports a different relative priority after dispatch_activate than the attribute denotes"
                            % (P, hex(v) if v is not None else "?", RQ), sample={"priority": hex(P), "after": hex(v) if v is not None else None})


def rule_MP11(rep, prog):
    rid = rep.rule("C18-MP11", "walking the chain of current queues (dispatch_assert_queue / _not): a step from a queue to its TARGET consumes the thread frame only when "
                   "the walk stands at that frame's own queue - a frame pushed by dispatch_sync records the submitting context's queue and is reached later, after "
                   "the target chain of the queue the block runs on; the remote dispatch_async_and_wait invoke rebases the frames onto the linkage the waiter saved", floor=2)
    fn = prog.fn("_dispatch_thread_frame_iterate_next")
    rep.saw(fn)
    fstores = [st for st in fn.all_insts() if st.op == "store" and "dtfi_frame" in prog.fields(st)]
    qstores = [st for st in fn.all_insts() if st.op == "store" and "dtfi_queue" in prog.fields(st)]
    if not fstores or not qstores:
        rep.unknown(rid, "anchor vanished in _dispatch_thread_frame_iterate_next (frame stores=%d, queue stores=%d)" % (len(fstores), len(qstores)))
    def is_target_step(st):
        v = fn.inst(st.ops[0])
        return v is not None and v.op == "load" and "do_targetq" in prog.fields(v)
    n = 0
    for st in fstores:
        hops = [q_ for q_ in qstores if is_target_step(q_) and (fn.dominates(q_, st) or q_.block is st.block)]
        if not hops:
            continue
        n += 1
        cx = paths.dom_ctx(fn, st)
        ok = False
        for cid, tv in cx.truth.items():
            t = fn.insts[cid]
            if t.op == "icmp" and t.d["pred"] in ("eq", "ne") and tv == (t.d["pred"] == "eq"):
                a, b = fn.inst(t.ops[0]), fn.inst(t.ops[1])
                if a is not None and b is not None and a.op == "load" and b.op == "load" and \
                   ({"dtfi_queue"} & (prog.fields(a) | prog.fields(b))) and any(x.d["ptr"]["base"][0] == "i" and fn.inst(x.d["ptr"]["base"]) is not None
                                                                               and "dtfi_frame" in prog.fields(fn.inst(x.d["ptr"]["base"])) for x in (a, b)):
                    ok = True
        rep.require(rid, ok, st.loc, fn.name, "frame-consumed-on-foreign-hop",
                    "_dispatch_thread_frame_iterate_next pops the thread frame on a step to the target queue without having found the current queue equal to that "
                    "frame's queue: the frame dispatch_sync pushed for the submitting context is thrown away on the first hop, so inside a dispatch_sync block "
                    "dispatch_assert_queue(<submitting queue>) traps and dispatch_assert_queue_not accepts it", sample={"store": st.loc})
    if fstores and n < 1:
        rep.unknown(rid, "no frame store on a target-queue step found in _dispatch_thread_frame_iterate_next")
    f2 = prog.fn("_dispatch_async_and_wait_invoke")
    rep.saw(f2)
    push = [c for c in f2.all_insts() if c.op == "call" and c.callee and c.callee.startswith("_dispatch_thread_frame_push")]
    okp = bool(push)
    for c in push:
        third = f2.inst(c.ops[2]) if len(c.ops) > 2 else None
        okp = okp and c.callee == "_dispatch_thread_frame_push_and_rebase" and third is not None and "dsc_dtf" in prog.fields(third)
    rep.require(rid, okp, push[0].loc if push else f2.file, f2.name, "remote-invoke-without-rebase",
                "_dispatch_async_and_wait_invoke must push its frame with _dispatch_thread_frame_push_and_rebase onto the context's saved linkage (dsc_dtf): a block "
                "run remotely by the queue's drainer otherwise no longer sees the submitting context - dispatch_assert_queue on the queue whose item called "
                "dispatch_async_and_wait traps", sample={"pushes": len(push)})


def root_of(fn, op):
    from .C03 import root_ptr
    return root_ptr(fn, op)


def rule_WM6(rep, prog):
    rid = rep.rule("C18-WM6", "queue-specific storage is created once: dq_specific_head is written only by a compare-exchange from NULL (release; the loser disposes its "
                   "copy) or by the queue's destructor, so concurrent first dispatch_queue_set_specific calls never replace a head that already holds keys", floor=1)
    n = 0
    for fn in prog.all_functions():
        for i in fn.all_insts():
            # the slot is a union member: on a source / mach channel the same offset is ds_refs / dm_recv_refs; only queue-typed accesses count
            if i.op in ("store", "atomicrmw", "cmpxchg") and "dq_specific_head" in prog.fields(i) and \
                    (i.d["ptr"].get("sty") or "") in ("struct.dispatch_queue_s", "struct.dispatch_lane_s", "struct.dispatch_workloop_s"):
                n += 1
                rep.saw(fn)
                if i.op == "cmpxchg":
                    ok = i.ops[1][0] in ("n",) or (i.ops[1][0] == "c" and i.ops[1][1] == 0)
                    ok = ok and ord_has_release(i.d.get("ord", ""))
                else:
                    ok = fn.name in ("_dispatch_queue_dispose", "_dispatch_lane_class_dispose", "_dispatch_queue_init") or (i.op == "store" and i.ops[0][0] in ("n",))
                rep.require(rid, ok, i.loc, fn.name, "specific-head-overwritten:%s" % fn.name,
                            "%s publishes dq_specific_head with a plain %s: two threads that both saw NULL each install their own head and the later one replaces the "
                            "earlier, silently dropping the key/value already stored there" % (fn.name, i.op), sample={"fn": fn.name, "op": i.op})
    if n < 1:
        rep.unknown(rid, "no writer of dq_specific_head found")


def rule_TB7(rep, prog):
    rid = rep.rule("C18-TB7", "one QoS per queue: for every QoS class an attribute can denote, the class the new queue reports (stored in dq_priority) equals the "
                   "class whose root queue it is put on - each platform clamp is applied to both", floor=7)
    fn = prog.fn("_dispatch_lane_create_with_target")
    rep.saw(fn)
    info = calls_named(fn, "_dispatch_queue_attr_to_info")
    roots = calls_named(fn, "_dispatch_get_root_queue")
    pst = [st for st in fn.all_insts() if st.op == "store" and "dq_priority" in prog.fields(st)]
    if len(info) != 1 or not roots or not pst:
        rep.unknown(rid, "anchor vanished in _dispatch_lane_create_with_target (attr_to_info=%d root lookups=%d priority stores=%d)" % (len(info), len(roots), len(pst)))
        return
    info = info[0]
    QSHIFT = consts.get(["DISPATCH_PRIORITY_QOS_SHIFT"])["DISPATCH_PRIORITY_QOS_SHIFT"]
    # reported qos: the `and X, 255` in the backward slice of the first dq_priority store
    P = None
    impure = []
    work, seen = [pst[0].ops[0]], set()
    while work and P is None:
        o = work.pop()
        i = fn.inst(o)
        if i is None or i.id in seen:
            continue
        seen.add(i.id)
        if i.op == "shl" and i.ops[1][0] == "c" and i.ops[1][1] == QSHIFT and fn.inst(i.ops[0]) is not None:
            x = fn.inst(i.ops[0])
            if ceval(fn, ("i", x.id), {info.id: 3}) is not None:
                P = x
                break
            impure.append(x)
            continue
        work += [x[0] for x in i.ops] if i.op == "phi" else [x for x in i.ops if x[0] == "i"]
    # root qos: incomings of the root lookup's argument that are pure functions of the attribute info
    Qs = []
    work, seen = [roots[0].ops[0]], set()
    while work:
        o = work.pop()
        i = fn.inst(o)
        if i is None or i.id in seen:
            continue
        seen.add(i.id)
        if i.op == "phi":
            work += [x[0] for x in i.ops]
        elif i.op == "select" and ceval(fn, ("i", i.id), {info.id: 3}) is None:
            work += [x for x in i.ops[1:] if x[0] == "i"]
        elif ceval(fn, ("i", i.id), {info.id: 3}) is not None:
            Qs.append(i)
    if P is None and impure:
        rep.violation(rid, impure[0].loc, fn.name, "reported-qos-not-from-attribute",
                      "the QoS class stored in the new queue's dq_priority is not a function of the attribute alone (it is merged with values computed later, such as the "
                      "class borrowed from the target root queue): a queue created without a class reports its creation target's class as if the client had requested "
                      "it, and keeps it after being retargeted")
        return
    if P is None or not Qs:
        rep.unknown(rid, "could not identify the reported / root QoS values as functions of the attribute info (P=%s Q=%d)" % (P, len(Qs)))
        return
    k = consts.get(["DISPATCH_QOS_MAX"])
    for v in range(0, k["DISPATCH_QOS_MAX"] + 1):
        pv = ceval(fn, ("i", P.id), {info.id: v})
        qv = {ceval(fn, ("i", q.id), {info.id: v}) for q in Qs}
        rep.require(rid, qv == {pv}, P.loc, fn.name, "reported-qos-differs-from-root:%d" % v,
                    "for attribute QoS %d the queue reports class %s but is placed on the root queue of class %s: a platform clamp was applied to one and not "
                    "the other, so dispatch_queue_get_qos_class disagrees with where the queue actually runs" % (v, pv, sorted(qv)), sample={"qos": v, "reported": pv})


def rule_MP8(rep, prog):
    rid = rep.rule("C18-MP8", "identity tests use the calling thread's identity: dispatch_assert_queue accepts without walking the thread frames only when the queue is "
                   "drain-locked BY THIS THREAD; dispatch_apply on a global queue installs THAT queue as the frame's queue for the iterations the caller runs", floor=2)
    fn = prog.fn("dispatch_assert_queue")
    rep.saw(fn)
    walk_ = calls_named(fn, "_dispatch_thread_frame_find_queue")
    selfl = calls_named(fn, "_dq_state_drain_locked_by_self")
    bad = None
    for kind, inst, cx, path in paths.walk(fn, entry_point(fn), lambda i: False, avoid=lambda i: i in walk_):
        if kind == "exit" and not any(cx.truth.get(c.id) is True for c in selfl):
            bad = path
    rep.require(rid, bool(walk_) and bad is None, fn.file + ":" + str(fn.d.get("line")), fn.name, "assert-queue-accepts-foreign-owner",
                "dispatch_assert_queue returns without walking the caller's thread frames on a path that did not establish 'drain-locked by the calling thread' "
                "(path %s): a thread outside the queue passes the assertion whenever some OTHER thread is draining it" % (bad,), sample={"self_tests": len(selfl)})
    fn = prog.fn("dispatch_apply_f")
    rep.saw(fn)
    push = calls_named(fn, "_dispatch_thread_frame_push")
    run_ = calls_named(fn, "_dispatch_apply_f")
    ok = bool(push) and bool(run_)
    for p_ in push:
        ok = ok and any(root_of(fn, p_.ops[1]) == root_of(fn, r.ops[0]) and fn.dominates(p_, r) for r in run_)
    rep.require(rid, ok, fn.file + ":" + str(fn.d.get("line")), fn.name, "apply-frame-queue-mismatch",
                "dispatch_apply_f pushes a thread frame for a queue other than the one the iterations are run on (e.g. the caller's previous current queue): "
                "iterations executed by the calling thread keep the caller's queue identity - dispatch_get_specific / the queue label / dispatch_assert_queue "
                "disagree between iterations of one apply", sample={"pushes": len(push)})


def run(rep, tier="quick", srcdir=None, only=None):
    prog, units = load(UNITS, tier, srcdir)
    rep.units = units
    want = lambda r: only is None or r in only
    if want("C18-DM1"):
        rule_DM1(rep, srcdir, tier)
    if want("C18-TB2"):
        rule_TB2(rep, prog)
    if want("C18-TB3"):
        rule_TB3(rep, srcdir)
    if want("C18-MP4"):
        rule_MP4(rep, prog)
    if want("C18-OD5"):
        rule_OD5(rep, prog)
    if want("C18-TB9"):
        rule_TB9(rep, prog, srcdir)
    if want("C18-TB10"):
        rule_TB10(rep, prog, srcdir)
    if want("C18-MP11"):
        rule_MP11(rep, prog)
    if want("C18-MP8"):
        rule_MP8(rep, prog)
    if want("C18-WM6"):
        rule_WM6(rep, prog)
    if want("C18-TB7"):
        rule_TB7(rep, prog)
    if want("C18-MP12"):
        rule_MP12(rep, prog)
    if want("C18-MP14"):
        rule_MP14(rep, prog)
    if want("C18-OD15"):
        rule_OD15(rep, prog)
    if want("C18-TB16"):
        rule_TB16(rep, prog)
    if want("C18-AI13"):
        rule_AI13(rep, prog, srcdir)
    if want("C03-MP7"):
        # an item runs in the hierarchy the queue has NOW: a drain that started under the old target stops before the first item after a retarget, or that
        # item runs under the old target's lock and frames while do_targetq (and dispatch_get_specific) already follow the new one (shared with C03)
        from . import C03
        C03.rule_MP7(rep, prog, Q(srcdir))


MANIFEST = {
    "technique": "typed AST matching (clang-query), mixed-radix table agreement on IR constants, conditional constant propagation of every documented identifier through the inlined IR, must-pass rules + concrete evaluation of type-indexed predicates over every queue type constant and of the priority normalisation over a (class, relpri, fallback) grid",
    "level": "the global-queue mapping is decided for every documented identifier x flag and every single undefined flag bit by constant propagation (no "
             "execution), the attribute encoder/decoder pair and table size structurally, the qos code-space discipline on the typed AST, frame push/pop "
             "pairing on every path; dispatch_assert_queue semantics over all frame stacks are not decided",
    "note": "clang-query-14 matcher semantics trusted; identifiers that equal a listed constant only in their low 32 bits are outside the enumeration (see known findings)",
}
