"""shared helpers for the rule modules"""
from dqsa import build, ir, trans, consts, paths
from dqsa.build import AnalysisBroken
from dqsa.ir import ord_has_acquire, ord_has_release

QNAMES = ["DISPATCH_QUEUE_DIRTY", "DISPATCH_QUEUE_DRAIN_OWNER_MASK", "DISPATCH_QUEUE_IN_BARRIER",
          "DISPATCH_QUEUE_WIDTH_FULL_BIT", "DISPATCH_QUEUE_ENQUEUED", "DISPATCH_QUEUE_ENQUEUED_ON_MGR",
          "DISPATCH_QUEUE_NEEDS_ACTIVATION", "DISPATCH_QUEUE_INACTIVE", "DISPATCH_QUEUE_SUSPEND_INTERVAL",
          "DISPATCH_QUEUE_WIDTH_INTERVAL", "DISPATCH_QUEUE_PENDING_BARRIER", "DISPATCH_QUEUE_WIDTH_MASK",
          "DISPATCH_QUEUE_DRAIN_UNLOCK_MASK", "DISPATCH_QUEUE_SUSPEND_BITS_MASK", "DISPATCH_QUEUE_RECEIVED_OVERRIDE",
          "DISPATCH_QUEUE_ROLE_MASK", "DISPATCH_QUEUE_MAX_QOS_MASK", "DISPATCH_QUEUE_HAS_SIDE_SUSPEND_CNT",
          "DISPATCH_QUEUE_WIDTH_FULL", "DISPATCH_QUEUE_SERIAL_DRAIN_OWNED", "DISPATCH_QUEUE_DRAIN_PRESERVED_BITS_MASK",
          "DISPATCH_QUEUE_ROLE_BASE_ANON", "DISPATCH_QUEUE_ROLE_BASE_WLH", "DISPATCH_QUEUE_SUSPEND_HALF",
          "DISPATCH_WAKEUP_MAKE_DIRTY", "DISPATCH_WAKEUP_CONSUME_2", "DISPATCH_WAKEUP_BARRIER_COMPLETE",
          "DISPATCH_WAKEUP_BLOCK_WAIT", "DISPATCH_INVOKE_REDIRECTING_DRAIN",
          "DC_FLAG_BARRIER", "DC_FLAG_SYNC_WAITER", "DC_FLAG_CONSUME", "DC_FLAG_ASYNC_AND_WAIT",
          "DLOCK_OWNER_MASK", "DLOCK_WAITERS_BIT", "DLOCK_FAILED_TRYLOCK_BIT"]

DQ_STATE = frozenset(["dq_state", "dq_state_lock", "dq_state_bits"])


class Q:
    """dq_state vocabulary, extracted from the build's own headers"""

    def __init__(self, srcdir=None):
        c = consts.get(QNAMES, srcdir=srcdir)
        self.c = c
        self.srcdir = srcdir
        g = lambda n: c["DISPATCH_QUEUE_" + n]
        self.DIRTY = g("DIRTY")
        self.OWNER = g("DRAIN_OWNER_MASK")
        self.IN_BARRIER = g("IN_BARRIER")
        self.WIDTH_FULL_BIT = g("WIDTH_FULL_BIT")
        self.ENQUEUED = g("ENQUEUED")
        self.ENQUEUED_ON_MGR = g("ENQUEUED_ON_MGR")
        self.NEEDS_ACTIVATION = g("NEEDS_ACTIVATION")
        self.INACTIVE = g("INACTIVE")
        self.SUSPEND_INTERVAL = g("SUSPEND_INTERVAL")
        self.WIDTH_INTERVAL = g("WIDTH_INTERVAL")
        self.PENDING_BARRIER = g("PENDING_BARRIER")
        self.WIDTH_MASK = g("WIDTH_MASK")
        self.UNLOCK_MASK = g("DRAIN_UNLOCK_MASK")
        self.SUSPEND_BITS = g("SUSPEND_BITS_MASK")
        self.HAS_SIDE = g("HAS_SIDE_SUSPEND_CNT")
        self.ROLE_MASK = g("ROLE_MASK")
        self.MAX_QOS = g("MAX_QOS_MASK")
        self.SUSPEND_HALF = g("SUSPEND_HALF")
        self.MAKE_DIRTY = c["DISPATCH_WAKEUP_MAKE_DIRTY"]
        self.CONSUME_2 = c["DISPATCH_WAKEUP_CONSUME_2"]
        self.BARRIER_COMPLETE = c["DISPATCH_WAKEUP_BARRIER_COMPLETE"]
        self.ALL = (1 << 64) - 1


def load(units, tier="quick", srcdir=None, mode="leaves"):
    if tier == "thorough":
        units = "all"
    facts = build.facts_for(units, mode=mode, srcdir=srcdir)
    prog = ir.Program(facts)
    return prog, sorted(facts)


def callee_slot(prog, call):
    """name(s) of the vtable slot an indirect call goes through (via the load feeding it)"""
    ic = call.d.get("icallee")
    if not ic or ic[0] != "i":
        return frozenset()
    i = call.fn.insts[ic[1]]
    depth = 0
    while i is not None and i.op in ("bitcast",) and depth < 4:
        i = call.fn.inst(i.ops[0])
        depth += 1
    if i is not None and i.op == "load":
        return prog.fields(i)
    return frozenset()


def calls_named(fn, names):
    names = set([names]) if isinstance(names, str) else set(names)
    return [i for i in fn.all_insts() if i.op == "call" and i.callee in names]


def icalls_slot(prog, fn, slot):
    return [i for i in fn.all_insts() if i.op == "call" and "icallee" in i.d and slot in callee_slot(prog, i)]


def atomic_sites(prog, fn, fields, ops=("cmpxchg", "atomicrmw", "store", "load")):
    out = []
    for i in fn.all_insts():
        if i.op in ops and (i.op in ("cmpxchg", "atomicrmw") or i.d.get("ord") not in (None, "na")):
            if prog.fields(i) & fields:
                out.append(i)
    return out


def mem_sites(prog, fn, fields, ops=("store",)):
    return [i for i in fn.all_insts() if i.op in ops and (prog.fields(i) & fields)]


def arg_const(fn, call, n, ctx=None):
    """constant value of call argument n (phi-resolved along ctx if given)"""
    if n >= len(call.ops):
        return None
    op = call.ops[n]
    if ctx is not None:
        v = ctx.value(op)
        if isinstance(v, tuple):
            return v[1]
        if v == paths.NULL:
            return 0
        return None
    return op[1] if op[0] == "c" else None


def known_arg_bits(prog, ex, callee_name, argno):
    """known-one / known-zero bits of an integer argument over all direct call sites in the program
    (callee must be internal: every caller is visible). Returns (k0, k1) or None."""
    k0 = k1 = None
    n = 0
    for f in prog.all_functions():
        for c in f.calls(callee_name):
            ex.fn = f
            ev = trans.Ev(ex, None, 64)
            bv = ev.ev(c.ops[argno])
            n += 1
            k0 = bv.k0 if k0 is None else (k0 & bv.k0)
            k1 = bv.k1 if k1 is None else (k1 & bv.k1)
    if n == 0:
        return None
    return (k0, k1)


def fmt_t(t):
    return "%s@%s[%s] %s" % (t.fn.name, t.where, t.kind, ";".join(t.old.notes[-3:]))


def report_sub(rep):
    from dqsa import report as _r
    return _r.Report(rep.prop, rep.tier, rep.seed)


def merge_sub(rep, sub, rid, text):
    """fold the results of a sub-report (rules re-run on another form of the program) into `rep` under one rule id"""
    n = sum(r["instances"] for r in sub.rules.values())
    held = sum(r["held"] for r in sub.rules.values())
    rep.rule(rid, text, floor=1)
    rep.rules[rid]["instances"] += n
    rep.rules[rid]["held"] += held
    for r in sub.rules.values():
        rep.rules[rid]["samples"] += r["samples"][:1]
    for f in sub.findings:
        f.rule = rid
        rep.findings.append(f)
    rep.unknowns += ["%s: %s" % (rid, u) for u in sub.unknowns]
    rep.functions_analysed |= sub.functions_analysed


def ceval(fn, op, env, depth=0):
    """concrete value of operand `op` given concrete values for some instructions / parameters (env: {inst id or ('a', n): value});
    None if the value is not a pure function of them (through and/or/xor/shifts/add/sub/udiv/trunc/zext/icmp/select)"""
    M64 = (1 << 64) - 1
    if op[0] == "c":
        return op[1] & M64
    if op[0] == "n":
        return 0
    if op[0] == "a":
        return env.get(("a", op[1]))
    if op[0] != "i" or depth > 10:
        return None
    if op[1] in env:
        return env[op[1]]
    i = fn.insts[op[1]]
    bits = {"i1": 1, "i8": 8, "i16": 16, "i32": 32, "i64": 64}
    if i.op in ("trunc", "zext"):
        v = ceval(fn, i.ops[0], env, depth + 1)
        if v is None:
            return None
        return v & ((1 << bits.get(i.d.get("ty"), 64)) - 1)
    if i.op in ("bitcast", "inttoptr", "ptrtoint"):
        return ceval(fn, i.ops[0], env, depth + 1)
    if i.op == "sext":
        v = ceval(fn, i.ops[0], env, depth + 1)
        src = fn.inst(i.ops[0])
        sb = bits.get(src.d.get("ty")) if src is not None else None
        if v is None or sb is None:
            return None
        if v >> (sb - 1):
            v -= 1 << sb
        return v & ((1 << bits.get(i.d.get("ty"), 64)) - 1)
    if i.op in ("and", "or", "xor", "lshr", "shl", "udiv", "add", "sub", "ashr", "mul", "urem"):
        x, y = ceval(fn, i.ops[0], env, depth + 1), ceval(fn, i.ops[1], env, depth + 1)
        if x is None or y is None:
            return None
        nb = bits.get(i.d.get("ty"), 64)
        w = (1 << nb) - 1
        if i.op == "ashr":
            sx = x - (1 << nb) if x >> (nb - 1) else x
            return (sx >> y) & w if y < nb else (w if sx < 0 else 0)
        if i.op == "mul": return (x * y) & w
        if i.op == "urem": return x % y if y else None
        if i.op == "and": return x & y
        if i.op == "or": return x | y
        if i.op == "xor": return x ^ y
        if i.op == "lshr": return x >> y if y < 64 else 0
        if i.op == "shl": return (x << y) & w if y < 64 else 0
        if i.op == "udiv": return x // y if y else None
        if i.op == "add": return (x + y) & w
        if i.op == "sub": return (x - y) & w
    if i.op == "icmp":
        x, y = ceval(fn, i.ops[0], env, depth + 1), ceval(fn, i.ops[1], env, depth + 1)
        if x is None or y is None:
            return None
        r = {"eq": x == y, "ne": x != y, "uge": x >= y, "ugt": x > y, "ule": x <= y, "ult": x < y}.get(i.d["pred"])
        if r is None and i.d["pred"] in ("slt", "sgt", "sle", "sge"):
            nb = None
            for o in i.ops:
                if o[0] == "c" and len(o) > 2:
                    nb = o[2]
                elif o[0] == "i" and fn.insts[o[1]].d.get("ty") in bits:
                    nb = bits[fn.insts[o[1]].d["ty"]]
            if nb is None:
                return None
            sx = x - (1 << nb) if x >> (nb - 1) else x
            sy = y - (1 << nb) if y >> (nb - 1) else y
            r = {"slt": sx < sy, "sgt": sx > sy, "sle": sx <= sy, "sge": sx >= sy}[i.d["pred"]]
        return None if r is None else int(r)
    if i.op == "select":
        c = ceval(fn, i.ops[0], env, depth + 1)
        if c is None:
            return None
        return ceval(fn, i.ops[1] if c else i.ops[2], env, depth + 1)
    return None


def concrete_run(fn, env, targets, limit=200):
    """follow the CFG from the entry with concrete branch outcomes (ceval); returns True if a block holding one of `targets` is entered
    before a return, False if the function returns first, None if a branch condition is not determined by env"""
    b = fn.blocks[0]
    tb = {t.block.id for t in targets}
    prev = None
    for _ in range(limit):
        if b.id in tb:
            return True
        t = b.term
        if t.op == "ret" or t.op == "unreachable":
            return False
        if t.op == "br" and t.ops:
            c = ceval(fn, t.ops[0], env)
            if c is None:
                return None
            nb = b.succs[0 if c else 1]
        elif t.op == "br":
            nb = b.succs[0]
        else:
            return None
        prev, b = b, nb
    return None


def concrete_walk(fn, env, stop, limit=400):
    """follow the CFG from the entry with concrete branch outcomes, resolving phis along the path taken (env: {inst id: value}, extended in place with the
    phi values). Stops at the first instruction for which stop(inst) is true and returns (inst, env); returns (None, env) at a return / undetermined branch."""
    b, prev = fn.blocks[0], None
    for _ in range(limit):
        for i in b.insts:
            if i.op == "phi" and prev is not None:
                for v, frm in i.ops:
                    if frm == prev.id:
                        x = ceval(fn, v, env)
                        env[i.id] = x if x is not None else ("sym", tuple(v[:2]))
            if stop(i):
                return i, env
        t = b.term
        if t.op in ("ret", "unreachable"):
            return None, env
        if t.op == "br" and t.ops:
            c = ceval(fn, t.ops[0], {k_: v for k_, v in env.items() if not isinstance(v, tuple)})
            if c is None:
                return None, env
            nb = b.succs[0 if c else 1]
        elif t.op == "br":
            nb = b.succs[0]
        elif t.op == "switch":
            c = ceval(fn, t.ops[0], {k_: v for k_, v in env.items() if not isinstance(v, tuple)})
            if c is None:
                return None, env
            nb = None
            for val, tgt in t.d.get("cases", []):
                if val == c:
                    nb = fn.blocks[tgt]
            if nb is None:
                nb = fn.blocks[t.d.get("default")]
        else:
            return None, env
        prev, b = b, nb
    return None, env


def concrete_walk_any(fn, env, stop):
    """concrete_walk, but a branch whose condition is not determined by env takes its FALSE arm (used where the undetermined tests guard optional extras)"""
    b, prev = fn.blocks[0], None
    for _ in range(400):
        for i in b.insts:
            if i.op == "phi" and prev is not None:
                for v, frm in i.ops:
                    if frm == prev.id:
                        x = ceval(fn, v, {k_: v_ for k_, v_ in env.items() if not isinstance(v_, tuple)})
                        env[i.id] = x if x is not None else ("sym", tuple(v[:2]))
            if stop(i):
                return i, env
        t = b.term
        if t.op == "switch":
            c = ceval(fn, t.ops[0], {k_: v_ for k_, v_ in env.items() if not isinstance(v_, tuple)})
            nb = fn.blocks[t.d.get("default")]
            for val, tgt in t.d.get("cases", []):
                if c is not None and val == c:
                    nb = fn.blocks[tgt]
            prev, b = b, nb
            continue
        if t.op != "br":
            return None, env
        if t.ops:
            c = ceval(fn, t.ops[0], {k_: v_ for k_, v_ in env.items() if not isinstance(v_, tuple)})
            nb = b.succs[0 if c else 1]
        else:
            nb = b.succs[0]
        prev, b = b, nb
    return None, env
