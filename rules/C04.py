"""C04 - barriers on concurrent queues exclude and order like a writer lock.

Decided (per-transition / per-path obligations of the width protocol): reader admission guards, the barrier upgrade,
the drainer's width bookkeeping when it hands a slot away, the last reader's hand-over, barrier API flag plumbing and the
apply width pairing. Exact width accounting over all histories is not decided."""
from dqsa import trans, paths
from .common import *
from .sync_common import entry_point
from .C03 import root_ptr

UNITS = ["queue", "apply", "source", "init"]


def is_width_take(q, t):
    if t.kind not in ("cas-loop", "rmw") or t.width != 64:
        return False
    a = [x for x in t.new.arith]
    return len(a) == 1 and a[0][0] == "+" and a[0][3] == q.WIDTH_INTERVAL and t.preserves(q.WIDTH_INTERVAL - 1)


def rule_TR1(rep, prog, q, ts, universal_only=False):
    rid = rep.rule("C04-TR1", "reader admission: every transition that adds one WIDTH_INTERVAL without holding the drain lock is guarded by "
                   "not IN_BARRIER / not suspended, PENDING_BARRIER == 0 and DIRTY == 0; the sync reservation additionally checks that nothing is queued; "
                   "the unconditional reservation is only used by the drainer for sync waiters", floor=5)
    need = q.IN_BARRIER | q.PENDING_BARRIER | q.DIRTY | q.SUSPEND_BITS
    n = 0
    for t in ts:
        if isinstance(t, trans.GiveUp) or not is_width_take(q, t):
            continue
        rep.saw(t.fn)
        if t.kind == "rmw" and universal_only:
            continue
        if t.kind == "rmw":
            # unconditional: who-may-call
            o = t.origin
            callers = [(f, c) for f in prog.all_functions() for c in f.calls(o)] if o != t.fn.name or True else []
            users = sorted({f.name for f, c in callers}) or [t.fn.name]
            okc = bool(callers)      # role is structural: every caller reaches it only for an item it found to be a sync waiter (below)
            for f, c in callers:
                # dominated by _dispatch_object_is_waiter(dc) being true
                iw = [w for w in calls_named(f, "_dispatch_object_is_waiter") if f.dominates(w, c)]
                good = False
                for w in iw:
                    for br, st, sf in paths.branch_edges(f, w):
                        if f.block_dominates(st, c.block.id) and not f.block_dominates(sf, c.block.id):
                            good = True
                okc = okc and good
            rep.require(rid, okc, t.where, o, "unconditional-width-take:%s" % o,
                        "%s adds a width slot unconditionally; it may only be called by the drainer for a sync waiter it is about to wake (callers: %s)"
                        % (o, users), sample={"site": o, "callers": users})
            continue
        n += 1
        ok = (t.old.k0 & need) == need
        rep.require(rid, ok, t.where, t.origin, "reader-admission-guard:%s" % t.origin,
                    "%s admits a reader (adds WIDTH_INTERVAL) on a path where the old state may have %s set: a non-barrier item could start while a "
                    "barrier runs or is pending, or behind an unseen enqueue"
                    % (t.origin, "/".join(nm for nm, b in (("IN_BARRIER", q.IN_BARRIER), ("PENDING_BARRIER", q.PENDING_BARRIER), ("DIRTY", q.DIRTY), ("suspend bits", q.SUSPEND_BITS)) if (t.old.k0 & b) != b)),
                    sample={"site": t.origin, "old_known_zero": hex(t.old.k0)}, details={"guards": t.old.notes})
    if universal_only:
        return
    # tail pre-check of the sync reservation
    fn = prog.fn("_dispatch_queue_try_reserve_sync_width")
    rep.saw(fn)
    cx = [i for i in fn.all_insts() if i.op == "cmpxchg" and (prog.fields(i) & DQ_STATE)]
    tl = [i for i in fn.all_insts() if i.op == "load" and "dq_items_tail" in prog.fields(i)]
    res = paths.walk(fn, entry_point(fn), lambda i: i in cx)
    ok = bool(cx) and bool(tl)
    for kind, inst, c, path in res:
        if kind == "hit" and not any(c.value(["i", l.id]) == paths.NULL for l in tl):
            ok = False
    rep.require(rid, ok, fn.file + ":" + str(fn.d.get("line")), fn.name, "sync-reserve-without-tail-check",
                "_dispatch_queue_try_reserve_sync_width reaches its state CAS without having seen dq_items_tail == NULL: a dispatch_sync reader can "
                "overtake a barrier (or any item) the same thread queued just before (rdar 24738102)", sample={"tail_loads": len(tl)})
    # concurrent push fast path
    fn = prog.fn("_dispatch_lane_concurrent_push")
    rep.saw(fn)
    red = calls_named(fn, "_dispatch_continuation_redirect_push")
    res = paths.walk(fn, entry_point(fn), lambda i: i in red)
    ok = bool(red)
    tl = [i for i in fn.all_insts() if i.op == "load" and "dq_items_tail" in prog.fields(i)]
    for kind, inst, c, path in res:
        if kind != "hit":
            continue
        cond = {"tail": any(c.value(["i", l.id]) == paths.NULL for l in tl)}
        for nm, want in (("_dispatch_object_is_waiter", False), ("_dispatch_object_is_barrier", False), ("_dispatch_queue_try_acquire_async", True)):
            cond[nm] = any(c.truth.get(x.id) is want for x in calls_named(fn, nm))
        if not all(cond.values()):
            ok = False
            missing = [k for k, v in cond.items() if not v]
    rep.require(rid, ok, fn.file + ":" + str(fn.d.get("line")), fn.name, "concurrent-push-fastpath",
                "_dispatch_lane_concurrent_push redirects an item straight to the target queue on a path that did not establish: empty list, not a "
                "waiter, not a barrier, async width acquired", sample={"redirect_calls": len(red), "paths": len(res)})
    if n < 2:
        rep.unknown(rid, "fewer than 2 guarded reader-admission CAS sites found (%d)" % n)


def rule_TR2(rep, prog, q, ts):
    rid = rep.rule("C04-TR2", "_dispatch_queue_try_upgrade_full_width: every commit clears DIRTY; IN_BARRIER is taken only when the remaining width "
                   "(after giving back what the drainer owns, honouring a pending barrier) is below full; otherwise PENDING_BARRIER is left", floor=2)
    mine = [t for t in ts if not isinstance(t, trans.GiveUp) and t.origin == "_dispatch_queue_try_upgrade_full_width"]
    if not mine:
        rep.unknown(rid, "no transition found for _dispatch_queue_try_upgrade_full_width")
    for t in mine:
        rep.saw(t.fn)
        rep.require(rid, t.clears(q.DIRTY), t.where, t.origin, "upgrade-keeps-dirty",
                    "_dispatch_queue_try_upgrade_full_width commits a state in which DIRTY may remain set", sample={"new": repr(t.new)})
    # the width reserved for the pending barrier is added exactly once: on the paths that saw PENDING_BARRIER clear, and on every such path. A second
    # reservation (the drain is re-run with the flag already set when a reader completed in between) leaves the width field above 'full' for ever
    PB = q.c["DISPATCH_QUEUE_PENDING_BARRIER"]
    for t in mine:
        adds = [a for a in t.new.arith if a[0] == "+" and a[3] is None and a[2] == PB.bit_length() - 1]
        seen_clear, seen_set = bool(t.old.k0 & PB), bool(t.old.k1 & PB)
        rep.require(rid, bool(adds) == seen_clear and (seen_clear or seen_set), t.where, t.origin, "upgrade-pending-width-reserved-once",
                    "_dispatch_queue_try_upgrade_full_width %s the pending-barrier width on a path where PENDING_BARRIER was %s: the reservation must be made exactly when "
                    "the flag is found clear - made again with the flag already set, the width field never comes back below full and the barrier and everything behind it "
                    "are stranded" % ("adds" if adds else "does not add", "found clear" if seen_clear else "found set" if seen_set else "not tested"),
                    sample={"adds": bool(adds), "pending_clear": seen_clear})
    # IN_BARRIER may be added on its own or folded with the other constants of that arm (WIDTH_INTERVAL + IN_BARRIER - PENDING_BARRIER)
    ib = [t for t in mine if t.sets(q.IN_BARRIER) or any(a[0] == "+" and a[3] is not None and (a[3] & q.IN_BARRIER) and a[3] < 2 * q.IN_BARRIER for a in t.new.arith)]
    nb = [t for t in mine if t not in ib]
    rep.require(rid, bool(ib) and bool(nb), mine[0].where if mine else "?", "_dispatch_queue_try_upgrade_full_width", "upgrade-arms",
                "_dispatch_queue_try_upgrade_full_width must have a path taking IN_BARRIER and a path that only records the pending barrier (found %d / %d)" % (len(ib), len(nb)),
                sample={"in_barrier_paths": len(ib), "pending_paths": len(nb)})
    for t in ib:
        guarded = any((" ult %s" % hex(q.WIDTH_FULL_BIT)) in n for n in t.old.notes)
        rep.require(rid, guarded, t.where, t.origin, "upgrade-unguarded",
                    "_dispatch_queue_try_upgrade_full_width takes IN_BARRIER on a path that did not compare the remaining width with WIDTH_FULL_BIT: "
                    "a barrier would start while readers still hold width", sample={"guards": t.old.notes[-2:]}, details={"guards": t.old.notes})


def rule_AI3(rep, prog, q):
    rid = rep.rule("C04-AI3", "drain bookkeeping: when the concurrent drainer hands its width slot away (wakes a sync reader or redirects an item) the "
                   "loop-carried `owned` drops by WIDTH_INTERVAL; leaving barrier mode gives IN_BARRIER back with a release xor", floor=3)
    fn = prog.fn("_dispatch_lane_drain")
    rep.saw(fn)
    for callee in ("_dispatch_non_barrier_waiter_redirect_or_wake", "_dispatch_continuation_redirect_push"):
        cs = calls_named(fn, callee)
        if not cs:
            rep.unknown(rid, "anchor vanished: %s not called in _dispatch_lane_drain" % callee)
        for c in cs:
            b = c.block
            ok = False
            for s in b.succs:
                for ph in s.insts:
                    if ph.op != "phi":
                        break
                    if ph.d.get("ty") != "i64":
                        continue
                    for v, frm in ph.ops:
                        if frm == b.id:
                            vi = fn.inst(v)
                            if vi is not None and vi.op == "sub" and vi.ops[1][0] == "c" and vi.ops[1][1] == q.WIDTH_INTERVAL:
                                ok = True
            rep.require(rid, ok, c.loc, fn.name, "slot-handed-off-but-still-owned:%s" % callee,
                        "_dispatch_lane_drain calls %s (the woken reader / redirected item now owns that width slot) but the drainer's `owned` is not "
                        "reduced by WIDTH_INTERVAL on that back edge: the slot is returned twice and a later barrier starts while the reader runs" % callee,
                        sample={"call": c.loc, "callee": callee})
    xs = [i for i in fn.all_insts() if i.op == "atomicrmw" and i.d["rmw"] == "xor" and (prog.fields(i) & DQ_STATE)]
    rep.require(rid, bool(xs) and all(ord_has_release(x.d["ord"]) for x in xs), xs[0].loc if xs else fn.file, fn.name, "leave-barrier-xor",
                "_dispatch_lane_drain must give IN_BARRIER back with a release xor before running non-barrier items", sample={"xor": [x.d["ord"] for x in xs]})


def rule_MP4(rep, prog, q, ts):
    rid = rep.rule("C04-MP4", "_dispatch_lane_non_barrier_complete returns exactly one WIDTH_INTERVAL; when the queue is still drain-locked it marks DIRTY; "
                   "a taken IN_BARRIER leads to _dispatch_lane_barrier_complete, a set ENQUEUED to a push", floor=2)
    mine = [t for t in ts if not isinstance(t, trans.GiveUp) and t.fn.name == "_dispatch_lane_non_barrier_complete"]
    if not mine:
        rep.unknown(rid, "no transitions in _dispatch_lane_non_barrier_complete")
    for t in mine:
        rep.saw(t.fn)
        dec = any(a[0] == "-" and a[3] == q.WIDTH_INTERVAL for a in t.new.arith) or any("non_barrier_complete_try_lock" in (s or "") for s, m in t.new.ors)
        rep.require(rid, dec, t.where, t.fn.name, "nbc-width-delta",
                    "_dispatch_lane_non_barrier_complete commits a state not derived from old - WIDTH_INTERVAL", sample={"new": repr(t.new)[:120]})
        locked = (t.old.some_set and any((m & ~q.OWNER) == 0 for m in t.old.some_set)) or bool(t.old.k1 & q.OWNER)
        if locked:
            rep.require(rid, t.sets(q.DIRTY), t.where, t.fn.name, "nbc-locked-without-dirty",
                        "_dispatch_lane_non_barrier_complete: the queue is drain-locked by someone else but DIRTY is not set: the holder will unlock "
                        "without noticing that width came back and a pending barrier is stranded", sample={"guards": t.old.notes[-2:]})
    fn = prog.fn("_dispatch_lane_non_barrier_complete_finish")
    rep.saw(fn)
    bc = calls_named(fn, "_dispatch_lane_barrier_complete")
    push = icalls_slot(prog, fn, "dq_push") + calls_named(fn, "_dispatch_queue_push_queue")
    rep.require(rid, bool(bc) and bool(push), fn.file, fn.name, "nbc-finish-shape",
                "_dispatch_lane_non_barrier_complete_finish must dispatch to _dispatch_lane_barrier_complete (IN_BARRIER taken) and to a push (ENQUEUED set)",
                sample={"barrier_complete": len(bc), "push": len(push)})


def rule_SB5(rep, prog, q):
    rid = rep.rule("C04-SB5", "barrier API entry points pass DC_FLAG_BARRIER to every non-barrier-named helper they delegate to", floor=2)
    B = q.c["DC_FLAG_BARRIER"]
    for name in ("dispatch_barrier_sync", "dispatch_barrier_sync_f", "dispatch_barrier_async_and_wait", "dispatch_barrier_async_and_wait_f"):
        fn = prog.fn(name, required=False)
        if fn is None:
            continue
        rep.saw(fn)
        for c in fn.all_insts():
            if c.op != "call" or not c.callee or not c.callee.startswith(("_dispatch_sync", "_dispatch_async_and_wait")):
                continue
            if c.callee in ("_dispatch_sync_function_invoke",):
                continue
            ints = [o for o in c.ops if o[0] == "c" and o[2] == 64]
            ok = bool(ints) and bool(ints[-1][1] & B)
            if not ints:
                # flags passed as a value: evaluate
                ok = C02_carries(prog, q, fn, c.ops[-1])
            rep.require(rid, ok, c.loc, name, "barrier-api-drops-flag:%s->%s" % (name, c.callee),
                        "%s delegates to %s with dc_flags lacking DC_FLAG_BARRIER: for block objects with private data the item would run as an ordinary "
                        "reader and overlap other items" % (name, c.callee), sample={"api": name, "callee": c.callee})


def rule_SB11(rep, prog, q):
    rid = rep.rule("C04-SB11", "every way of submitting a barrier marks the work item itself: dispatch_barrier_async(_f) initialise the continuation with "
                   "DC_FLAG_BARRIER (the flags argument of _dispatch_continuation_async is not what the queue reads), and a block object created with "
                   "DISPATCH_BLOCK_BARRIER gets DC_FLAG_BARRIER whichever sync/async API it is submitted with", floor=12)
    B = q.c["DC_FLAG_BARRIER"]
    for name in ("dispatch_barrier_async", "dispatch_barrier_async_f", "_dispatch_barrier_async_detached_f"):
        fn = prog.fn(name, required=False)
        if fn is None:
            continue
        rep.saw(fn)
        inits = [c for c in fn.all_insts() if c.op == "call" and c.callee and c.callee.startswith(("_dispatch_continuation_init", "_dispatch_async_f_slow"))]
        stores = [st for st in fn.all_insts() if st.op == "store" and "dc_flags" in prog.fields(st)]
        if not inits and not stores:
            rep.unknown(rid, "anchor vanished: %s neither initialises a continuation through a known helper nor stores dc_flags" % name)
        for c in inits:
            ok = C02_carries(prog, q, fn, c.ops[-1])
            rep.require(rid, ok, c.loc, name, "barrier-async-item-not-marked:%s->%s" % (name, c.callee),
                        "%s initialises its continuation through %s with dc_flags lacking DC_FLAG_BARRIER: the queue reads the barrier-ness from dc->dc_flags, so "
                        "the item is admitted as an ordinary reader of a concurrent queue and overlaps other items" % (name, c.callee), sample={"api": name, "callee": c.callee})
        for st in stores:
            ok = C02_carries(prog, q, fn, st.ops[0])
            rep.require(rid, ok, st.loc, name, "barrier-async-item-not-marked:%s:store" % name,
                        "%s stores dc_flags without DC_FLAG_BARRIER" % name, sample={"api": name, "store": st.loc})
    # block objects: concrete evaluation of the flag plumbing for every combination of the creation flag and the caller's flags
    k = consts.get(["DISPATCH_BLOCK_BARRIER", "DISPATCH_BLOCK_HAS_VOUCHER", "DISPATCH_BLOCK_HAS_PRIORITY"], srcdir=q.srcdir)
    BB, HV, HP = k["DISPATCH_BLOCK_BARRIER"], k["DISPATCH_BLOCK_HAS_VOUCHER"], k["DISPATCH_BLOCK_HAS_PRIORITY"]
    fn = prog.fn("_dispatch_sync_block_with_privdata")
    rep.saw(fn)
    lds = [l for l in fn.all_insts() if l.op == "load" and "dbpd_flags" in prog.fields(l)]
    syncs = [c for c in fn.all_insts() if c.op == "call" and c.callee and c.callee.startswith(("_dispatch_sync_f", "_dispatch_barrier_sync_f", "_dispatch_sync_invoke", "_dispatch_async_and_wait_f"))]
    if not lds or not syncs:
        rep.unknown(rid, "anchor vanished in _dispatch_sync_block_with_privdata (dbpd_flags loads=%d, sync submissions=%d)" % (len(lds), len(syncs)))
    else:
        for bflags in (BB, BB | 0x8, BB | HV, BB | HP | HV, 0, 0x8, HV, HP):
            for inflags in (0, B):
                env = {l.id: bflags for l in lds}
                env[("a", 2)] = inflags
                # the voucher / priority arms do not influence the flag: treat their tests as false
                hit, env = concrete_walk_any(fn, env, lambda i: i in syncs)
                if hit is None:
                    rep.unknown(rid, "could not follow _dispatch_sync_block_with_privdata concretely for block flags %#x" % bflags)
                    continue
                v = ceval(fn, hit.ops[-1], {k_: v_ for k_, v_ in env.items() if not isinstance(v_, tuple)})
                marked = "barrier" in hit.callee
                if v is not None and bool(v & B) and not marked:
                    rep.violation(rid, hit.loc, fn.name, "block-sync-barrier-flag-to-reader-entry:%#x:%#x" % (bflags, inflags),
                                  "_dispatch_sync_block_with_privdata passes dc_flags %#x (DC_FLAG_BARRIER set) to the NON-barrier entry %s for a block created with flags "
                                  "%#x: on a contended concurrent queue the waiter is queued as a barrier (it is handed the whole width) but completes as a reader "
                                  "(gives one slot back): the queue stays locked by a thread that has left and nothing submitted later ever runs" % (v, hit.callee, bflags))
                want = bool(bflags & BB) or bool(inflags & B)
                rep.require(rid, marked == want, hit.loc, fn.name, "block-sync-barrier:%#x:%#x" % (bflags, inflags),
                            "_dispatch_sync_block_with_privdata submits a block object created with flags %#x (caller flags %#x) through %s with dc_flags %s: %s"
                            % (bflags, inflags, hit.callee, hex(v) if v is not None else "?", "a DISPATCH_BLOCK_BARRIER block handed to plain dispatch_sync must "
                               "still run as a barrier" if want else "a non-barrier block must not be turned into a barrier"),
                            sample={"block_flags": bflags, "caller_flags": inflags, "barrier": marked})


    fn = prog.fn("_dispatch_continuation_init_slow")
    rep.saw(fn)
    lds = [l for l in fn.all_insts() if l.op == "load" and "dbpd_flags" in prog.fields(l)]
    old = [l for l in fn.all_insts() if l.op == "load" and "dc_flags" in prog.fields(l)]
    sts = [st for st in fn.all_insts() if st.op == "store" and "dc_flags" in prog.fields(st)]
    if not lds or not sts:
        rep.unknown(rid, "anchor vanished in _dispatch_continuation_init_slow (dbpd_flags loads=%d, dc_flags stores=%d)" % (len(lds), len(sts)))
        return
    for bflags in (BB, BB | 0x8, BB | HV, BB | HP | HV, 0, 0x8, HV, HP):
        for inflags in (0, B):
            env = {l.id: bflags for l in lds}
            env.update({l.id: inflags | 0x4 for l in old})
            hit, env = concrete_walk_any(fn, env, lambda i: i in sts)
            if hit is None:
                rep.unknown(rid, "could not follow _dispatch_continuation_init_slow concretely for block flags %#x" % bflags)
                continue
            v = ceval(fn, hit.ops[0], {k_: v_ for k_, v_ in env.items() if not isinstance(v_, tuple)})
            want = bool(bflags & BB) or bool(inflags & B)
            rep.require(rid, v is not None and bool(v & B) == want, hit.loc, fn.name, "block-async-barrier:%#x:%#x" % (bflags, inflags),
                        "_dispatch_continuation_init_slow gives a block object created with flags %#x (continuation flags so far %#x) the dc_flags %s: %s"
                        % (bflags, inflags | 0x4, hex(v) if v is not None else "?", "a DISPATCH_BLOCK_BARRIER block submitted with dispatch_async / "
                           "dispatch_group_async / as a handler must run as a barrier" if want else "a non-barrier block must not be turned into a barrier"),
                        sample={"block_flags": bflags, "flags_in": inflags, "barrier": want})


def rule_AI12(rep, prog, q):
    rid = rep.rule("C04-AI12", "the reader that gives its slot back takes the barrier lock exactly when it was the LAST one: _dispatch_lane_non_barrier_complete_try_lock, "
                   "evaluated over queue widths, readers still running, a parked barrier (PENDING_BARRIER with its width-1 pre-reserved slots) and DIRTY, sets "
                   "IN_BARRIER iff no reader is left, and otherwise leaves the width field alone (ENQUEUED is added only for a DIRTY queue)", floor=16)
    k = consts.get(["DISPATCH_QUEUE_WIDTH_FULL", "DISPATCH_QUEUE_WIDTH_SHIFT", "DISPATCH_QUEUE_PENDING_BARRIER", "DISPATCH_QUEUE_WIDTH_MASK"], srcdir=q.srcdir)
    FULL, SH, PB, WM = k["DISPATCH_QUEUE_WIDTH_FULL"], k["DISPATCH_QUEUE_WIDTH_SHIFT"], k["DISPATCH_QUEUE_PENDING_BARRIER"], k["DISPATCH_QUEUE_WIDTH_MASK"]
    fn = prog.fn("_dispatch_lane_non_barrier_complete_try_lock")
    rep.saw(fn)
    wl = [l for l in fn.all_insts() if l.op == "load" and "dq_width" in prog.fields(l)]
    if not wl:
        rep.unknown(rid, "anchor vanished: _dispatch_lane_non_barrier_complete_try_lock does not read dq_width")
        return
    OWNER = 0x1234
    for w in (2, 4):
        for left in (0, 1, 2):
            if left >= w:
                continue
            for pend in (0, 1):
                for dirty in (0, 1):
                    new = ((FULL - w + left + (w - 1 if pend else 0)) << SH) | (PB if pend else 0) | (q.DIRTY if dirty else 0) | 0x1000000000
                    old = new + q.WIDTH_INTERVAL
                    env = {l.id: w for l in wl}
                    env.update({("a", 1): old, ("a", 2): new, ("a", 3): OWNER})
                    r, env = concrete_walk(fn, env, lambda i: i.op == "ret")
                    v = ceval(fn, r.ops[0], {k_: v_ for k_, v_ in env.items() if not isinstance(v_, tuple)}) if r is not None and r.ops else None
                    if v is None:
                        rep.unknown(rid, "could not evaluate _dispatch_lane_non_barrier_complete_try_lock for width %d, %d reader(s) left" % (w, left))
                        continue
                    took = bool(v & q.IN_BARRIER)
                    want = left == 0
                    okv = took == want
                    if took and want:
                        okv = (v & WM) == q.WIDTH_FULL_BIT and not (v & q.DIRTY) and (v & OWNER) == OWNER and not (v & PB)
                    elif not took:
                        okv = okv and (v & ~q.ENQUEUED) == (new & ~q.ENQUEUED) and bool(v & q.ENQUEUED) == bool(dirty or (new & q.ENQUEUED))
                    rep.require(rid, okv, fn.file + ":" + str(fn.d.get("line")), fn.name, "last-reader-lock:%d:%d:%d:%d" % (w, left, pend, dirty),
                                "_dispatch_lane_non_barrier_complete_try_lock on a width-%d queue with %d reader(s) still running%s%s turns %#x into %#x: it must take "
                                "IN_BARRIER (full width, owner set, DIRTY and PENDING_BARRIER cleared) exactly when no reader is left - taking it with a reader still "
                                "running lets the next barrier start beside that reader" % (w, left, ", a parked barrier" if pend else "", ", DIRTY" if dirty else "", new, v),
                                sample={"width": w, "readers_left": left, "pending": bool(pend), "takes_barrier": want})


def rule_AI13(rep, prog, q):
    rid = rep.rule("C04-AI13", "the drainer's try-lock: _dispatch_queue_drain_try_lock, evaluated over queue widths, readers in flight and a parked barrier, takes the "
                   "drain lock only from a state whose width field is below FULL (nobody out of width, in particular no reader running beside a parked barrier's "
                   "pre-reserved slots), and takes IN_BARRIER with it exactly when no reader is in flight", floor=10)
    k = consts.get(["DISPATCH_QUEUE_WIDTH_FULL", "DISPATCH_QUEUE_WIDTH_SHIFT", "DISPATCH_QUEUE_PENDING_BARRIER"], srcdir=q.srcdir)
    FULL, SH, PB = k["DISPATCH_QUEUE_WIDTH_FULL"], k["DISPATCH_QUEUE_WIDTH_SHIFT"], k["DISPATCH_QUEUE_PENDING_BARRIER"]
    fn = prog.fn("_dispatch_queue_drain_try_lock")
    rep.saw(fn)
    wl = [l for l in fn.all_insts() if l.op == "load" and "dq_width" in prog.fields(l)]
    sl = [l for l in fn.all_insts() if l.op == "load" and (prog.fields(l) & DQ_STATE)]
    cx = [c for c in fn.all_insts() if c.op == "cmpxchg" and (prog.fields(c) & DQ_STATE)]
    me = calls_named(fn, "_dispatch_lock_value_for_self")
    if not wl or not sl or not cx or not me:
        rep.unknown(rid, "anchor vanished in _dispatch_queue_drain_try_lock (dq_width loads=%d, state loads=%d, cmpxchg=%d, owner=%d)" % (len(wl), len(sl), len(cx), len(me)))
        return
    OWNER = 0x1234
    for w in (2, 4):
        for inflight in (0, 1, 2):
            if inflight > w - 1:
                continue
            for pend in (0, 1):
                S = ((FULL - w + inflight + (w - 1 if pend else 0)) << SH) | (PB if pend else 0) | q.ENQUEUED
                env = {l.id: w for l in wl}
                env.update({l.id: S for l in sl})
                env.update({c.id: OWNER for c in me})
                env[("a", 1)] = 0
                hit, env = concrete_walk_any(fn, env, lambda i: i in cx or i.op == "ret")
                if hit is None:
                    rep.unknown(rid, "could not evaluate _dispatch_queue_drain_try_lock for width %d, %d in flight" % (w, inflight))
                    continue
                v = ceval(fn, hit.ops[2], {k_: v_ for k_, v_ in env.items() if not isinstance(v_, tuple)}) if hit.op == "cmpxchg" else None
                locked = v is not None and (v & OWNER) == OWNER
                barrier = locked and bool(v & q.IN_BARRIER)
                can = (S & ~(q.WIDTH_FULL_BIT - 1) & ((1 << 58) - 1) & ~0) < q.WIDTH_FULL_BIT and ((S >> SH) & 0x1fff) < FULL
                want_lock = ((FULL - w + inflight + (w - 1 if pend else 0)) < FULL)
                want_barrier = want_lock and inflight == 0
                rep.require(rid, locked == want_lock and barrier == want_barrier, fn.file + ":" + str(fn.d.get("line")), fn.name,
                            "drain-try-lock:%d:%d:%d" % (w, inflight, pend),
                            "_dispatch_queue_drain_try_lock on a width-%d queue with %d reader(s) in flight%s (state %#x) %s%s; expected %s%s: a drainer that locks the "
                            "queue as a barrier while a reader is still running starts the parked barrier beside that reader"
                            % (w, inflight, " and a parked barrier" if pend else "", S, "locks" if locked else "does not lock", " with IN_BARRIER" if barrier else "",
                               "lock" if want_lock else "no lock", " with IN_BARRIER" if want_barrier else ""),
                            sample={"width": w, "in_flight": inflight, "pending": bool(pend), "lock": want_lock, "barrier": want_barrier})


def rule_AI15(rep, prog, q):
    rid = rep.rule("C04-AI15", "the uncontended dispatch_barrier_sync fast path: _dispatch_queue_try_acquire_barrier_sync_and_suspend, evaluated for the idle state of a queue "
                   "with every single other dq_state bit added in turn, takes the barrier lock only from the exactly idle state (nothing enqueued, nothing pending, "
                   "nobody draining, not suspended: only the role bits may differ) - from any other state an earlier item exists that must run first", floor=40)
    fn = prog.fn("_dispatch_queue_try_acquire_barrier_sync_and_suspend")
    rep.saw(fn)
    k = consts.get(["DISPATCH_QUEUE_WIDTH_FULL", "DISPATCH_QUEUE_WIDTH_SHIFT"], srcdir=q.srcdir)
    FULL, SH = k["DISPATCH_QUEUE_WIDTH_FULL"], k["DISPATCH_QUEUE_WIDTH_SHIFT"]
    wl = [l for l in fn.all_insts() if l.op == "load" and "dq_width" in prog.fields(l)]
    sl = [l for l in fn.all_insts() if l.op == "load" and (prog.fields(l) & DQ_STATE)]
    cx = [c for c in fn.all_insts() if c.op == "cmpxchg" and (prog.fields(c) & DQ_STATE)]
    if not wl or not sl or not cx:
        rep.unknown(rid, "anchor vanished in _dispatch_queue_try_acquire_barrier_sync_and_suspend (width loads=%d state loads=%d cmpxchg=%d)" % (len(wl), len(sl), len(cx)))
        return
    for w in (1, 4):
        init = (FULL - w) << SH
        for role in (0, q.c["DISPATCH_QUEUE_ROLE_BASE_ANON"]):
            for bit in [None] + list(range(64)):
                extra = 0 if bit is None else (1 << bit)
                if extra & q.ROLE_MASK or (extra & init):
                    continue
                S = init | role | extra
                env = {l.id: w for l in wl}
                env.update({l.id: S for l in sl})
                env[("a", 1)] = 0x1234
                env[("a", 2)] = 0
                hit, env2 = concrete_walk(fn, env, lambda i: i in cx)
                took = hit is not None
                rep.require(rid, took == (extra == 0), fn.file + ":" + str(fn.d.get("line")), fn.name, "barrier-sync-fast-path:%d:%s" % (w, bit),
                            "_dispatch_queue_try_acquire_barrier_sync_and_suspend %s the barrier lock from state %#x (idle state of a width-%d queue%s): %s"
                            % ("takes" if took else "does not take", S, w, "" if bit is None else " plus bit %d" % bit,
                               "a dispatch_barrier_sync arriving while an earlier barrier is enqueued but its drainer has not locked the queue yet runs before that "
                               "barrier and the readers behind it" if took else "the uncontended fast path is lost"),
                            sample={"width": w, "bit": bit, "took": took})


def rule_MP16(rep, prog, q):
    rid = rep.rule("C04-MP16", "after a barrier, every non-barrier item the drainer starts is covered by a width unit: in _dispatch_lane_drain_non_barriers each item that "
                   "is handed on was first paid for - from the width the finished barrier held (owned_width--), by _dispatch_queue_reserve_sync_width for a "
                   "dispatch_sync reader (readers do not observe the limit but are still counted), or by a successful _dispatch_queue_try_acquire_async - "
                   "because each of them gives one unit back when it completes", floor=2)
    fn = prog.fn("_dispatch_lane_drain_non_barriers")
    rep.saw(fn)
    hand = calls_named(fn, ("_dispatch_non_barrier_waiter_redirect_or_wake", "_dispatch_continuation_redirect_push"))
    wl = [l for l in fn.all_insts() if l.op == "load" and "dq_width" in prog.fields(l)]
    ow = None
    for ph in fn.all_insts():
        if ph.op == "phi" and any(fn.inst(v) is not None and (fn.inst(v) in wl or (fn.inst(v).op in ("zext", "sext") and fn.inst(fn.inst(v).ops[0]) in wl)) for v, frm in ph.ops):
            ow = ph
    if len(hand) < 2 or ow is None:
        rep.unknown(rid, "_dispatch_lane_drain_non_barriers: hand-off sites / owned width counter not found (hand-offs=%d)" % len(hand))
        return
    def pays(i):
        if i.op == "call" and i.callee in ("_dispatch_queue_reserve_sync_width", "_dispatch_queue_try_acquire_async"):
            return True
        if i.op in ("add", "sub") and tuple(i.ops[0][:2]) == ("i", ow.id) and i.ops[1][0] == "c" and i.ops[1][1] in (1, (1 << 64) - 1, -1):
            return True
        return False
    res = paths.walk(fn, ow, lambda i: i in hand, avoid=pays)
    free = [r for r in res if r[0] == "hit"]
    rep.require(rid, not free, (free[0][1].loc if free else hand[0].loc), fn.name, "item-started-without-width",
                "_dispatch_lane_drain_non_barriers hands an item on (%s) on a path %s where no width unit was taken for it: when that item completes it returns a unit "
                "that was never added, the queue's in-use width is one too low while the item is still running, and the next barrier starts beside it"
                % (free[0][1].callee if free else "", free[0][3] if free else ""), sample={"hand_offs": len(hand), "paths": len(res)})
    rep.require(rid, any(pays(i) and i.op == "call" and i.callee == "_dispatch_queue_reserve_sync_width" for i in fn.all_insts()), hand[0].loc, fn.name,
                "no-sync-reader-reservation", "_dispatch_lane_drain_non_barriers never reserves width for a dispatch_sync reader past the limit")


def rule_AI17(rep, prog, q):
    rid = rep.rule("C04-AI17", "the pending-barrier reservation (PENDING_BARRIER + (width - 1) width units, parked in dq_state for the next barrier) is made at most once: every "
                   "place that adds it to the state - directly in a CAS, or by withholding it from the `owned` an unlock will subtract - does so only after finding "
                   "PENDING_BARRIER clear in a dq_state value it read. Made twice, the two PENDING_BARRIER bits carry into the width field and the queue is never "
                   "runnable again", floor=2)
    PB = q.PENDING_BARRIER
    n = 0
    for fn in prog.all_functions():
        for R in fn.all_insts():
            if R.op != "add":
                continue
            cs = [o for o in R.ops if o[0] == "c" and o[1] == PB]
            ms = [fn.inst(o) for o in R.ops if o[0] == "i"]
            if not cs or not any(m is not None and m.op in ("mul", "shl") and any(x[0] == "c" and x[1] in (q.WIDTH_INTERVAL, 41) for x in m.ops) for m in ms):
                continue
            def pb_clear_test(v):
                """v is an i1 that is true exactly when PENDING_BARRIER is clear in a dq_state value (returns polarity: True = v true means clear)"""
                i = fn.inst(v)
                pol = True
                while i is not None and i.op == "xor" and i.ops[1][0] == "c" and i.ops[1][1] == 1:
                    pol = not pol
                    i = fn.inst(i.ops[0])
                if i is None or i.op != "icmp" or i.d["pred"] not in ("eq", "ne") or not (i.ops[1][0] == "c" and i.ops[1][1] == 0):
                    return None
                a = fn.inst(i.ops[0])
                if a is None or a.op != "and" or not (a.ops[1][0] == "c" and a.ops[1][1] == PB):
                    return None
                return pol if i.d["pred"] == "eq" else (not pol)
            for U in fn.users(R):
                if U.op not in ("add", "sub"):
                    continue
                n += 1
                rep.saw(fn)
                ok = False
                for iid, tv in paths.dom_ctx(fn, U).truth.items():
                    t = fn.insts[iid]
                    pol = pb_clear_test(("i", t.id))
                    if pol is not None and tv == pol:
                        ok = True
                if not ok:
                    sels = [x for x in fn.users(U)]
                    ok = bool(sels) and all(x.op == "select" and pb_clear_test(x.ops[0]) is not None and
                                            tuple(x.ops[1 if pb_clear_test(x.ops[0]) else 2][:2]) == ("i", U.id) for x in sels)
                rep.require(rid, ok, U.loc, fn.name, "pending-barrier-reserved-unconditionally:%s" % fn.name,
                            "%s puts the pending-barrier reservation into the queue state without checking that it is not there already: a concurrent drainer whose "
                            "upgrade to a barrier failed (queue suspended / readers in flight) left the reservation in dq_state, and when it comes back still holding the "
                            "drain lock - its unlock failed on DIRTY - and stops in front of the same barrier because the queue was suspended again, the reservation is "
                            "made a second time: 2 x PENDING_BARRIER carries into the width field, 2 x (width - 1) + 1 units leak and the queue never runs again"
                            % fn.name, sample={"site": U.loc, "fn": fn.name})
    if n < 2:
        rep.unknown(rid, "fewer than 2 sites making the pending-barrier reservation found (%d)" % n)


def C02_carries(prog, q, fn, op):
    from .C02 import carries_barrier
    return carries_barrier(prog, q, fn, op)


def rule_SB18(rep, prog, q):
    rid = rep.rule("C04-SB18", "a dispatch_barrier_sync that has to wait is queued as a BARRIER: in the barrier entry (_dispatch_barrier_sync_f_inline) both flag words handed "
                   "to _dispatch_sync_f_slow - the one used for unlocking and the one stored in the queued waiter - carry DC_FLAG_BARRIER; a waiter queued without it is "
                   "released by the drainer together with the readers behind it and the barrier body overlaps them (the _f entry point passes no flags of its own)", floor=2)
    n = 0
    for fn in prog.all_functions():
        if "barrier_sync_f" not in fn.name:
            continue
        for c in calls_named(fn, "_dispatch_sync_f_slow"):
            for idx in (3, 5):
                if idx >= len(c.ops):
                    continue
                n += 1
                rep.saw(fn)
                rep.require(rid, C02_carries(prog, q, fn, c.ops[idx]), c.loc, fn.name, "barrier-waiter-queued-as-reader:%s:%d" % (fn.name, idx),
                            "%s hands _dispatch_sync_f_slow a flags word (argument %d) that does not carry DC_FLAG_BARRIER: a dispatch_barrier_sync_f that finds the "
                            "concurrent queue busy is enqueued as a reader, started together with the readers around it, and then unlocks the queue as a barrier it "
                            "never held" % (fn.name, idx), sample={"site": c.loc, "arg": idx})
    if n < 2:
        rep.unknown(rid, "no slow-path call found in the barrier sync entry (%d)" % n)


def rule_MP6(rep, prog, q):
    rid = rep.rule("C04-MP6", "dispatch_apply on a custom queue: every level whose width was reserved is relinquished with the same width expression after the work", floor=1)
    fn = prog.fn("_dispatch_apply_redirect")
    rep.saw(fn)
    res_ = calls_named(fn, "_dispatch_queue_try_reserve_apply_width")
    rel = calls_named(fn, "_dispatch_queue_relinquish_width")
    run_ = calls_named(fn, ("_dispatch_apply_f", "_dispatch_apply_serial"))
    ok = bool(res_) and len(rel) >= 2
    # after _dispatch_apply_f every path to exit passes a relinquish
    for c in calls_named(fn, "_dispatch_apply_f"):
        good, bad = fn.must_pass(c, rel)
        ok = ok and good
    rep.require(rid, ok, fn.file, fn.name, "apply-width-not-relinquished",
                "_dispatch_apply_redirect can return after _dispatch_apply_f without _dispatch_queue_relinquish_width: the reserved width is never "
                "returned and later barriers on the queue wait forever (or start early after an underflow)", sample={"reserve": len(res_), "relinquish": len(rel)})
    # the surplus handed back when a level grants less than asked for is taken from the levels ABOVE that level only: the walk stops AT the level
    # whose reservation just came back short (that level reserved only what it granted)
    for r in res_:
        lvl = root_ptr(fn, r.ops[0])
        early = [c for c in rel if fn.dominates(r, c) and not any(fn.inst_reaches(a, c) for a in calls_named(fn, "_dispatch_apply_f"))]
        for c in early:
            rep.require(rid, root_ptr(fn, c.ops[1]) == lvl, c.loc, fn.name, "apply-excess-relinquished-past-level",
                        "_dispatch_apply_redirect gives the surplus width back down to a queue other than the level that granted less (stop queue %s, level %s): "
                        "that level's in-use width is decremented by width it never reserved, so a barrier submitted during the apply starts while iterations "
                        "are still running" % (root_ptr(fn, c.ops[1]), lvl), sample={"relinquish": c.loc})


def rule_OD10(rep, prog, q):
    rid = rep.rule("C04-OD10", "the drainer converts barrier ownership into 'the whole width' with the width the queue has NOW: every dq_width value that feeds "
                   "`owned` in _dispatch_lane_drain is loaded after the last item it ran (a barrier item may have changed the width)", floor=2)
    fn = prog.fn("_dispatch_lane_drain")
    rep.saw(fn)
    callouts = calls_named(fn, ("_dispatch_continuation_pop_inline",))
    n = 0
    for m in fn.all_insts():
        if m.op != "mul" or not (m.ops[1][0] == "c" and m.ops[1][1] == q.WIDTH_INTERVAL):
            continue
        l = fn.inst(m.ops[0])
        while l is not None and l.op in ("zext", "trunc", "and", "lshr"):
            l = fn.inst(l.ops[0])
        if l is None or l.op != "load" or "dq_width" not in prog.fields(l):
            continue
        uses = []
        for u in fn.users(m):
            if u.op == "phi":
                # a phi uses the value on the edge it arrives by: the use point is the end of that predecessor block
                uses += [fn.blocks[frm].term for v, frm in u.ops if tuple(v[:2]) == ("i", m.id)]
            else:
                uses.append(u)
        uses = uses or [m]
        n += len(uses)
        stale = any(fn.inst_reaches(l, c) and fn.inst_reaches(c, u, avoid_insts=[l]) for c in callouts for u in uses)
        rep.require(rid, not stale, m.loc, fn.name, "owned-width-from-stale-dq_width",
                    "_dispatch_lane_drain computes the width it owns from a dq_width loaded BEFORE an item ran (load at %s): after a barrier item that changed the "
                    "width (dispatch_queue_set_width) the drainer gives back the old width and the queue's in-use count is permanently wrong - barriers start over "
                    "running items" % l.loc, sample={"load": l.loc, "use": m.loc})
    if n < 2:
        rep.unknown(rid, "fewer than 2 width-to-owned conversions found in _dispatch_lane_drain (%d)" % n)


# sites that take the barrier (full width + IN_BARRIER) lock without the generic "no width in use" guard, one reason each
BARRIER_TAKE_EXCEPTIONS = {
    "_dispatch_lane_non_barrier_complete_try_lock": "last reader: converts its own returned width; guard is width field == FULL exactly (C04-MP4)",
    "_dispatch_lane_non_barrier_complete": "same site seen through its inlined helper",
    "_dispatch_queue_try_upgrade_full_width": "drainer upgrade: accounts for the width it owns (C04-TR2)",
    "_dispatch_lane_drain_non_barriers": "re-acquire by the current barrier holder",
    "_dispatch_queue_set_bound_thread": "thread-bound queue creation",
    "_dispatch_queue_cleanup2": "main queue hand-over at main-thread exit",
    "_dispatch_workloop_push_waiter": "workloops are serial (width 1): no reader can be in flight",
    "_dispatch_queue_mgr_lock": "the manager queue is serial (width 1): runnable already means no width in use (guard shape checked by C02-TR1)",
    "dispatch_source_cancel_and_wait": "sources are serial (width 1): runnable already means no width in use (guard shape checked by C02-TR1)",
}


def rule_TR7(rep, prog, q, ts):
    import re
    from .C02 import is_acquire
    rid = rep.rule("C04-TR7", "writer exclusion at acquisition: every dq_state transition by which a thread takes the barrier lock of an unlocked queue "
                   "(owner := self, IN_BARRIER, full width) is guarded by 'no width in use' - state + (dq_width-1)*WIDTH_INTERVAL < WIDTH_FULL_BIT - "
                   "or by a pending barrier, or is an exact compare with the idle value", floor=4)
    pat = re.compile(r"\+ \(\(.+ - 1\) \* %#x\)\) ult %#x" % (q.WIDTH_INTERVAL, q.WIDTH_FULL_BIT))
    for t in ts:
        if isinstance(t, trans.GiveUp) or not is_acquire(q, t):
            continue
        if not (t.new.k1 & q.IN_BARRIER) or (t.old.k1 & q.IN_BARRIER):
            continue
        if t.origin in BARRIER_TAKE_EXCEPTIONS or t.fn.name in BARRIER_TAKE_EXCEPTIONS:
            continue
        rep.saw(t.fn)
        unused = any(pat.search(n) for n in t.old.notes)
        pending = bool(t.old.k1 & q.PENDING_BARRIER)
        exact = bool(t.old.eq_exprs)
        rep.require(rid, unused or pending or exact, t.where, t.origin, "barrier-take-with-readers:%s" % t.origin,
                    "%s takes the barrier lock on a path whose guards do not establish that no reader holds width (no 'state + (width-1)*INTERVAL < FULL' "
                    "test, no pending barrier, no exact idle compare): a dispatch_barrier_sync waiter at the head is handed the queue while readers "
                    "are still running" % t.origin, sample={"site": t.origin, "at": t.where, "guard": "unused-width" if unused else "pending-barrier" if pending else "exact"},
                    details={"guards": t.old.notes})


HANDOUTS = ("_dispatch_continuation_redirect_push", "_dispatch_non_barrier_waiter_redirect_or_wake")


def rule_MP8(rep, prog, q):
    rid = rep.rule("C04-MP8", "the concurrent drains hand an item out as a reader (redirect to the target / wake a sync reader) only after testing THAT item "
                   "with _dispatch_object_is_barrier since it became the current item - on every way into the loop, including re-entry after the DIRTY "
                   "re-check - and the barrier outcome never reaches a hand-out", floor=4)
    n = 0
    for name in ("_dispatch_lane_drain_non_barriers", "_dispatch_lane_drain"):
        fn = prog.fn(name)
        rep.saw(fn)
        hand = calls_named(fn, HANDOUTS)
        tests = calls_named(fn, "_dispatch_object_is_barrier")
        srcs = calls_named(fn, ("_dispatch_queue_pop_head", "_dispatch_queue_get_head")) + \
            [l for l in fn.all_insts() if l.op == "load" and "dq_items_head" in prog.fields(l)]
        if not hand or not tests or not srcs:
            rep.unknown(rid, "anchor vanished in %s (hand-outs=%d barrier tests=%d item sources=%d)" % (name, len(hand), len(tests), len(srcs)))
            continue
        # where a freshly obtained item becomes "the current item": the phis that merge it
        for s_ in srcs:
            merge = set()
            work, seen = [s_], set()
            while work:
                v = work.pop()
                if v.id in seen:
                    continue
                seen.add(v.id)
                for u in fn.users(v):
                    if u.op == "phi":
                        merge.add(u.block.id)
                    elif u.op in ("bitcast", "inttoptr", "ptrtoint"):
                        work.append(u)
            if not merge:
                continue
            n += 1
            # phase 1: from the point the item is obtained to the merge, untested; phase 2: from the merge to a hand-out, still untested
            bad = None
            for kind, inst, cx, path in paths.walk(fn, s_, lambda i: i.block.id in merge and i.idx == 0, avoid=lambda i: i in tests):
                if kind != "hit":
                    continue
                class _S: pass
                st = _S(); st.block = inst.block; st.idx = -1; st.loc = inst.loc
                for k2, i2, c2, p2 in paths.walk(fn, st, lambda i: i in hand, avoid=lambda i: i in tests, ctx=cx):
                    if k2 == "hit":
                        bad = (i2, path + p2)
                        break
                if bad:
                    break
            rep.require(rid, bad is None, s_.loc, fn.name, "reader-handout-without-barrier-test",
                        "%s: the item obtained at %s can become the current item and be handed out as a reader (%s, path %s) without having been tested for a "
                        "barrier: a barrier that just became the head runs alongside the readers handed out before it"
                        % (name, s_.loc, bad[0].loc if bad else "", bad[1] if bad else ""), sample={"fn": name, "source": s_.loc, "merged_in": sorted(merge)})
        for t in tests:
            n += 1
            ctx = paths.PathCtx(fn)
            ctx.truth[t.id] = True
            ctx.learn(("i", t.id), True)
            res = paths.walk(fn, t, lambda i: i in hand, avoid=lambda i: i in tests and i is not t, ctx=ctx)
            hits = [r for r in res if r[0] == "hit"]
            rep.require(rid, not hits, t.loc, fn.name, "barrier-outcome-reaches-handout",
                        "%s: the 'is a barrier' outcome of the test at %s still reaches a reader hand-out (%s)" % (name, t.loc, hits[0][1].loc if hits else ""),
                        sample={"fn": name, "test": t.loc})
    if n < 4:
        rep.unknown(rid, "fewer than 4 obligations formed (%d)" % n)


def rule_SB9(rep, prog, q):
    from .C06 import _ceval
    rid = rep.rule("C04-SB9", "classification agreement: every object type on which the library sets DQF_BARRIER_BIT (sources whose handler is a barrier "
                   "block, e.g. delayed dispatch_after) is classified by _dispatch_object_is_barrier through that flag, not by the early 'not a queue' exit", floor=1)
    k = consts.get(["DQF_BARRIER_BIT"])
    fn = prog.fn("_dispatch_object_is_barrier")
    rep.saw(fn)
    # who sets the flag, and on which object type
    stems = set()
    for f in prog.all_functions():
        for c in f.all_insts():
            if c.op == "call" and "_dispatch_queue_atomic_flags_set" in (c.callee or "") and len(c.ops) > 1 and c.ops[1][0] == "c" and (c.ops[1][1] & k["DQF_BARRIER_BIT"]):
                r = c.ops[0]
                i = f.inst(r)
                while i is not None and i.op in ("bitcast", "getelementptr"):
                    r = i.ops[0]
                    i = f.inst(r)
                ty = (f.params[r[1]][1] if r[0] == "a" else (i.d.get("ty", "") if i is not None else ""))
                for stem in ("source", "lane", "workloop", "mach", "queue"):
                    if "dispatch_%s_s" % stem in ty:
                        stems.add(stem)
    if not stems:
        rep.unknown(rid, "no site setting DQF_BARRIER_BIT found")
        return
    vts = []
    for u, m in prog.modules.items():
        for name, g in m.globals.items():
            if name.startswith("__OS_dispatch_") and name.endswith("_vtable") and g.get("init") and any("_%s" % st in name for st in stems):
                try:
                    vts.append((name, int(g["init"][2][0])))
                except Exception:
                    pass
    vts = sorted(set(vts))
    tl = [l for l in fn.all_insts() if l.op == "load" and "do_type" in prog.fields(l)]
    fl = [l for l in fn.all_insts() if l.op == "load" and "dq_atomic_flags" in prog.fields(l)]
    if not vts or len(tl) != 1 or len(fl) != 1:
        rep.unknown(rid, "anchor vanished: vtables=%d do_type loads=%d dq_atomic_flags loads=%d" % (len(vts), len(tl), len(fl)))
        return
    tl, fl = tl[0], fl[0]
    brs = [b for b in fn.all_insts() if b.op == "br" and b.ops and fn.inst(b.ops[0]) is not None and fn.inst(b.ops[0]).op == "icmp"
           and _ceval(fn, b.ops[0], tl, 0) is not None]
    if len(brs) != 1:
        rep.unknown(rid, "expected one branch on do_type in _dispatch_object_is_barrier, found %d" % len(brs))
        return
    br = brs[0]
    for name, v in vts:
        taken = br.block.succs[0 if _ceval(fn, br.ops[0], tl, v) else 1]
        reach = fn.reach_from_block(taken.id)
        rep.require(rid, fl.block.id in reach or fl.block.id == taken.id, br.loc, fn.name, "barrier-flag-ignored:%s" % name,
                    "_dispatch_object_is_barrier returns 'not a barrier' for objects of type %#x (%s) without looking at DQF_BARRIER_BIT, which the library sets on "
                    "such objects: a DISPATCH_BLOCK_BARRIER handler delivered through a source (delayed dispatch_after, timer) is admitted to a concurrent "
                    "queue as a reader" % (v, name), sample={"vtable": name, "do_type": hex(v)})


def run(rep, tier="quick", srcdir=None, only=None):
    prog, units = load(UNITS, tier, srcdir)
    rep.units = units
    q = Q(srcdir)
    ex = trans.Extractor(prog, tier)
    ex.compute_argbits()
    ts = []
    for fn in sorted(prog.all_functions(), key=lambda f: f.name):
        ts.extend(ex.transitions(fn, DQ_STATE))
    want = lambda r: only is None or r in only
    if want("C04-TR1"):
        rule_TR1(rep, prog, q, ts)
    if want("C04-TR2"):
        rule_TR2(rep, prog, q, ts)
    if want("C04-AI3"):
        rule_AI3(rep, prog, q)
    if want("C04-MP4"):
        rule_MP4(rep, prog, q, ts)
    if want("C04-SB5"):
        rule_SB5(rep, prog, q)
    if want("C04-SB11"):
        rule_SB11(rep, prog, q)
    if want("C04-AI12"):
        rule_AI12(rep, prog, q)
    if want("C04-AI13"):
        rule_AI13(rep, prog, q)
    if want("C01-MP15"):
        # the concurrent drainer that could not turn its slots into the barrier lock leaves with nothing owned (shared with C01)
        from . import C01
        C01.rule_MP15(rep, prog, q)
    if want("C04-MP6"):
        rule_MP6(rep, prog, q)
    if want("C04-AI15"):
        rule_AI15(rep, prog, q)
    if want("C04-MP16"):
        rule_MP16(rep, prog, q)
    if want("C04-AI17"):
        rule_AI17(rep, prog, q)
    if want("C04-SB18"):
        rule_SB18(rep, prog, q)
    if want("C03-MP2"):
        # a returning synchronous barrier unlocks only the levels it locked itself: completing a barrier the queue's own drainer still holds lets the readers'
        # fast paths in while the drainer runs the next barrier inline (shared with C03)
        from . import C03
        C03.rule_MP2(rep, prog, q)
    if want("C15-TB6"):
        # the barrier owner gives back exactly what taking the barrier added, at every completion site (shared with C15)
        from . import C15
        C15.rule_TB6(rep, prog, q)
    if want("C10-SB4"):
        # dispatch_apply's iterations count as (non-barrier) items of the queue only because the apply is submitted to it (shared with C10)
        from . import C10
        C10.rule_SB4(rep, prog)
    if want("C04-TR7"):
        rule_TR7(rep, prog, q, ts)
    if want("C04-MP8"):
        rule_MP8(rep, prog, q)
    if want("C04-SB9"):
        rule_SB9(rep, prog, q)
    if want("C04-OD10"):
        rule_OD10(rep, prog, q)
    if want("C05-WR3"):
        # a dispatch_barrier_sync waiter that is handed the barrier lock blocks on the thread event: it must not return before the hand-off (shared with C05)
        from . import C05
        C05.rule_WR3(rep, ir.Program(build.facts_for(["shims/lock"], srcdir=srcdir)))


def run_thorough(rep, srcdir=None, only=None):
    """cross-check: the universal (for-all-transitions) rules are re-evaluated on the module built WITH the always-inliner, where every
    inlined copy of a state transition appears in its caller's context (constant arguments folded, caller guards visible)"""
    if only:
        return
    facts = build.facts_for("all", mode="all", srcdir=srcdir)
    prog = ir.Program(facts)
    q = Q(srcdir)
    ex = trans.Extractor(prog, "thorough")
    ex.compute_argbits()
    ts = []
    for fn in sorted(prog.all_functions(), key=lambda f: f.name):
        ts.extend(ex.transitions(fn, DQ_STATE, plain=True))
    rep.extra["inlined_form_transitions"] = len(ts)
    n0 = len(rep.findings)
    sub = report_sub(rep)
    rule_TR1(sub, prog, q, ts, universal_only=True)
    merge_sub(rep, sub, 'C04-TR1i', 'C04-TR1 (guarded reader admission) re-evaluated on the fully inlined modules')


MANIFEST = {
    "technique": "atomic state-word transition extraction (bit-level abstract domain incl. additive deltas) + path / loop-carried-value rules on the concurrent drain + concrete evaluation of the barrier-flag plumbing of block objects over every (creation flag, caller flag) pair",
    "level": "every width-taking transition is checked for the reader-admission guard, the barrier upgrade and the last-reader hand-over for their "
             "protocol obligations, the drainer's owned-width bookkeeping on each hand-off edge, and the barrier flag plumbing of the API entry points; "
             "per-transition obligations hold for all interleavings; global width accounting over histories is not decided",
    "note": "trusts LLVM normalisation and cmpxchg atomicity; the width protocol of queue_internal.h is the oracle",
}
