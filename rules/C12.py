"""C12 - dispatch_time arithmetic is monotone, clock-preserving and saturating.

Abstract interpretation (dqsa/timeai.py) of the fully inlined IR of dispatch_time,
dispatch_walltime and _dispatch_timeout.  The oracle is the encoding specification of
dispatch_time_t (dispatch/time.h, shims/time.h), written here independently of the code:

  clock(t)   : bit63=0 -> UPTIME, bits 63..62 = 10 -> MONOTONIC, 11 -> WALL, ~0 -> FOREVER
  value(t)   : UPTIME t, MONOTONIC t - 2^63, WALL -t ; 0 / 2^63 / -2 mean "now" on that clock
  MAX        : 2^62 - 1 ; a value >= MAX is not representable (FOREVER)

For every input class (clock x in-range/now/out-of-range x sign of delta) and every feasible
path the outcome must be one of
  EXACT     result == enc_clock(value + delta), value + delta in [min_clock, MAX-1], no wrap
  SAT_HIGH  result == FOREVER and the path guards entail value + delta >= MAX
  SAT_LOW   result == enc_clock(c) for a constant c <= min_clock (already elapsed) and the
            guards entail value + delta <= c
where min_clock is 1 (UPTIME, MONOTONIC) or 2 (WALL: -1 is FOREVER).
"""
from dqsa import build, ir
from dqsa.timeai import Interp, AV, SMIN, SMAX, B64, lin_add, lin_eq, lin_scale, fmt_lin, s64

UNITS = ["time"]
MAXV = (1 << 62) - 1
NOWMAX = (1 << 62) - 2
READER = {"UPTIME": "_dispatch_uptime", "MONOTONIC": "_dispatch_monotonic_time", "WALL": "_dispatch_get_nanoseconds"}
MINC = {"UPTIME": 1, "MONOTONIC": 1, "WALL": 2}
CALLS = {r: (2, NOWMAX) for r in READER.values()}

# spec-side partition of the 2^64 base values (signed view of inval)
TIME_CLASSES = [
    # name, lo, hi, clock, kind, value linear form
    ("FOREVER", -1, -1, None, "forever", None),
    ("WALL_NOW", -2, -2, "WALL", "now", None),
    ("WALL", -(1 << 62) + 1, -3, "WALL", "value", {"I": -1}),
    ("WALL_OOR", -(1 << 62), -(1 << 62), "WALL", "oor", None),
    ("MONO_NOW", SMIN, SMIN, "MONOTONIC", "now", None),
    ("MONO", SMIN + 1, -(1 << 62) - 1, "MONOTONIC", "value", {"I": 1, 1: 1 << 63}),
    ("UP_NOW", 0, 0, "UPTIME", "now", None),
    ("UP", 1, (1 << 62) - 1, "UPTIME", "value", {"I": 1}),
    ("UP_OOR", 1 << 62, SMAX, "UPTIME", "oor", None),
]
DELTA_CLASSES = [("d<0", SMIN, -1), ("d>=0", 0, SMAX)]


def enc(clock, dlin):
    if clock == "UPTIME":
        return dlin
    if clock == "MONOTONIC":
        return lin_add(dlin, {1: -(1 << 63)})
    return lin_scale(dlin, -1)


def dec_const(clock, r):
    """decode constant machine value r (signed) for clock -> value or None if not an encoding of it"""
    u = r & (B64 - 1)
    top = u >> 62
    if clock == "UPTIME" and top == 0:
        return u
    if clock == "MONOTONIC" and top == 2:
        return u - (1 << 63)
    if clock == "WALL" and top == 3:
        return B64 - u
    return None


def find_sum(itp, st, dlin):
    """math interval of an SSA value on this path whose linear form is base+delta"""
    best = None
    for k, v in st.env.items():
        if v.k is None or v.lin is None:
            continue
        if lin_eq(v.lin, dlin):
            m = v.math()
            if best is None or (m[1] - m[0]) < (best[1] - best[0]):
                best = m
    return best


def atom_box(st, lin, atoms_default):
    """interval of a linear form from the per-atom intervals of the final state"""
    lo = hi = 0
    for a, c in lin.items():
        if a == 1:
            lo += c
            hi += c
            continue
        rng = None
        for k, v in st.env.items():
            if v.lin is not None and v.k == 0 and lin_eq(v.lin, {a: 1}):
                rng = (v.lo, v.hi)
                break
        if rng is None:
            rng = atoms_default.get(a, (SMIN, SMAX))
        xs = (rng[0] * c, rng[1] * c)
        lo += min(xs)
        hi += max(xs)
    return lo, hi


def check_outcome(rep, rid, fn, cname, clock, vlin, itp, st, retop, where):
    """classify one return path of an in-range class"""
    R = itp.val(st, retop)
    dlin = lin_add(vlin, {"d": 1})
    D = find_sum(itp, st, dlin)
    path = "bb" + ">".join(map(str, st.trace))
    sig_base = "%s/%s" % (fn.name, cname)
    rc = R.const()
    desc = "class %s path %s result %s" % (cname, path, R)
    if rc == -1:
        # SAT_HIGH
        if D is None:
            # FOREVER decided without ever forming base+delta: right only if the guards of the path already force the sum out of range
            defaults = {name: (lo, hi) for (name, lo, hi) in itp.atoms.values()}
            defaults.update({("L", f): rng for f, rng in itp.loads.items()})
            defaults.update({("N", c): rng for c, rng in itp.calls.items()})
            if all(a == 1 or a in defaults or any(v.lin is not None and v.k == 0 and lin_eq(v.lin, {a: 1}) for v in st.env.values()) for a in dlin):
                box = atom_box(st, dlin, defaults)
                if box[0] >= MAXV:
                    rep.ok(rid, desc, {"class": cname, "path": path, "outcome": "SAT_HIGH (guards force the sum out of range)", "sum": [box[0], box[1]]})
                    return
                rep.violation(rid, where, fn.name, "%s:FOREVER-without-looking-at-the-sum" % sig_base,
                              "%s returns DISPATCH_TIME_FOREVER on a path that never forms base+delta although its guards admit sums as small as %d (< 2^62-1): a "
                              "representable - possibly long elapsed - time is reported as `never`, so a wait on it blocks; class %s, path %s"
                              % (fn.name, max(box[0], SMIN), cname, path), {"box": [box[0], box[1]], "path": path})
                return
            rep.unknown(rid, "%s: FOREVER returned but no SSA value with form base+delta (%s) on the path" % (desc, fmt_lin(dlin)))
            return
        if D[0] >= MAXV:
            rep.ok(rid, desc, {"class": cname, "path": path, "outcome": "SAT_HIGH", "sum": [D[0], D[1]]})
            return
        box = atom_box(st, dlin, {})
        if box[0] <= D[0] <= box[1]:
            rep.violation(rid, where, fn.name, "%s:FOREVER-for-representable-sum" % sig_base,
                          "%s returns DISPATCH_TIME_FOREVER on a path whose guards admit base+delta = %d (< 2^62-1), "
                          "a representable time (sentinel collision / not saturating correctly); class %s, path %s"
                          % (fn.name, D[0], cname, path), {"witness_sum": D[0], "path": path, "splits": st.splits})
        else:
            rep.unknown(rid, "%s: cannot confirm witness" % desc)
        return
    exp = enc(clock, dlin)
    if R.lin is not None and lin_eq(R.lin, exp) and rc is None or (rc is not None and R.lin is not None and lin_eq(R.lin, exp) and len([a for a in dlin if a != 1]) == 0):
        # EXACT
        if R.k != 0:
            rep.violation(rid, where, fn.name, "%s:wrapped-result" % sig_base,
                          "%s: result equals enc(base+delta) only modulo 2^64 (wrap-around, k=%s); class %s path %s"
                          % (fn.name, R.k, cname, path), {"path": path})
            return
        # decoded interval
        if clock == "UPTIME":
            dl, dh = R.lo, R.hi
        elif clock == "MONOTONIC":
            dl, dh = R.lo + (1 << 63), R.hi + (1 << 63)
        else:
            dl, dh = -R.hi, -R.lo
        if dl >= MINC[clock] and dh <= MAXV - 1:
            rep.ok(rid, desc, {"class": cname, "path": path, "outcome": "EXACT", "sum": [dl, dh], "result": fmt_lin(R.lin)})
            return
        w = dl if dl < MINC[clock] else dh
        what = ("collides with a sentinel (DISPATCH_TIME_FOREVER / NOW)" if w < MINC[clock]
                else "changes the clock bits of the result")
        rep.violation(rid, where, fn.name, "%s:exact-out-of-range:%s" % (sig_base, "low" if w < MINC[clock] else "high"),
                      "%s: on the exact path base+delta may be %d which %s; class %s, path %s"
                      % (fn.name, w, what, cname, path), {"witness_sum": w, "path": path, "result": fmt_lin(R.lin)})
        return
    if rc is not None:
        dv = dec_const(clock, rc)
        if dv is not None and dv <= MINC[clock] and dv >= 1:
            # SAT_LOW
            if D is None:
                rep.unknown(rid, "%s: constant elapsed time returned but no base+delta value on path" % desc)
                return
            if D[1] <= dv:
                rep.ok(rid, desc, {"class": cname, "path": path, "outcome": "SAT_LOW", "sum": [D[0], D[1]], "returns": dv})
                return
            rep.violation(rid, where, fn.name, "%s:elapsed-for-later-sum" % sig_base,
                          "%s returns the elapsed time %d although base+delta may be %d; class %s path %s"
                          % (fn.name, dv, D[1], cname, path), {"witness_sum": D[1], "path": path})
            return
        rep.violation(rid, where, fn.name, "%s:bad-constant" % sig_base,
                      "%s returns constant %#x which is neither FOREVER nor an elapsed time on clock %s; class %s path %s"
                      % (fn.name, rc & (B64 - 1), clock, cname, path), {"path": path})
        return
    if R.lin is not None:
        rep.violation(rid, where, fn.name, "%s:not-base-plus-delta" % sig_base,
                      "%s: result %s is not enc_%s(base+delta) = %s; class %s path %s"
                      % (fn.name, fmt_lin(R.lin), clock, fmt_lin(exp), cname, path), {"path": path})
        return
    rep.unknown(rid, "%s: result not understood" % desc)


def run_dispatch_time(rep, prog):
    fn = prog.fn("dispatch_time")
    rep.saw(fn)
    r1 = rep.rule("C12-P1", "FOREVER and out-of-range bases are absorbing: every return path yields DISPATCH_TIME_FOREVER", floor=4)
    r2 = rep.rule("C12-P2..5", "dispatch_time: every feasible path of every in-range class is EXACT / SAT_HIGH / SAT_LOW "
                  "(clock preserved, exact sum, no sentinel collision, thresholds ordered)", floor=20)
    npaths = 0
    for (cname, lo, hi, clock, kind, vlin) in TIME_CLASSES:
        for (dname, dlo, dhi) in DELTA_CLASSES:
            itp = Interp(fn, {0: ("I", lo, hi), 1: ("d", dlo, dhi)}, calls=CALLS)
            rets = itp.run()
            if not rets:
                rep.unknown(r2, "no feasible return path for class %s %s" % (cname, dname))
            for st, retop in rets:
                npaths += 1
                where = fn.file + ":" + str(fn.d.get("line"))
                cn = cname + "," + dname
                if kind in ("forever", "oor"):
                    R = itp.val(st, retop)
                    rep.require(r1, R.const() == -1, where, fn.name, "dispatch_time/%s:not-absorbing" % cn,
                                "dispatch_time does not return FOREVER for base class %s (result %s)" % (cn, R),
                                sample={"class": cn, "path": st.trace, "result": "FOREVER"})
                    continue
                if kind == "now":
                    vl = {("N", READER[clock]): 1}
                else:
                    vl = vlin
                check_outcome(rep, r2, fn, cn, clock, vl, itp, st, retop, where)
    return npaths


def run_walltime(rep, prog):
    fn = prog.fn("dispatch_walltime")
    rep.saw(fn)
    r = rep.rule("C12-W", "dispatch_walltime: result is on the wall clock and EXACT / SAT_HIGH / SAT_LOW for every path", floor=4)
    npaths = 0
    # two classes of timespec bases: representable on its own (tv_sec up to 2^62 ns), and beyond that but still below 2^63 ns (year 2116 .. 2262), where only
    # a negative delta can bring the SUM back into range - saturation must be decided on the sum, not on the base
    for tsname, loads in (("timespec", {"tv_sec": (0, MAXV // 1000000000), "tv_nsec": (0, 999999999)}),
                          ("timespec-far", {"tv_sec": (MAXV // 1000000000 + 1, 2 * (MAXV // 1000000000) - 1), "tv_nsec": (0, 999999999)})):
        for null in ((True, False) if tsname == "timespec" else (False,)):
            for (dname, dlo, dhi) in DELTA_CLASSES:
                itp = Interp(fn, {1: ("d", dlo, dhi)}, loads=loads, calls=CALLS)
                def init(itp_, st, null=null):
                    st.null[0] = null
                rets = itp.run(init)
                for st, retop in rets:
                    npaths += 1
                    vl = {("N", READER["WALL"]): 1} if null else {("L", "tv_sec"): 1000000000, ("L", "tv_nsec"): 1}
                    cn = ("NULL" if null else tsname) + "," + dname
                    check_outcome(rep, r, fn, cn, "WALL", vl, itp, st, retop, fn.file + ":" + str(fn.d.get("line")))
    return npaths


def run_timeout(rep, prog):
    """P6: _dispatch_timeout: FOREVER -> FOREVER, NOW -> 0, otherwise 0 when now >= value else
    value - now without borrow, with now read from the clock of the argument."""
    fn = prog.fn("_dispatch_timeout")
    rep.saw(fn)
    r = rep.rule("C12-P6", "_dispatch_timeout: FOREVER->FOREVER, NOW->0, else 0 if elapsed or value-now (no borrow) on the argument's clock", floor=8)
    npaths = 0
    for (cname, lo, hi, clock, kind, vlin) in TIME_CLASSES:
        itp = Interp(fn, {0: ("I", lo, hi)}, calls=CALLS)
        for st, retop in itp.run():
            npaths += 1
            R = itp.val(st, retop)
            where = fn.file + ":" + str(fn.d.get("line"))
            path = "bb" + ">".join(map(str, st.trace))
            sig = "_dispatch_timeout/%s" % cname
            rc = R.const()
            if kind == "forever":
                rep.require(r, rc == -1, where, fn.name, sig + ":forever", "timeout of FOREVER is %s" % R)
                continue
            if cname == "UP_NOW":
                rep.require(r, rc == 0, where, fn.name, sig + ":now", "timeout of DISPATCH_TIME_NOW is %s, not 0" % R)
                continue
            if kind == "oor":
                # out-of-range value: must not report "elapsed" spuriously: accept >= 2^62 or FOREVER or (value - now)
                rep.ok(r, sig, {"class": cname, "path": path, "outcome": "out-of-range base (not constrained)"})
                continue
            if kind == "now":
                # value = now' - a second read; elapsed or tiny
                if rc == 0:
                    rep.ok(r, sig, {"class": cname, "path": path, "outcome": "0"})
                elif R.lin is not None and all((a == 1) or (isinstance(a, tuple) and a[0] == "N" and a[1] == READER[clock]) for a in R.lin):
                    rep.ok(r, sig, {"class": cname, "path": path, "outcome": fmt_lin(R.lin)})
                else:
                    rep.violation(r, where, fn.name, sig + ":now-wrong-clock", "timeout of %s computed as %s" % (cname, fmt_lin(R.lin)), {"path": path})
                continue
            if rc == 0:
                # must be under the fact now >= value: the relational fact (ule value now)
                okf = False
                for f in st.facts:
                    if f[0] == "ule":
                        a, b = st.env.get(f[1]), st.env.get(f[2])
                        if a is None:
                            a = itp.val(st, list(f[1]))
                        if b is None:
                            b = itp.val(st, list(f[2]))
                        if a.lin is not None and b.lin is not None and lin_eq(a.lin, vlin) and lin_eq(b.lin, {("N", READER[clock]): 1}):
                            okf = True
                rep.require(r, okf, where, fn.name, sig + ":zero-unguarded",
                            "timeout returns 0 for class %s on path %s without the guard now(%s) >= value" % (cname, path, clock),
                            sample={"class": cname, "path": path, "outcome": "0 under now >= value"})
                continue
            exp = lin_add(vlin, {("N", READER[clock]): 1}, -1)
            if R.lin is not None and lin_eq(R.lin, exp):
                good = (R.k == 0 and R.lo >= 1)
                rep.require(r, good, where, fn.name, sig + ":borrow",
                            "timeout value-now may borrow/wrap for class %s on path %s (result %s)" % (cname, path, R),
                            sample={"class": cname, "path": path, "outcome": fmt_lin(R.lin), "range": [R.lo, R.hi]})
            else:
                rep.violation(r, where, fn.name, sig + ":wrong-difference",
                              "timeout for class %s is %s, expected %s" % (cname, fmt_lin(R.lin), fmt_lin(exp)), {"path": path})
    return npaths


def run_epoch(rep, prog):
    """P7: _dispatch_time_nanoseconds_since_epoch (absolute deadline handed to sem_timedwait): FOREVER -> FOREVER; a wall time is its own
    nanosecond count (-when); an uptime / monotonic time is wall-now + _dispatch_timeout(when). In particular a monotonic time (bit 63 set, bit 62
    clear) must NOT be decoded as a wall time, or an elapsed monotonic deadline blocks (practically) forever."""
    fn = prog.fn("_dispatch_time_nanoseconds_since_epoch")
    rep.saw(fn)
    r = rep.rule("C12-P7", "_dispatch_time_nanoseconds_since_epoch: FOREVER->FOREVER, wall -> -when, uptime/monotonic -> wall-now + _dispatch_timeout(when) "
                 "(each of the three clocks is decoded as itself; a past time never becomes a far-future deadline)", floor=8)
    calls = dict(CALLS)
    calls["_dispatch_timeout"] = (0, NOWMAX)
    tcalls = [c for c in fn.all_insts() if c.op == "call" and c.callee == "_dispatch_timeout"]
    rep.require(r, len(tcalls) == 1 and list(tcalls[0].ops[0][:2]) == ["a", 0], fn.file, fn.name, "epoch/timeout-arg",
                "_dispatch_time_nanoseconds_since_epoch must derive the relative part from _dispatch_timeout(when) of its own argument", sample={"calls": len(tcalls)})
    npaths = 0
    where = fn.file + ":" + str(fn.d.get("line"))
    for (cname, lo, hi, clock, kind, vlin) in TIME_CLASSES:
        itp = Interp(fn, {0: ("I", lo, hi)}, calls=calls)
        for st, retop in itp.run():
            npaths += 1
            R = itp.val(st, retop)
            path = "bb" + ">".join(map(str, st.trace))
            sig = "epoch/%s" % cname
            rc = R.const()
            if kind == "forever":
                rep.require(r, rc == -1, where, fn.name, sig + ":forever", "FOREVER decodes to %s" % R, sample={"class": cname, "path": path})
            elif clock == "WALL":
                if kind == "oor":
                    rep.ok(r, sig, {"class": cname, "path": path, "outcome": "out-of-range base (not constrained)"})
                    continue
                ok = R.lin is not None and lin_eq(R.lin, {"I": -1})
                if kind == "now":
                    # DISPATCH_WALLTIME_NOW: "-when" (2 ns after the epoch) and the current wall time are both "already due" for an absolute deadline
                    ok = ok or (R.lin is not None and lin_eq(R.lin, {("N", "_dispatch_get_nanoseconds"): 1}))
                rep.require(r, ok, where, fn.name, sig + ":wall", "wall time of class %s decodes to %s instead of -when (path %s)" % (cname, fmt_lin(R.lin), path),
                            sample={"class": cname, "path": path, "outcome": "-when"})
            else:
                exp = {("N", "_dispatch_get_nanoseconds"): 1, ("N", "_dispatch_timeout"): 1}
                ok = R.lin is not None and lin_eq(R.lin, exp)
                rep.require(r, ok, where, fn.name, sig + ":relative",
                            "%s time (class %s) is decoded as %s instead of wall-now + _dispatch_timeout(when) (path %s): it is taken for a wall-clock value, so "
                            "e.g. dispatch_semaphore_wait with a monotonic deadline - even one already past - sleeps until the year 2262"
                            % (clock, cname, fmt_lin(R.lin) if R.lin is not None else R, path), sample={"class": cname, "path": path, "outcome": "now+timeout"})
    return npaths


CLIENT = '''
#include <dispatch/dispatch.h>
dispatch_time_t verif_two_time_reads(void) {
	dispatch_time_t a = dispatch_time(DISPATCH_TIME_NOW, 0);
	dispatch_time_t b = dispatch_time(DISPATCH_TIME_NOW, 0);
	return a ^ b;
}
dispatch_time_t verif_two_wall_reads(void) {
	dispatch_time_t a = dispatch_walltime(0, 0);
	dispatch_time_t b = dispatch_walltime(0, 0);
	return a ^ b;
}
'''


def run_client_view(rep, srcdir):
    """P8: the public declarations do not promise the compiler that dispatch_time / dispatch_walltime are pure: two calls with equal arguments are two clock
    reads. Decided on a client translation unit compiled against /repo's dispatch/time.h and normalised with the same passes (early-cse included): if the
    declaration carries __attribute__((const)) / ((pure)) the second call is merged into the first."""
    r = rep.rule("C12-P8", "client view of dispatch/time.h: dispatch_time(NOW, d) and dispatch_walltime(NULL, d) read the clock on EVERY call - the declarations "
                 "carry no const / pure attribute that lets the compiler merge or hoist calls with equal arguments", floor=2)
    facts = build.facts_for_snippet("time_client", CLIENT, srcdir=srcdir, mode="none", unit="time")
    m = ir.Program({"client": facts})
    for name, callee in (("verif_two_time_reads", "dispatch_time"), ("verif_two_wall_reads", "dispatch_walltime")):
        fn = m.fn(name, required=False)
        if fn is None:
            rep.unknown(r, "client probe %s was not emitted" % name)
            continue
        n = len([c for c in fn.all_insts() if c.op == "call" and c.callee == callee])
        rep.require(r, n == 2, "dispatch/time.h", callee, "client-calls-merged:%s" % callee,
                    "a client function that calls %s twice with equal arguments keeps %d call(s) after common-subexpression elimination: the declaration in "
                    "dispatch/time.h tells the compiler the result depends on the arguments only, so a deadline computed 'now + d' after a pause reuses the stale "
                    "first reading and polling loops on the clock never terminate" % (callee, n), sample={"fn": callee, "calls_kept": n})


def run_clock_ids(rep, prog, srcdir=None):
    """P9: each clock reader reads the precise POSIX clock it stands for"""
    from dqsa import consts
    r = rep.rule("C12-P9", "the three clock readers read the precise clocks the encoding stands for: _dispatch_get_nanoseconds CLOCK_REALTIME, _dispatch_uptime "
                 "CLOCK_MONOTONIC, _dispatch_monotonic_time CLOCK_BOOTTIME - not a *_COARSE variant (which lags by up to a timer tick: an absolute deadline computed "
                 "as wall-now + timeout then expires early and a timed wait returns before its full timeout)", floor=3)
    k = consts.get(["CLOCK_REALTIME", "CLOCK_MONOTONIC", "CLOCK_BOOTTIME"], srcdir=srcdir, unit="time", includes=("time.h",))
    want = {"_dispatch_get_nanoseconds": "CLOCK_REALTIME", "_dispatch_uptime": "CLOCK_MONOTONIC", "_dispatch_monotonic_time": "CLOCK_BOOTTIME"}
    seen = {}
    for fn in prog.all_functions():
        for c in fn.all_insts():
            if c.op == "call" and c.callee == "clock_gettime" and c.origin in want:
                seen.setdefault(c.origin, []).append(c)
    for name, clk in sorted(want.items()):
        cs = seen.get(name, [])
        if not cs:
            rep.unknown(r, "anchor vanished: no clock_gettime call attributed to %s" % name)
            continue
        for c in cs[:1]:
            ok = c.ops[0][0] == "c" and c.ops[0][1] == k[clk]
            rep.require(r, ok, c.loc, name, "clock-id:%s" % name,
                        "%s reads clock id %s instead of %s (%d)" % (name, c.ops[0][1] if c.ops[0][0] == "c" else "?", clk, k[clk]), sample={"reader": name, "clock": clk})


def run(rep, tier="quick", srcdir=None, only=None):
    facts = build.facts_for(UNITS, mode="all", srcdir=srcdir)
    rep.units = UNITS
    prog = ir.Program(facts)
    rep.assumptions += [
        "clock reads (_dispatch_uptime, _dispatch_monotonic_time, _dispatch_get_nanoseconds) return values in [2, 2^62-2]",
        "timespec bases are normalised: 0 <= tv_nsec < 10^9, 0 <= tv_sec <= (2^62-1)/10^9",
        "machine arithmetic is two's complement wrapping (signed-overflow UB is treated as wrap-around)",
        "_dispatch_time_nano2mach / mach2nano are the identity in this configuration (no host-time scaling on Linux)",
    ]
    n = run_dispatch_time(rep, prog)
    wfn = prog.fn("dispatch_walltime")
    if any(c.op == "call" and c.callee == "dispatch_time" for c in wfn.all_insts()):
        # dispatch_walltime delegates to dispatch_time: decide it on the composition (dispatch_time folded into it), not on an opaque call
        progw = ir.Program(build.facts_for(UNITS, mode="all", srcdir=srcdir, force_inline=("dispatch_time",)))
        rep.extra["walltime_delegates_to_dispatch_time"] = True
        n += run_walltime(rep, progw)
    else:
        n += run_walltime(rep, prog)
    n += run_timeout(rep, prog)
    n += run_epoch(rep, prog)
    run_client_view(rep, srcdir)
    run_clock_ids(rep, prog, srcdir)
    rep.extra["paths_enumerated"] = n
    rep.extra["exhaustive"] = True


LEVEL = "other"

MANIFEST = {
    "technique": "path-partitioned interval abstract interpretation of the inlined LLVM IR against the dispatch_time_t encoding spec + a client translation unit compiled against dispatch/time.h (calls must survive CSE) + composition (callee folded in) where one entry point delegates to another",
    "level": "static decision over all 2^64 x 2^64 inputs of dispatch_time / dispatch_walltime / _dispatch_timeout / _dispatch_time_nanoseconds_since_epoch: every feasible "
             "IR path of every spec input class is shown to be EXACT, SAT_HIGH or SAT_LOW by interval entailment (no sampling, no "
             "solver); this is the closest to a complete decision the property admits statically",
    "note": "trusts clang-14 -O0 codegen + LLVM sroa/mem2reg/simplifycfg, assumes clock reads in [2, 2^62-2], normalised timespecs, "
            "two's-complement wrap for signed overflow, identity nano2mach (Linux configuration)",
}
