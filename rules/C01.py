"""C01 - every submitted work item runs exactly once and none is stranded.

Necessary conditions of the DIRTY / ENQUEUED / drain-lock protocol (queue_internal.h) checked on
every atomic transition of dq_state, every MPSC push and every consumer of a failed unlock.
The end-to-end liveness statement is NOT decided (DESIGN.md section 4, C01)."""
from dqsa import trans, paths
from dqsa.build import AnalysisBroken
from .common import *

UNITS = ["queue", "source", "apply", "event/workqueue", "shims/yield"]

# functions allowed to write dq_state with a plain (non-atomic) store: the object is not yet / no longer shared
PLAIN_STORE_OK = {
    "_dispatch_queue_init": "constructor: object returned by _dispatch_object_alloc is not yet published",
    "_dispatch_queue_dispose": "destructor: last reference is gone, state poisoned with 0xdead",
    "_dispatch_queue_release_storage": "destructor (storage release)",
    "_dispatch_pthread_root_queue_create": "constructor of a private root queue",
}

# unlock sites that are allowed to release the lock without looking at DIRTY, with the reason
UNLOCK_EXCEPTIONS = {
    "_dispatch_queue_clear_bound_thread": "thread-bound (runloop/main) queues: owner tag only; caller wakes with MAKE_DIRTY",
    "_dispatch_queue_mgr_unlock": "returns dirty(old); its only caller polls when it was set",
}


def is_unlock(q, t):
    return t.kind in ("cas-loop", "cas", "rmw") and t.width == 64 and t.clears(q.OWNER) and (t.old.k0 & q.OWNER) != q.OWNER


def rule_TR1(rep, prog, ex, q, ts):
    rid = rep.rule("C01-TR1", "every dq_state transition that releases the drain lock is guarded by DIRTY==0, or the queue "
                   "is suspended, or it re-marks DIRTY/ENQUEUED; a give-up on DIRTY clears it with acquire and never reports 'unlocked'",
                   floor=12)
    r2 = rep.rule("C01-TR1w", "dq_state is written non-atomically only by constructors/destructors", floor=2)
    for t in ts:
        if isinstance(t, trans.GiveUp):
            continue
        rep.saw(t.fn)
        if t.kind == "store":
            # a store - atomic or not - overwrites whatever another thread changed since the value was read (a concurrent suspend / resume, DIRTY,
            # ENQUEUED, a width reservation ...): on a published object dq_state is only ever changed by atomic read-modify-write operations
            ok = t.fn.name in PLAIN_STORE_OK or t.origin in PLAIN_STORE_OK
            rep.classified(r2, t.origin, ok, t.where, t.fn.name, "plain-store:%s" % t.origin,
                           "store (%s) to dq_state in %s, which is not a constructor / destructor: the update is not a read-modify-write, so a concurrent "
                           "transition of the state word (suspend, resume, wakeup, width) that lands between the read and the store is lost"
                           % ("atomic " + t.order if t.order != "na" else "plain", t.fn.name))
            continue
        if not is_unlock(q, t):
            continue
        if t.origin in UNLOCK_EXCEPTIONS:
            continue
        dirty0 = bool(t.old.k0 & q.DIRTY)
        suspended = t.old.ulo >= q.NEEDS_ACTIVATION
        MARK = q.DIRTY | q.ENQUEUED | q.ENQUEUED_ON_MGR
        # DIRTY counts as a re-mark only when this transition itself ORs it in ("whoever holds the width / resumes the queue will look"): a DIRTY bit that is
        # merely carried over from the old state into an unlocked, un-enqueued new state is seen by nobody
        ENQ = q.ENQUEUED | q.ENQUEUED_ON_MGR
        carried = bool(t.new.om & q.DIRTY) or bool(t.old.k1 & q.DIRTY)
        dirty_ored = not carried and (t.sets(q.DIRTY) or any(m and (m & ~MARK) == 0 for m in t.new.someset))
        remark = dirty_ored or t.sets(q.ENQUEUED) or t.sets(q.ENQUEUED_ON_MGR) or any(m and (m & ~ENQ) == 0 for m in t.new.someset)
        kept_enq = (bool(t.old.k1 & (q.ENQUEUED | q.ENQUEUED_ON_MGR)) and (t.preserves(q.ENQUEUED) or t.preserves(q.ENQUEUED_ON_MGR))) or \
                   any((m & ~(q.ENQUEUED | q.ENQUEUED_ON_MGR)) == 0 and t.keeps_set(m) for m in t.old.some_set)
        ok = dirty0 or suspended or remark or kept_enq
        rep.require(rid, ok, t.where, t.origin, "unlock-without-dirty-check:%s" % t.origin,
                    "%s releases the drain lock (owner bits cleared) on a path where DIRTY may be set in the old state and "
                    "neither DIRTY nor ENQUEUED is set in the new state: an enqueue racing with this unlock is stranded "
                    "(path guards: %s)" % (t.origin, "; ".join(t.old.notes) or "none"),
                    sample={"site": t.origin, "at": t.where, "guards": t.old.notes[-4:], "new": repr(t.new)},
                    details={"guards": t.old.notes, "new": repr(t.new), "path": t.path})
    # give-up side: in every CAS loop that has an unlock path, the exit taken with DIRTY set must clear DIRTY (acquire)
    # on the same word and must not reach a 'return true' / success continuation of the unlock.
    by_site = {}
    for t in ts:
        by_site.setdefault(t.site.id if hasattr(t.site, "id") else None, []).append(t)
    for t in ts:
        if not isinstance(t, trans.GiveUp):
            continue
        fn = t.fn
        sibs = [x for x in ts if not isinstance(x, trans.GiveUp) and x.site is t.site]
        if not any(is_unlock(q, x) for x in sibs):
            continue
        if not (t.old.k1 & q.DIRTY):
            continue
        # the continuation block must contain an atomic xor/and clearing DIRTY with acquire semantics
        found = None
        b = t.to_block
        seen = set()
        while b is not None and b.id not in seen:
            seen.add(b.id)
            for i in b.insts:
                if i.op == "atomicrmw" and (prog.fields(i) & DQ_STATE):
                    opnd = i.ops[1]
                    if opnd[0] == "c" and opnd[1] == q.DIRTY and i.d["rmw"] in ("xor", "and") or \
                       (i.d["rmw"] == "and" and opnd[0] == "c" and not (opnd[1] & q.DIRTY)):
                        found = i
                        break
            if found or len(b.succs) != 1:
                break
            b = b.succs[0]
        ok = found is not None and ord_has_acquire(found.d["ord"])
        rep.require(rid, ok, t.site.loc, t.site.origin, "dirty-giveup-clear:%s" % t.site.origin,
                    "%s: the give-up taken when DIRTY is observed does not clear DIRTY with an acquire RMW before the "
                    "drainer looks at the queue again" % t.site.origin,
                    sample={"site": t.site.origin, "giveup": "DIRTY seen -> %s" % (found.d["rmw"] + " " + found.d["ord"] if found else None)})
        if found is not None:
            # ... and looks at the queue again before retrying the unlock: after DIRTY was consumed the same compare-exchange is reached again only through
            # something that re-examines the object (its wakeup function - which for a source re-reads the pending data and the cancel flags - or a fresh
            # read of the item list); a bare retry unlocks with the wake-up target computed BEFORE the racing enqueue / merge / cancel and strands it
            def looks(i):
                if i.op == "call":
                    if "icallee" in i.d and "dq_wakeup" in callee_slot(prog, i):
                        return True
                    return bool(i.callee) and ("wakeup" in i.callee or "drain" in i.callee or "invoke" in i.callee)
                return i.op == "load" and bool(prog.fields(i) & frozenset(["dq_items_head", "dq_items_tail", "dwl_heads", "dwl_tails"]))
            back = [r for r in paths.walk(fn, found, lambda i: i is t.site, avoid=looks) if r[0] in ("hit", "loop") and (r[0] == "hit" or fn.inst_reaches(r[1], t.site))]
            back = [r for r in back if r[0] == "hit" or not any(looks(i) for b_ in [r[1].block] for i in b_.insts)]
            hits = [r for r in back if r[0] == "hit"]
            rep.require(rid, not hits, found.loc, t.site.origin, "dirty-giveup-retries-blind:%s" % t.site.origin,
                        "%s: after consuming DIRTY the unlock compare-exchange is retried without the object having been looked at again (no wake-up function, no "
                        "fresh read of the item list on path %s): the state is then unlocked with the wake-up target decided before the racing enqueue / "
                        "dispatch_source_merge_data / cancel, which is left without anybody scheduled to deliver it" % (t.site.origin, hits[0][3] if hits else None),
                        sample={"site": t.site.origin})
        if found is not None and t.site.origin == "_dispatch_queue_drain_try_unlock" and fn.name == t.site.origin:
            # the function must return false on this path
            res = paths.walk(fn, found, lambda i: False)
            for kind, inst, ctx, path in res:
                if kind == "exit":
                    v = ctx.value(inst.ops[0]) if inst.ops else None
                    rep.require(rid, v == ("c", 0), inst.loc, fn.name, "dirty-giveup-returns-unlocked:%s" % fn.name,
                                "%s returns %s after observing DIRTY: the caller would treat the queue as unlocked and idle" % (fn.name, v),
                                sample={"site": fn.name, "giveup-returns": "false"})


def rule_MP2(rep, prog, q):
    rid = rep.rule("C01-MP2", "a failed drain unlock is honoured: the drainer re-invokes or hands the queue to invoke_finish; it never drops its reference directly", floor=1)
    fn = prog.fn("_dispatch_queue_class_invoke")
    rep.saw(fn)
    for c in calls_named(fn, "_dispatch_queue_drain_try_unlock"):
        edges = paths.branch_edges(fn, c)
        if not edges:
            rep.unknown(rid, "result of _dispatch_queue_drain_try_unlock is not branched on in %s" % fn.name)
            continue
        for br, s_true, s_false in edges:
            ctx = paths.PathCtx(fn)
            ctx.truth[c.id] = False
            if not ctx.enter(br.block, fn.blocks[s_false]):
                continue
            start = fn.blocks[s_false].insts[0]
            class _S:  # pseudo start "before first inst"
                pass
            s = _S(); s.block = fn.blocks[s_false]; s.idx = -1; s.loc = start.loc
            is_invoke = lambda i: i.op == "call" and ("icallee" in i.d and i.d["icallee"][0] == "a")
            is_finish = lambda i: i.op == "call" and i.callee == "_dispatch_queue_invoke_finish"
            res = paths.walk(fn, s, lambda i: i.op == "call" and i.callee in ("_dispatch_release_2_tailcall", "_dispatch_release_2", "_os_object_release_internal_n"),
                             avoid=lambda i: is_invoke(i) or is_finish(i), ctx=ctx)
            bad = [r for r in res if r[0] in ("hit", "exit")]
            rep.require(rid, not bad, c.loc, fn.name, "failed-unlock-dropped:%s" % fn.name,
                        "%s: after _dispatch_queue_drain_try_unlock fails (DIRTY was set) a path reaches %s without re-invoking the "
                        "drain or calling _dispatch_queue_invoke_finish: the re-enqueue is lost"
                        % (fn.name, bad[0][1].callee if bad and bad[0][0] == "hit" else "the function exit"),
                        sample={"fn": fn.name, "false-edge": "bb%d" % s_false, "paths": len(res)},
                        details={"path": bad[0][3] if bad else None})


def push_sites(prog, fns, tail_fields):
    for fn in fns:
        for i in fn.all_insts():
            if i.op == "atomicrmw" and i.d["rmw"] == "xchg" and (prog.fields(i) & tail_fields):
                yield fn, i


TAILS = frozenset(["dq_items_tail", "dwl_tails", "dgq_pending_tail"])


def first_push_check(rep, r3, prog, q, fn, start, ctx, origin, depth=0):
    """every path from `start` (an xchg that returned NULL, or a call of a wrapper that returned true)
    must reach a MAKE_DIRTY wakeup / DIRTY publication / poke"""
    def discharge(c):
        if c.op == "atomicrmw" and (prog.fields(c) & DQ_STATE) and c.d["rmw"] == "or" and c.ops[1][0] == "c" and (c.ops[1][1] & q.DIRTY):
            return ord_has_release(c.d["ord"])
        if c.op != "call":
            return False
        return c.callee in ("_dispatch_root_queue_poke", "_dispatch_root_queue_poke_and_wakeup")
    def wake(c):
        if c.op != "call":
            return False
        if "icallee" in c.d and ("dq_wakeup" in callee_slot(prog, c)):
            return True
        return c.callee in ("_dispatch_queue_wakeup", "_dispatch_lane_wakeup", "_dispatch_workloop_wakeup", "_dispatch_mgr_queue_wakeup",
                            "_dispatch_runloop_queue_wakeup", "_dispatch_main_queue_wakeup", "_dispatch_source_wakeup")
    def cas_dirty(c):
        return c.op == "cmpxchg" and bool(prog.fields(c) & DQ_STATE)
    res = paths.walk(fn, start, lambda c: wake(c) or cas_dirty(c), avoid=discharge, ctx=ctx)
    okall = True
    for kind, inst, cx, path in res:
        if kind == "hit" and inst.op == "call":
            fl_ = arg_const(fn, inst, 2, cx)
            if fl_ is None or not (fl_ & q.MAKE_DIRTY):
                okall = False
                rep.violation(r3, inst.loc, origin, "first-push-wakeup-without-MAKE_DIRTY:%s" % origin,
                              "%s (in %s): on the empty->non-empty edge the wakeup is called with flags %s lacking DISPATCH_WAKEUP_MAKE_DIRTY: "
                              "a drainer that is unlocking concurrently will not notice the item" % (origin, fn.name, hex(fl_) if fl_ is not None else "unknown"),
                              {"path": path})
        elif kind == "hit":
            # a CAS loop on dq_state: every commit path must OR DIRTY with release (checked on its transitions)
            ex = trans.Extractor(prog)
            tts = [t for t in ex.transitions(fn, DQ_STATE) if not isinstance(t, trans.GiveUp) and t.site is inst]
            gus = [t for t in ex.transitions(fn, DQ_STATE) if isinstance(t, trans.GiveUp) and t.site is inst]
            def acquires(t):
                return t.sets(q.IN_BARRIER) and (t.old.k0 & q.OWNER) == q.OWNER and any(m & q.OWNER for _, m in t.new.ors)
            bad = [t for t in tts if not ((t.sets(q.DIRTY) or acquires(t)) and ord_has_release(t.order))]
            if bad or gus:
                okall = False
                rep.violation(r3, inst.loc, origin, "first-push-cas-without-DIRTY:%s" % origin,
                              "%s (in %s): the state CAS reached from the empty->non-empty edge has a path that does not publish DIRTY with release "
                              "(or gives up)" % (origin, fn.name), {"path": path})
        elif kind == "exit":
            # wrapper returning "was empty"?
            v = cx.cond(inst.ops[0]) if inst.ops else None
            if v is True and depth < 2:
                callers = [(f2, c) for f2 in prog.all_functions() for c in f2.calls(fn.name)]
                if not callers:
                    okall = False
                    rep.violation(r3, inst.loc, origin, "first-push-result-unused:%s" % origin, "%s returns 'was empty' but has no caller" % fn.name)
                for f2, c in callers:
                    c2 = paths.PathCtx(f2)
                    c2.truth[c.id] = True
                    c2.nonnull.add(("i", c.id))
                    if not first_push_check(rep, r3, prog, q, f2, c, c2, "%s<-%s" % (f2.name, origin), depth + 1):
                        okall = False
                continue
            okall = False
            rep.violation(r3, start.loc, origin, "first-push-without-wakeup:%s" % origin,
                          "%s (in %s): a path from the empty->non-empty tail exchange returns without any wakeup / DIRTY marking / poke" % (origin, fn.name),
                          {"path": path})
    if okall and depth > 0:
        rep.ok(r3, origin, {"site": origin, "at": start.loc, "paths": len(res)})
    return okall


def rule_MP3_OD5(rep, prog, q):
    r3 = rep.rule("C01-MP3", "every MPSC push that finds the list empty (prev == NULL) reaches a wakeup with MAKE_DIRTY, an atomic OR of DIRTY "
                  "(release) on dq_state, or a root-queue poke", floor=6)
    r5 = rep.rule("C01-OD5", "MPSC publication order: next=NULL store dominates the tail exchange (release), which dominates the link store; "
                  "a consumer snapshot empties the tail with release", floor=6)
    n = 0
    for fn in list(prog.all_functions()):
        for i in fn.all_insts():
            if not (i.op == "atomicrmw" and i.d["rmw"] == "xchg"):
                continue
            fl = prog.fields(i)
            if not (fl & TAILS):
                continue
            n += 1
            rep.saw(fn)
            rep.require(r5, ord_has_release(i.d["ord"]), i.loc, i.origin, "tail-xchg-order:%s" % i.origin,
                        "tail exchange in %s is %s: the item's fields are not published before it becomes reachable" % (i.origin, i.d["ord"]),
                        sample={"site": i.origin, "xchg": i.d["ord"]})
            if i.ops[1][0] in ("c", "n"):
                # consumer snapshot (tail <- NULL), not a push. The head was emptied BEFORE the tail: once the tail reads NULL an enqueuer that finds it
                # empty writes the head blindly - a NULL store to the head made after the exchange clobbers that item (it is never run and the next drain
                # waits for a head that never appears)
                heads = [s_ for s_ in fn.all_insts() if s_.op == "store" and (prog.fields(s_) & frozenset(["dq_items_head", "dwl_heads", "dg_notify_head"]))
                         and s_.ops[0][0] in ("c", "n") and (s_.ops[0][0] == "n" or s_.ops[0][1] == 0)]
                late = [s_ for s_ in heads if fn.inst_reaches(i, s_) and not fn.inst_reaches(s_, i)]
                early = [s_ for s_ in heads if fn.dominates(s_, i)]
                if heads:
                    rep.require(r5, not late and bool(early), (late[0] if late else i).loc, i.origin, "snapshot-head-cleared-after-tail:%s" % i.origin,
                                "%s: the consumer snapshot clears the list head %s the tail exchange: the head must be NULL before the tail is, or a concurrent "
                                "enqueuer's first item - written into the head because it saw the empty tail - is overwritten by the late NULL store and stranded"
                                % (i.origin, "after" if late else "without a NULL store dominating"), sample={"site": i.origin, "xchg": i.loc})
                continue
            nxt = [s for s in fn.all_insts() if s.op == "store" and ("do_next" in prog.fields(s))
                   and s.ops[0][0] in ("c", "n") and (s.ops[0][0] == "n" or s.ops[0][1] == 0) and fn.dominates(s, i)]
            rep.require(r5, bool(nxt), i.loc, i.origin, "next-null-before-xchg:%s" % i.origin,
                        "%s: no store of NULL to do_next dominates the tail exchange: a consumer may follow a stale next pointer" % i.origin,
                        sample={"site": i.origin, "next=NULL": nxt[0].loc if nxt else None})
            links = [s for s in fn.all_insts() if s.op == "store" and s is not i and
                     (prog.fields(s) & frozenset(["do_next", "dq_items_head", "dwl_heads", "dgq_pending_head"])) and s.ops[0][0] not in ("c", "n")]
            for s in links:
                if fn.inst_reaches(s, i) and not fn.inst_reaches(i, s):
                    rep.violation(r5, s.loc, i.origin, "link-before-xchg:%s" % i.origin,
                                  "%s links the item (%s) before exchanging the tail" % (i.origin, s.loc))
            ctx = paths.PathCtx(fn)
            ctx.isnull.add(("i", i.id))
            ctx.consts[i.id] = 0
            if first_push_check(rep, r3, prog, q, fn, i, ctx, i.origin if i.origin == fn.name else "%s/%s" % (fn.name, i.origin)):
                rep.ok(r3, i.origin, {"site": fn.name, "at": i.loc})
    return n


def rule_TR4(rep, prog, ex, q, ts):
    rid = rep.rule("C01-TR4", "_dispatch_queue_wakeup / _dispatch_workloop_wakeup: with MAKE_DIRTY the state CAS never gives up and ORs DIRTY (release); "
                   "an idle, unsuspended, unlocked, not yet enqueued queue gets an enqueue bit", floor=4)
    for name in ("_dispatch_queue_wakeup", "_dispatch_workloop_wakeup"):
        fn = prog.fn(name)
        rep.saw(fn)
        mine = [t for t in ts if t.fn is fn]
        # identify the loop(s) whose guards mention the flags argument bit MAKE_DIRTY
        def md_known_clear(notes):
            return any((("& %s) eq 0" % hex(q.MAKE_DIRTY)) in n) or ("& 2) eq 0" in n) for n in notes)
        def md_known_set(notes):
            return any((("& %s) ne 0" % hex(q.MAKE_DIRTY)) in n) or ("& 2) ne 0" in n) for n in notes)
        for t in mine:
            if isinstance(t, trans.GiveUp):
                if not md_known_clear(t.old.notes):
                    rep.violation(rid, t.site.loc, name, "wakeup-giveup-with-MAKE_DIRTY:%s" % name,
                                  "%s: the CAS loop gives up on a path where flags may have MAKE_DIRTY: DIRTY is not published" % name,
                                  {"guards": t.old.notes})
                continue
            md = not md_known_clear(t.old.notes)
            if md:
                ok = t.sets(q.DIRTY) and ord_has_release(t.order)
                rep.require(rid, ok, t.where, name, "wakeup-make-dirty:%s" % name,
                            "%s: a wakeup whose flags may contain MAKE_DIRTY commits a state without DIRTY or without release ordering (order %s): the "
                            "enqueuer's item is invisible to a drainer that is unlocking concurrently" % (name, t.order),
                            sample={"fn": name, "guards": t.old.notes[-3:], "new": repr(t.new)})
            if name == "_dispatch_queue_wakeup" and md:
                idle = (t.old.uhi < q.NEEDS_ACTIVATION) and (t.old.k0 & q.OWNER) == q.OWNER and \
                       (t.old.k0 & q.ENQUEUED) and (t.old.k0 & q.ENQUEUED_ON_MGR)
                if idle:
                    rep.require(rid, t.sets(q.ENQUEUED) or t.sets(q.ENQUEUED_ON_MGR) or any(m and (m & ~(q.ENQUEUED | q.ENQUEUED_ON_MGR)) == 0 for m in t.new.someset), t.where, name, "wakeup-idle-not-enqueued",
                                "%s: old state idle (not suspended, unlocked, not enqueued) but the new state carries no enqueue bit: nobody will drain"
                                % name, sample={"fn": name, "idle->": repr(t.new)})


def rule_MP6(rep, prog, q):
    rid = rep.rule("C01-MP6", "root queue thread requests: a pending-thread reservation on dgq_pending is never left outstanding (every return after the "
                   "reservation is reached with the outstanding count known zero); the worker gives the pool thread back with release and re-pokes; the "
                   "drain re-pokes when more items follow", floor=4)
    fn = prog.fn("_dispatch_root_queue_poke_slow")
    rep.saw(fn)
    F = frozenset(["dgq_pending"])
    resv = [i for i in fn.all_insts() if (i.op == "atomicrmw" and i.d["rmw"] == "add" and (prog.fields(i) & F)) or (i.op == "cmpxchg" and (prog.fields(i) & F))]
    if not resv:
        rep.unknown(rid, "no reservation on dgq_pending found in _dispatch_root_queue_poke_slow")
    for r in resv:
        amount = r.ops[1] if r.op == "atomicrmw" else r.ops[2]
        # lineage of the outstanding count
        L = set()
        if amount[0] == "i":
            L.add(amount[1])
        changed = True
        while changed:
            changed = False
            for i in fn.all_insts():
                if i.id in L:
                    continue
                ops = [o[0] for o in i.ops] if i.op == "phi" else i.ops
                if i.op in ("phi", "select", "add", "sub", "zext", "sext", "trunc") and any(o[0] == "i" and o[1] in L for o in ops):
                    if i.op == "select":
                        ops = i.ops[1:]
                        if not any(o[0] == "i" and o[1] in L for o in ops):
                            continue
                    L.add(i.id)
                    changed = True
        ctx = paths.PathCtx(fn)
        if r.op == "cmpxchg":
            for u in fn.users(r):
                if u.op == "extractvalue" and u.d.get("idx") == [1]:
                    ctx.truth[u.id] = True
        res = paths.walk(fn, r, lambda i: False, ctx=ctx)
        bad = []
        for kind, inst, cx, path in res:
            if kind != "exit":
                continue
            if not any(cx.value(["i", v]) in (paths.NULL, ("c", 0)) for v in L):
                bad.append(path)
        rep.require(rid, not bad, r.loc, fn.name, "pending-reservation-leaked",
                    "_dispatch_root_queue_poke_slow returns after reserving thread requests on dgq_pending on a path where the outstanding request count was "
                    "not established to be zero (neither given back nor turned into threads): every later request sees 'still pending' and the pool never "
                    "grows again (path %s)" % (bad[0] if bad else None), sample={"reservation": r.loc, "exit_paths": len([x for x in res if x[0] == "exit"])})
    fn = prog.fn("_dispatch_worker_thread")
    rep.saw(fn)
    dec = [i for i in fn.all_insts() if i.op == "atomicrmw" and i.d["rmw"] == "sub" and (prog.fields(i) & F)]
    back = [i for i in fn.all_insts() if i.op == "atomicrmw" and i.d["rmw"] == "add" and "dgq_thread_pool_size" in prog.fields(i)]
    poke = calls_named(fn, ("_dispatch_root_queue_poke", "_dispatch_root_queue_poke_slow"))
    ok = len(dec) >= 1 and bool(back) and all(ord_has_release(b.d["ord"]) for b in back) and bool(poke) and all(any(fn.dominates(b, p) for b in back) for p in poke)
    rep.require(rid, ok, fn.file, fn.name, "worker-exit-protocol",
                "_dispatch_worker_thread must consume its pending request, give the thread back to dgq_thread_pool_size with release and then re-poke the "
                "queue (an item enqueued while the pool was exhausted would otherwise wait forever)", sample={"dec_pending": len(dec), "pool_inc": [b.d["ord"] for b in back], "pokes": len(poke)})
    fn = prog.fn("_dispatch_root_queue_drain_one")
    rep.saw(fn)
    poke = calls_named(fn, ("_dispatch_root_queue_poke",))
    rep.require(rid, bool(poke), fn.file, fn.name, "drain-one-repoke",
                "_dispatch_root_queue_drain_one must re-poke the root queue when it leaves more items behind", sample={"pokes": len(poke)})
    # every way of leaving a successor in dq_items_head (any store of a value that is not the constant NULL / mediator) is followed by the poke
    heads = [st for st in fn.all_insts() if st.op == "store" and "dq_items_head" in prog.fields(st) and st.ops[0][0] not in ("c", "n", "ce")]
    if not heads:
        rep.unknown(rid, "no store of a successor to dq_items_head in _dispatch_root_queue_drain_one")
    for st in heads:
        ok = bool(poke) and fn.must_pass(st, poke)[0]
        rep.require(rid, ok, st.loc, fn.name, "drain-one-successor-without-poke",
                    "_dispatch_root_queue_drain_one publishes a successor as the new head and can return without _dispatch_root_queue_poke: when the popped "
                    "item looked last but an appender won the tail race, neither side requests a worker and the appended item waits for an unrelated poke",
                    sample={"store": st.loc})
    fn = prog.fn("_dispatch_root_queue_poke")
    rep.saw(fn)
    probe = [i for i in fn.all_insts() if i.op == "call" and i.callee == "_dispatch_queue_class_probe"] + \
            [i for i in fn.all_insts() if i.op == "load" and "dq_items_tail" in prog.fields(i) and i.d.get("ord") == "seq_cst"]
    slow = calls_named(fn, "_dispatch_root_queue_poke_slow")
    rep.require(rid, bool(probe) and bool(slow), fn.file, fn.name, "poke-probe",
                "_dispatch_root_queue_poke must probe the tail before deciding not to request a thread", sample={"probes": len(probe), "slow": len(slow)})


def count_calls_on_paths(fn, match, bound=20000):
    """set of per-path counts of instructions satisfying `match` over all acyclic entry->return paths"""
    counts = set()
    work = [(fn.blocks[0], 0, (0,))]
    n = 0
    while work:
        b, c, path = work.pop()
        n += 1
        if n > bound:
            raise AnalysisBroken("path bound exceeded counting calls in %s" % fn.name)
        c += sum(1 for i in b.insts if match(i))
        t = b.term
        if t.op == "ret":
            counts.add(c)
            continue
        if t.op == "unreachable":
            continue
        for s_ in b.succs:
            if s_.id in path:
                continue
            work.append((s_, c, path + (s_.id,)))
    return counts


def rule_CC8(rep, prog, q):
    rid = rep.rule("C01-CC8", "no double invocation: exactly one client callout on every path of the inline invokers; an item is dispatched to exactly one of "
                   "dx_invoke / inline invoke; the sync slow paths run the work locally only when the remote drainer did not (dsc_func still set)", floor=4)
    is_callout = lambda i: i.op == "call" and i.callee in ("_dispatch_client_callout", "_dispatch_continuation_with_group_invoke", "_dispatch_client_callout2")
    for name in ("_dispatch_continuation_invoke_inline", "_dispatch_sync_function_invoke_inline"):
        fn = prog.fn(name)
        rep.saw(fn)
        cs = count_calls_on_paths(fn, is_callout)
        rep.require(rid, cs == {1}, fn.file + ":" + str(fn.d.get("line")), name, "callout-count:%s" % name,
                    "%s runs the client function %s time(s) depending on the path (must be exactly once)" % (name, sorted(cs)), sample={"fn": name, "counts": sorted(cs)})
    fn = prog.fn("_dispatch_continuation_pop_inline")
    rep.saw(fn)
    inv = lambda i: i.op == "call" and (i.callee in ("_dispatch_continuation_invoke_inline",) or ("icallee" in i.d and "do_invoke" in callee_slot(prog, i)))
    cs = count_calls_on_paths(fn, inv)
    rep.require(rid, cs == {1}, fn.file, fn.name, "pop-dispatch-count", "_dispatch_continuation_pop_inline invokes an item %s time(s) depending on the path (must be "
                "exactly one of dx_invoke / inline invoke)" % sorted(cs), sample={"counts": sorted(cs)})
    for name, local in (("_dispatch_sync_f_slow", "_dispatch_sync_invoke_and_complete_recurse"), ("_dispatch_async_and_wait_f_slow", "_dispatch_async_and_wait_invoke_and_complete_recurse")):
        fn = prog.fn(name)
        rep.saw(fn)
        wait = calls_named(fn, "__DISPATCH_WAIT_FOR_QUEUE__")
        loc = calls_named(fn, local)
        ok = bool(wait) and bool(loc)
        for c in loc:
            if not any(fn.inst_reaches(w, c) for w in wait):
                continue    # the inline (no wait) path
            cx = paths.dom_ctx(fn, c)
            f_set = False
            for iid, tv in cx.truth.items():
                ii = fn.insts[iid]
                if ii.op == "icmp" and ii.d["pred"] in ("eq", "ne") and any(o[0] == "n" for o in ii.ops):
                    l = fn.inst(ii.ops[0]) or fn.inst(ii.ops[1])
                    if l is not None and l.op == "load" and "dsc_func" in prog.fields(l) and any(fn.inst_reaches(w, l) for w in wait) and tv == (ii.d["pred"] == "ne"):
                        f_set = True
            ok = ok and f_set
        rep.require(rid, ok, fn.file, name, "local-run-after-remote-run:%s" % name,
                    "%s runs the work item locally after the wait without having found dsc_func still set: when the drainer already ran it (dsc_func == NULL) "
                    "the item would run twice" % name, sample={"fn": name, "local_calls": len(loc)})


ASYNC_ROOTS = ["dispatch_async", "dispatch_async_f", "dispatch_barrier_async", "dispatch_barrier_async_f", "dispatch_group_async", "dispatch_group_async_f"]
WORK_WAITS = ["_dispatch_thread_event_wait_slow", "_dispatch_sema4_wait", "_dispatch_sema4_timedwait", "_dispatch_wait_on_address", "__DISPATCH_WAIT_FOR_QUEUE__",
              "dispatch_semaphore_wait", "_dispatch_semaphore_wait_slow", "dispatch_group_wait", "_dispatch_group_wait_slow", "dispatch_sync", "dispatch_sync_f",
              "_dispatch_sync_f_slow", "dispatch_block_wait", "sem_wait", "sem_timedwait"]
WAIT_EXCEPTIONS = {"dispatch_once_f": "bounded one-time library initialisation", "_dispatch_once_wait": "same",
                   "_dispatch_temporary_resource_shortage": "thread-creation back-off (sleep), not a wait for a work item",
                   "_dispatch_client_callout": "client code", "_dispatch_client_callout2": "client code"}
PUSHERS = {"_dispatch_lane_push": "lane", "_dispatch_lane_concurrent_push": "concurrent lane", "_dispatch_root_queue_push": "global queue",
           "_dispatch_workloop_push": "workloop", "_dispatch_main_queue_push": "main queue", "_dispatch_mgr_queue_push": "manager queue",
           "_dispatch_runloop_queue_push": "runloop queue", "_dispatch_source_push": "source", "_dispatch_mach_push": "mach channel",
           "_dispatch_object_no_invoke": "not enqueueable (crashes)"}


def rule_WM9(rep, prog):
    from dqsa import callgraph
    rid = rep.rule("C01-WM9", "asynchronous submission never waits for work: no path in the call graph (closed over the vtable slots) from dispatch_async / "
                   "dispatch_barrier_async / dispatch_group_async to a blocking wait for a work item; every dq_push implementation is a classified pusher", floor=2)
    cg = callgraph.CallGraph(prog)
    roots = [r for r in ASYNC_ROOTS if r in cg.edges]
    if len(roots) < 4:
        rep.unknown(rid, "asynchronous entry points not found (%s)" % roots)
        return
    seen, pred = cg.reach(roots, stop=frozenset(WAIT_EXCEPTIONS))
    bad = [w for w in WORK_WAITS if w in seen]
    rep.require(rid, not bad, "src/queue.c", "dispatch_async", "async-reaches-wait:%s" % (bad[0] if bad else ""),
                "an asynchronous submission can reach the blocking wait %s via %s: dispatch_async would wait for another work item to run"
                % (bad[0] if bad else None, " -> ".join(cg.path(pred, bad[0])) if bad else None),
                sample={"roots": len(roots), "functions_reachable": len(seen), "vtable_slots": {k: len(v) for k, v in cg.slots.items() if k.startswith(("dq_", "do_"))}})
    pushers = cg.slots.get("dq_push", set())
    unk = sorted(p_ for p_ in pushers if p_ not in PUSHERS)
    rep.require(rid, not unk and len(pushers) >= 4, "src/init.c", "vtables", "unclassified-dq_push:%s" % (unk[0] if unk else ""),
                "dq_push implementation(s) %s are stored in a queue vtable but are not classified pushers (their wake-up obligations are not checked)" % unk,
                sample={"dq_push": sorted(pushers)})


def rule_AI11(rep, prog, q):
    from .C13 import linform
    rid = rep.rule("C01-AI11", "pool growth when every worker is blocked: the monitor's poke for a queue with pending work and NO runnable worker may grow the pool up to "
                   "the tracking limit (floor = target_runnable - WORKQ_MAX_TRACKED_TIDS), not merely to the oversubscription factor", floor=1)
    fn = prog.fn("_dispatch_workq_monitor_pools", required=False)
    if fn is None:
        rep.unknown(rid, "function _dispatch_workq_monitor_pools not found (internal workqueue not compiled?)")
        return
    rep.saw(fn)
    k = {"WORKQ_MAX_TRACKED_TIDS": consts.get(["DISPATCH_WORKQ_MAX_PTHREAD_COUNT"])["DISPATCH_WORKQ_MAX_PTHREAD_COUNT"]}   # WORKQ_MAX_TRACKED_TIDS is a file-local alias of it
    pokes = calls_named(fn, "_dispatch_root_queue_poke")
    tests = []
    for t in fn.all_insts():
        if t.op == "icmp" and t.d["pred"] in ("eq", "ne") and t.ops[1][0] == "c" and t.ops[1][1] == 0:
            l = fn.inst(t.ops[0])
            if l is not None and l.op == "load" and "num_runnable" in prog.fields(l):
                tests.append(t)
    if not tests or not pokes:
        rep.unknown(rid, "anchor vanished in _dispatch_workq_monitor_pools (num_runnable == 0 tests=%d, pokes=%d)" % (len(tests), len(pokes)))
        return
    # every way from "this queue has no runnable worker" to a poke carries floor = target_runnable - WORKQ_MAX_TRACKED_TIDS (the poke may be a
    # shared tail: the floor is then resolved along the path)
    n = 0
    for t in tests:
        ctx = paths.PathCtx(fn)
        ctx.truth[t.id] = (t.d["pred"] == "eq")
        for kind, inst, cx, path in paths.walk(fn, t, lambda i: i in pokes, ctx=ctx):
            if kind != "hit":
                continue
            n += 1
            lf = linform(fn, cx.resolve(inst.ops[2]))
            loads = [a_ for a_, co in lf.items() if isinstance(a_, tuple) and a_[0] == "i" and fn.insts[a_[1]].op == "load" and "target_runnable" in prog.fields(fn.insts[a_[1]]) and co == 1]
            const = lf.get(1, 0)
            if const >= 1 << 31:
                const -= 1 << 32
            ok = len(loads) == 1 and len(lf) == 2 and const == -k["WORKQ_MAX_TRACKED_TIDS"]
            rep.require(rid, ok, inst.loc, fn.name, "stalled-pool-floor",
                        "_dispatch_workq_monitor_pools pokes a queue whose workers are all blocked with floor %s instead of target_runnable - %d: the pool stops growing "
                        "at a small multiple of the CPU count, so when more items than that block on a later item of the same global queue the later item never runs"
                        % ({str(a_): co for a_, co in lf.items()}, k["WORKQ_MAX_TRACKED_TIDS"]), sample={"poke": inst.loc})
    if n < 1:
        rep.unknown(rid, "no poke reachable from a num_runnable == 0 outcome in _dispatch_workq_monitor_pools")


def rule_CP12(rep, prog, q):
    from .sync_common import rule_cas_progress
    rid = rep.rule("C01-CP12", "progress of every retried compare-exchange in the library (dq_state, list heads, pool counters, ...): a failed attempt is retried with "
                   "the value it returned or with a fresh load, never with the stale expected value", floor=10)
    n = rule_cas_progress(rep, rid, prog, fields=None)
    if n < 10:
        rep.unknown(rid, "fewer than 10 retried compare-exchanges found (%d)" % n)


def rule_MP14(rep, prog, q):
    rid = rep.rule("C01-MP14", "root-queue consumer: after taking the head with the MEDIATOR exchange, the head word is written with a plain store only by a thread that "
                   "got a real item (it then owns the list up to the tail); a thread that found the head NULL owns nothing - an enqueuer that saw an empty tail may "
                   "write the head at any moment - and gives the MEDIATOR back only by compare-exchange MEDIATOR -> NULL", floor=2)
    n = 0
    M64 = (1 << 64) - 1
    for fn in prog.all_functions():
        xs = [i for i in fn.all_insts() if i.op == "atomicrmw" and i.d["rmw"] == "xchg" and "dq_items_head" in prog.fields(i)
              and i.ops[1][0] == "c" and i.ops[1][1] == M64]
        for x in xs:
            rep.saw(fn)
            stores = [s_ for s_ in fn.all_insts() if s_.op == "store" and "dq_items_head" in prog.fields(s_)]
            for kind, inst, cx, path in paths.walk(fn, x, lambda i: i in stores or i is x):
                if kind != "hit" or inst is x:
                    continue
                n += 1
                v = cx.value(("i", x.id))
                owns = (("i", x.id) in cx.nonnull) and v is None or (isinstance(v, tuple) and v[0] == "c" and v[1] not in (0, M64))
                # the MEDIATOR case is excluded by the same switch / tests: reaching the store with the result known NULL or MEDIATOR, or not known non-NULL
                empty = v == paths.NULL or (isinstance(v, tuple) and v[0] == "c" and v[1] in (0, M64))
                rep.require(rid, not empty and (("i", x.id) in cx.nonnull), inst.loc, x.origin, "root-head-plain-store-without-item:%s" % x.origin,
                            "%s stores to dq_items_head with a plain store on a path where the MEDIATOR exchange returned %s (path %s): only the thread that obtained an "
                            "item may do that; with the head found NULL a concurrent enqueuer's `head = item` can land between the exchange and this store and is "
                            "overwritten - head NULL with a non-empty tail: the global queue never runs anything again"
                            % (x.origin, "NULL" if empty else "a value not established to be an item", path), sample={"site": x.origin, "store": inst.loc})
    if n < 2:
        rep.unknown(rid, "expected the two head restores of _dispatch_root_queue_drain_one, found %d" % n)


def rule_MP15(rep, prog, q):
    rid = rep.rule("C01-MP15", "the drainer's exit code tells the unlock whether the list may still hold items: the exit of _dispatch_lane_drain taken because no width "
                   "could be had (owned reduced to the enqueued bits only) returns WAIT_FOR_EVENT - not NONE, which means 'drained' and lets the unlock clear DIRTY "
                   "without looking, so that a reader returning its width no longer re-drives the queue and the items still listed wait for every in-flight item", floor=2)
    fn = prog.fn("_dispatch_lane_drain")
    rep.saw(fn)
    M64 = (1 << 64) - 1
    ENQ = q.ENQUEUED | q.ENQUEUED_ON_MGR
    n = 0
    for st in fn.all_insts():
        if st.op != "store" or list(st.d["ptr"]["base"][:2]) != ["a", 3]:
            continue
        v = fn.inst(st.ops[0])
        if v is None or v.op != "and" or not (v.ops[1][0] == "c" and v.ops[1][1] == ENQ):
            continue
        l = fn.inst(v.ops[0])
        if l is None or l.op != "load":
            continue
        n += 1
        for kind, inst, cx, path in paths.walk(fn, st, lambda i: False):
            if kind != "exit":
                continue
            r = cx.resolve(inst.ops[0])
            val = None
            if r[0] == "c":
                val = r[1]
            elif r[0] == "ce" and len(r) > 2 and isinstance(r[2], (list, tuple)) and r[2][0] == "c":
                val = r[2][1]
            elif r[0] == "n":
                val = 0
            rep.require(rid, val == M64, inst.loc, fn.name, "no-width-exit-reports-drained",
                        "_dispatch_lane_drain leaves through its 'no width available' exit returning %s instead of DISPATCH_QUEUE_WAKEUP_WAIT_FOR_EVENT: the caller takes "
                        "NONE for 'the list is empty' and unlocks with done = true" % (hex(val) if val is not None else r,), sample={"store": st.loc})
    # ... and conversely: on the way out with WAIT_FOR_EVENT the drainer reports that it owns nothing but the enqueued bits - the width it held was already
    # given back by the failed upgrade / acquisition; reporting `owned` again makes the unlock subtract it a second time (a parked barrier's reservation is
    # cancelled while PENDING_BARRIER stays set: the next drainer starts the barrier beside running readers)
    for b in fn.blocks:
        t = b.term
        if t.op != "ret" or not t.ops:
            continue
        ph = fn.inst(t.ops[0])
        incoming = [(v, frm) for v, frm in ph.ops] if ph is not None and ph.op == "phi" else [(t.ops[0], b.id)]
        for v, frm in incoming:
            val = v[1] if v[0] == "c" else (v[2][1] if v[0] == "ce" and len(v) > 2 and isinstance(v[2], (list, tuple)) and v[2][0] == "c" else None)
            if val != M64:
                continue
            sts = [st for st in fn.blocks[frm].insts if st.op == "store" and list(st.d["ptr"]["base"][:2]) == ["a", 3]]
            if not sts:
                rep.unknown(rid, "the WAIT_FOR_EVENT exit of _dispatch_lane_drain does not store *owned_ptr in its own block")
                continue
            n += 1
            last = fn.inst(sts[-1].ops[0])
            okm = last is not None and last.op == "and" and last.ops[1][0] == "c" and last.ops[1][1] == ENQ and fn.inst(last.ops[0]) is not None and fn.inst(last.ops[0]).op == "load"
            rep.require(rid, okm, sts[-1].loc, fn.name, "no-width-exit-reports-owned-width",
                        "_dispatch_lane_drain leaves with WAIT_FOR_EVENT reporting *owned_ptr = something other than (*owned_ptr & (ENQUEUED | ENQUEUED_ON_MGR)): the width "
                        "was already returned to dq_state on this path and is subtracted again by the unlock", sample={"store": sts[-1].loc})
    if n < 2:
        rep.unknown(rid, "the 'no width' exit of _dispatch_lane_drain (owned &= ENQUEUED | ENQUEUED_ON_MGR; return WAIT_FOR_EVENT) was not found from both sides (%d)" % n)


def rule_MP16(rep, prog, q):
    rid = rep.rule("C01-MP16", "run-loop serviced main queue: every poke of the main queue's wake-up handle is preceded by its lazy creation (dispatch_once on "
                   "_dispatch_main_q_handle_pred) - also on the path where the state compare-exchange gives up unchanged, which is the path every ordinary push "
                   "takes; a poke on a handle that does not exist yet is dropped, and the eventfd created later starts at 0: the items are never run", floor=1)
    from .sync_common import entry_point
    fn = prog.fn("_dispatch_runloop_queue_poke")
    rep.saw(fn)
    pokes = calls_named(fn, "_dispatch_runloop_queue_class_poke")
    inits = [c for c in fn.all_insts() if c.op == "call" and c.callee in ("dispatch_once_f", "_dispatch_once_f", "dispatch_once")
             and any(o[0] == "g" and "main_q_handle_pred" in str(o[1]) for o in c.ops)]
    ttests = [t for t in fn.all_insts() if t.op == "icmp" and t.d["pred"] in ("eq", "ne") and any(o[0] == "c" for o in t.ops)
              and fn.inst(t.ops[0]) is not None and "do_type" in (prog.fields(fn.inst(t.ops[0])) if fn.inst(t.ops[0]).op == "load" else set())]
    if not pokes or not inits:
        rep.unknown(rid, "anchor vanished in _dispatch_runloop_queue_poke (pokes=%d, handle initialisations=%d)" % (len(pokes), len(inits)))
        return
    for p_ in pokes:
        bare = []
        for kind, inst, cx, path in paths.walk(fn, entry_point(fn), lambda i: i is p_, avoid=lambda i: i in inits):
            if kind != "hit":
                continue
            # a path that established "not the main queue" needs no main-queue handle
            not_main = any(cx.truth.get(t.id) == (t.d["pred"] == "ne") for t in ttests)
            if not not_main:
                bare.append(path)
        rep.require(rid, not bare, p_.loc, fn.name, "main-queue-poke-before-handle-init",
                    "_dispatch_runloop_queue_poke can poke the main queue's handle on a path (%s) that has not passed the lazy creation of that handle: the wake-up for "
                    "'the main queue became non-empty' is dropped when work is submitted before the run loop first fetched the handle" % (bare[0] if bare else None),
                    sample={"poke": p_.loc})


def rule_CP13(rep, prog, q):
    from .sync_common import rule_cas_memoryless
    rid = rep.rule("C01-CP13", "every compare-exchange retry loop in the library is memoryless: besides the re-read word nothing computed by a failed attempt (a flag, "
                   "a decision 'nobody to wake') is carried into the attempt that succeeds on a different state", floor=10)
    n = rule_cas_memoryless(rep, rid, prog, fields=None, exceptions={
        "_dispatch_root_queue_poke_slow": "the thread request is clamped monotonically (remaining = min(remaining, can_request)) and each clamp returns the surplus "
                                          "to dgq_pending in the same iteration: carrying the clamped request is the intended behaviour"})
    if n < 10:
        rep.unknown(rid, "fewer than 10 compare-exchange retry loops found (%d)" % n)


def run(rep, tier="quick", srcdir=None, only=None):
    prog, units = load(UNITS, tier, srcdir)
    rep.units = units
    q = Q(srcdir)
    ex = trans.Extractor(prog, tier)
    ex.compute_argbits()
    ts = []
    for fn in sorted(prog.all_functions(), key=lambda f: f.name):
        ts.extend(ex.transitions(fn, DQ_STATE, plain=True))
    rep.extra["dq_state_transitions"] = len(ts)
    rep.extra["cas_paths_enumerated"] = ex.npaths
    want = lambda r: only is None or r in only
    if want("C01-TR1"):
        rule_TR1(rep, prog, ex, q, ts)
    if want("C01-MP2"):
        rule_MP2(rep, prog, q)
    if want("C01-MP3") or want("C01-OD5"):
        rule_MP3_OD5(rep, prog, q)
    if want("C01-TR4"):
        rule_TR4(rep, prog, ex, q, ts)
    if want("C01-MP6"):
        rule_MP6(rep, prog, q)
    if want("C01-CC8"):
        rule_CC8(rep, prog, q)
    if want("C01-WM9"):
        rule_WM9(rep, ir.Program(build.facts_for("all", srcdir=srcdir)))
    if want("C03-MP2"):
        # queues chained through target queues: the level-by-level acquire/release discipline (shared with C03)
        from . import C03
        C03.rule_MP2(rep, prog, q)
    if want("C03-MP8"):
        # width borrowed by a redirected item is returned on every level (shared with C03): a leaked unit strands later barriers / items
        from . import C03
        C03.rule_MP8(rep, prog, q)
    if want("C03-WL10"):
        # queues chained onto a workloop: draining more than one item must not fault on the anonymous wlh (shared with C03)
        from . import C03
        C03.rule_WL10(rep, prog, q)
    if want("C01-CP12") or want("C01-CP13"):
        allprog = ir.Program(build.facts_for("all", srcdir=srcdir))
        if want("C01-CP12"):
            rule_CP12(rep, allprog, q)
        if want("C01-CP13"):
            rule_CP13(rep, allprog, q)
    if want("C01-MP14"):
        rule_MP14(rep, prog, q)
    if want("C01-MP15"):
        rule_MP15(rep, prog, q)
    if want("C01-MP16"):
        rule_MP16(rep, prog, q)
    if want("C01-AI11"):
        rule_AI11(rep, ir.Program(build.facts_for(["event/workqueue"], srcdir=srcdir)), q)
    if want("C03-MP11"):
        from . import C03
        C03.rule_MP11(rep, prog, q)
    if want("C03-MP9"):
        # chained queues: the role bits that steer the sync hand-off follow the target the queue actually has (shared with C03)
        from . import C03
        C03.rule_MP9(rep, prog, q)
    if want("C03-MP5"):
        # chained queues: a waiter pushed down a hierarchy carries the lock kind of the level it is queued on, or that level is never released (shared with C03)
        from . import C03
        C03.rule_MP5(rep, prog, q)
    if want("C04-MP4"):
        # the last reader's hand-over: DIRTY when drain-locked, otherwise take over / enqueue (shared with C04)
        from . import C04
        C04.rule_MP4(rep, prog, q, ts)
    if want("C04-SB11"):
        # a barrier waiter must complete as a barrier: the block-object sync entry hands a DC_FLAG_BARRIER item to the barrier entry only (shared with C04)
        from . import C04
        C04.rule_SB11(rep, prog, q)
    if want("C04-AI17"):
        # ... nor may a reservation be parked in the state twice (shared with C04)
        from . import C04
        C04.rule_AI17(rep, prog, q)
    if want("C04-AI3"):
        # a width unit handed on with an item and ALSO kept by the drainer is returned twice: the width field underflows into the suspend bits and the
        # queue never drains again - items stranded behind a queue that looks suspended (shared with C04)
        from . import C04
        C04.rule_AI3(rep, prog, q)
    if want("C04-TR2"):
        # the barrier's width reservation is made once: a double reservation strands the barrier and everything queued behind it (shared with C04)
        from . import C04
        C04.rule_TR2(rep, prog, q, ts)
    if want("C05-WR3"):
        # sync callers are released only by a real hand-off (shared with C05)
        from . import C05
        p2 = ir.Program(build.facts_for(["shims/lock"], srcdir=srcdir))
        C05.rule_WR3(rep, p2)

def run_thorough(rep, srcdir=None, only=None):
    """cross-check: the universal (for-all-transitions) rules are re-evaluated on the module built WITH the always-inliner, where every
    inlined copy of a state transition appears in its caller's context (constant arguments folded, caller guards visible)"""
    if only:
        return
    facts = build.facts_for("all", mode="all", srcdir=srcdir)
    prog = ir.Program(facts)
    q = Q(srcdir)
    ex = trans.Extractor(prog, "thorough")
    ex.compute_argbits()
    ts = []
    for fn in sorted(prog.all_functions(), key=lambda f: f.name):
        ts.extend(ex.transitions(fn, DQ_STATE, plain=True))
    rep.extra["inlined_form_transitions"] = len(ts)
    n0 = len(rep.findings)
    sub = report_sub(rep)
    rule_TR1(sub, prog, ex, q, ts)
    merge_sub(rep, sub, 'C01-TR1i', 'C01-TR1 / TR1w re-evaluated on the fully inlined modules (every inlined copy in its caller\'s context)')


MANIFEST = {
    "technique": "atomic state-word transition extraction over LLVM IR (bit-level abstract domain) + must-pass-through / dominance rules on the CFG",
    "level": "every atomic transition of dq_state, every MPSC push and every consumer of a failed unlock in the library is checked against the "
             "DIRTY/ENQUEUED/drain-lock protocol obligations (necessary conditions for 'no item stranded'); holds for all interleavings because "
             "each obligation constrains a single atomic step; liveness/termination itself is not decided",
    "note": "trusts clang-14 -O0 IR + LLVM normalisation, the protocol of queue_internal.h as the oracle, atomicity of C11 RMW operations; "
            "kevent-workloop-only code compiled out in this configuration is not analysed",
}
