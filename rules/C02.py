"""C02 - serial queues run one item at a time, in submission order.

Decided: the acquisition-guard obligations of the drain lock on every dq_state transition, the exactness of the
barrier-sync fast path, strict head-pop discipline of the serial drain, and that sync waiters are never run by the
drainer. The mutual-exclusion theorem itself (which follows from these under the protocol) is not re-proved."""
from dqsa import trans, paths, build
from .common import *

UNITS = ["queue", "source", "apply"]

SELF_SYMS = ("call:_dispatch_lock_value_for_self", "call:_dispatch_tid_self", "call:_dispatch_lock_value_from_tid", "load:tid")

# acquiring sites that legitimately do not satisfy the generic guard, one reason each
ACQUIRE_EXCEPTIONS = {
    "_dispatch_queue_set_bound_thread": "thread-bound queue creation: tags the owner of a queue only its own thread drains",
    "_dispatch_queue_cleanup2": "main queue hand-over at main-thread exit",
    "_dispatch_workloop_push_waiter": "active workloops are serial and never suspended: guard is !drain_locked && !enqueued",
    "_dispatch_lane_non_barrier_complete_try_lock": "last reader converts the width it already holds (guard: width field == FULL after its own return)",
    "_dispatch_lane_non_barrier_complete": "same site seen through its inlined helper",
    "_dispatch_lane_drain_non_barriers": "re-acquire by the current holder (only reachable from barrier_complete with the lock held)",
}


def is_acquire(q, t):
    if t.kind not in ("cas-loop", "cas", "rmw") or t.width != 64:
        return False
    from_self = any((s or "").startswith(SELF_SYMS) and (m & q.OWNER) for s, m in t.new.ors)
    return from_self and not t.preserves(q.OWNER)


def rule_TR1(rep, prog, q, ts):
    rid = rep.rule("C02-TR1", "every dq_state transition that installs the caller as drain owner requires old: owner==0, not IN_BARRIER, "
                   "width not full, not suspended (after the transition's own resume delta), or an exact idle-value compare", floor=6)
    for t in ts:
        if isinstance(t, trans.GiveUp) or not is_acquire(q, t):
            continue
        rep.saw(t.fn)
        if t.origin in ACQUIRE_EXCEPTIONS or t.fn.name in ACQUIRE_EXCEPTIONS:
            continue
        resume_delta = 0
        for a in t.new.arith:
            if a[0] == "-" and a[3] == q.SUSPEND_INTERVAL:
                resume_delta = q.SUSPEND_INTERVAL
        owner0 = (t.old.k0 & q.OWNER) == q.OWNER
        unlocked_idle = owner0 and t.old.uhi - resume_delta < q.WIDTH_FULL_BIT and t.old.ulo >= resume_delta
        # exact compare against the idle value: the shape of that value is C02-TR2's obligation
        exact = bool(t.old.eq_exprs) and owner0 and t.origin == "_dispatch_queue_try_acquire_barrier_sync_and_suspend"
        rep.require(rid, unlocked_idle or exact, t.where, t.origin, "acquire-guard:%s" % t.origin,
                    "%s installs the caller as drain owner on a path whose guards do not exclude a current owner / IN_BARRIER / full width / "
                    "suspension in the old state (old known-zero bits %#x, range [%#x,%#x]): two threads could drain the same serial queue"
                    % (t.origin, t.old.k0, t.old.ulo, t.old.uhi),
                    sample={"site": t.origin, "at": t.where, "old_known_zero": hex(t.old.k0), "old_range": [hex(t.old.ulo), hex(t.old.uhi)]},
                    details={"guards": t.old.notes})


def rule_TR2(rep, prog, q, ex):
    rid = rep.rule("C02-TR2", "the barrier-sync fast path is a compare-exchange from exactly the idle value (full width available, role bits only): "
                   "no bit of the old state is masked out of the comparison", floor=1)
    fn = prog.fn("_dispatch_queue_try_acquire_barrier_sync_and_suspend")
    rep.saw(fn)
    ts = [t for t in ex.transitions(fn, DQ_STATE) if not isinstance(t, trans.GiveUp)]
    gus = [t for t in ex.transitions(fn, DQ_STATE) if isinstance(t, trans.GiveUp)]
    if not ts:
        rep.unknown(rid, "no dq_state transition found in %s" % fn.name)
    for t in ts:
        # which bits of old are NOT determined by the guard?  (free bits = neither known 0 nor known 1)
        free = q.ALL & ~(t.old.k0 | t.old.k1)
        # role bits and the width field may legitimately vary with the queue (they are compared against a value
        # computed from dq_width and the role bits of old itself)
        allowed = q.ROLE_MASK | (q.ALL & ~(q.WIDTH_INTERVAL - 1))
        bad = free & ~allowed
        rep.require(rid, bad == 0 and bool(t.old.eq_exprs), t.where, fn.name, "barrier-sync-fastpath-inexact",
                    "%s: the fast path commits although bits %#x of the old state are not compared (ENQUEUED / DIRTY / MAX_QOS / pending "
                    "barrier / suspend bits must be zero for the queue to be idle): a dispatch_sync may overtake queued work"
                    % (fn.name, bad), sample={"fn": fn.name, "free_bits": hex(free), "eq": t.old.eq_exprs[:1]})


def rule_drain(rep, prog, q):
    r3 = rep.rule("C02-OD3", "serial drain pops strictly from the head: the object invoked is the object handed to pop_head, which is the list "
                  "head or the previous item's successor", floor=2)
    r4 = rep.rule("C02-MP4", "a sync waiter found at the head by a (non thread-bound) drainer is never invoked by the drainer: the path stores "
                  "dic_barrier_waiter and leaves the loop", floor=1)
    fn = prog.fn("_dispatch_lane_drain")
    rep.saw(fn)
    callouts = calls_named(fn, "_dispatch_continuation_pop_inline")
    pops = calls_named(fn, "_dispatch_queue_pop_head")
    heads = calls_named(fn, "_dispatch_queue_get_head")
    if not callouts or not pops or not heads:
        rep.unknown(r3, "anchor vanished in _dispatch_lane_drain: callouts=%d pops=%d heads=%d" % (len(callouts), len(pops), len(heads)))
        return
    def roots(op, seen=None):
        """set of non-phi roots of a pointer value"""
        seen = seen if seen is not None else set()
        i = fn.inst(op)
        if i is None:
            return {tuple(op[:2])}
        if i.id in seen:
            return set()
        seen.add(i.id)
        if i.op == "phi":
            r = set()
            for v, frm in i.ops:
                r |= roots(v, seen)
            return r
        if i.op in ("bitcast", "inttoptr", "ptrtoint"):
            return roots(i.ops[0], seen)
        return {("i", i.id)}
    ok_roots = {("i", h.id) for h in heads} | {("i", p.id) for p in pops} | {("n",)}
    for c in callouts:
        rs = roots(c.ops[0])
        rep.require(r3, rs <= ok_roots, c.loc, fn.name, "callout-object-not-head",
                    "_dispatch_lane_drain invokes an object that is not the list head / successor of the previous item (sources: %s)" % sorted(rs - ok_roots),
                    sample={"callout": c.loc, "object_roots": len(rs)})
    for p in pops:
        same = any(fn.inst(p.ops[1]) is fn.inst(c.ops[0]) or roots(p.ops[1]) == roots(c.ops[0]) for c in callouts)
        rep.require(r3, same, p.loc, fn.name, "pop-head-object-differs",
                    "_dispatch_lane_drain pops a different object than the one it invokes", sample={"pop": p.loc})
    # MP4
    sw = calls_named(fn, "_dispatch_object_is_sync_waiter")
    if not sw:
        rep.unknown(r4, "no call of _dispatch_object_is_sync_waiter in _dispatch_lane_drain")
    for s in sw:
        TB = consts.get(["DISPATCH_INVOKE_THREAD_BOUND"])["DISPATCH_INVOKE_THREAD_BOUND"]
        tbtests = []
        for i in fn.all_insts():
            if i.op == "icmp" and i.d["pred"] in ("ne", "eq"):
                a = fn.inst(i.ops[0])
                if a is not None and a.op == "and" and a.ops[1][0] == "c" and a.ops[1][1] == TB and i.ops[1][0] == "c" and i.ops[1][1] == 0:
                    tbtests.append((i, i.d["pred"] == "ne"))
        ctx = paths.PathCtx(fn)
        ctx.truth[s.id] = True
        res = paths.walk(fn, s, lambda i: i.op == "call" and i.callee in ("_dispatch_continuation_pop_inline", "_dispatch_queue_pop_head"), ctx=ctx)
        bad = []
        for kind, inst, cx, path in res:
            if kind != "hit":
                continue
            # allowed only when the thread-bound flag is known set on this path (the bound thread runs its own waiter)
            allowed = any(cx.truth.get(i.id) == pol for i, pol in tbtests)
            if not allowed:
                bad.append((inst, path))
        stores = [x for x in fn.all_insts() if x.op == "store" and "dic_barrier_waiter" in prog.fields(x) and x.ops[0][0] != "n"]
        rep.require(r4, not bad and bool(stores), s.loc, fn.name, "sync-waiter-invoked-by-drainer",
                    "_dispatch_lane_drain: a sync waiter at the head reaches %s on a path where the drainer is not thread-bound: the "
                    "drainer would run (or drop) a dispatch_sync item while its submitter thread also runs it" % (bad[0][0].callee if bad else "?"),
                    sample={"is_sync_waiter": s.loc, "paths": len(res), "dic_barrier_waiter_store": stores[0].loc if stores else None})


def _is_width1_test(prog, fn, op):
    """(cond_inst, polarity) if op is `dq_width == 1` (polarity True) or `!= 1` (False)"""
    i = fn.inst(op)
    if i is None or i.op != "icmp" or i.d["pred"] not in ("eq", "ne"):
        return None
    for a, b in ((i.ops[0], i.ops[1]), (i.ops[1], i.ops[0])):
        if b[0] == "c" and b[1] == 1:
            x = fn.inst(a)
            while x is not None and x.op in ("zext", "sext", "trunc"):
                x = fn.inst(x.ops[0])
            if x is not None and x.op == "load" and "dq_width" in prog.fields(x):
                return i.d["pred"] == "eq"
    return None


def carries_barrier(prog, q, fn, op, depth=0, seen=None):
    """does the flags expression carry DC_FLAG_BARRIER whenever the queue's width is 1?"""
    BARRIER = q.c["DC_FLAG_BARRIER"]
    seen = seen if seen is not None else set()
    if op[0] == "c":
        return bool(op[1] & BARRIER)
    if op[0] == "a":
        if depth > 3:
            return False
        callers = [(f2, c) for f2 in prog.all_functions() for c in f2.calls(fn.name)]
        return bool(callers) and all(carries_barrier(prog, q, f2, c.ops[op[1]], depth + 1) for f2, c in callers)
    i = fn.inst(op)
    if i is None or i.id in seen:
        return False
    seen.add(i.id)
    if i.op == "or":
        return carries_barrier(prog, q, fn, i.ops[0], depth, seen) or carries_barrier(prog, q, fn, i.ops[1], depth, seen)
    if i.op == "and":
        for a, b in ((i.ops[0], i.ops[1]), (i.ops[1], i.ops[0])):
            if b[0] == "c":
                return bool(b[1] & BARRIER) and carries_barrier(prog, q, fn, a, depth, seen)
        return False
    if i.op in ("zext", "sext", "trunc", "bitcast"):
        return carries_barrier(prog, q, fn, i.ops[0], depth, seen)
    if i.op == "select":
        w = _is_width1_test(prog, fn, i.ops[0])
        if w is not None:
            return carries_barrier(prog, q, fn, i.ops[1] if w else i.ops[2], depth, seen)
        return carries_barrier(prog, q, fn, i.ops[1], depth, set(seen)) and carries_barrier(prog, q, fn, i.ops[2], depth, set(seen))
    if i.op == "phi":
        for v, frm in i.ops:
            pb = fn.blocks[frm]
            t = pb.term
            if t.op == "br" and len(t.d.get("succs", [])) == 2 and t.d["succs"][0] != t.d["succs"][1]:
                w = _is_width1_test(prog, fn, t.ops[0])
                if w is not None:
                    taken_true = t.d["succs"][0] == i.block.id
                    if taken_true != w:
                        continue     # edge taken only when width != 1: nothing to carry
            if not carries_barrier(prog, q, fn, v, depth, set(seen)):
                return False
        return True
    return False


def rule_OD6(rep, prog, q):
    rid = rep.rule("C02-OD6", "same-thread async -> sync order: a push that finds the list already non-empty does not touch dq_state by itself, so it must wake the "
                   "queue whenever dq_state shows no max QoS (no drain streak known to be under way - the first pusher may still be between publishing its item and "
                   "marking the queue DIRTY); otherwise dq_state is still pristine when the pusher's next dispatch_sync tries the uncontended lock and the sync "
                   "item overtakes the async item submitted before it", floor=9)
    fn = prog.fn("_dispatch_queue_need_override")
    rep.saw(fn)
    mq = calls_named(fn, "_dispatch_queue_max_qos")
    MQM = q.c["DISPATCH_QUEUE_MAX_QOS_MASK"]
    mqsh = (MQM & -MQM).bit_length() - 1
    stl = [l for l in fn.all_insts() if l.op == "load" and (prog.fields(l) & (DQ_STATE | {"dq_state_bits"}))]
    def word(l, m):
        w = (m << mqsh) | 0x1
        return (w >> 32) if (l.d.get("ty") == "i32" and "dq_state_bits" in prog.fields(l)) else w
    if len(mq) != 1 and not stl:
        rep.unknown(rid, "anchor vanished: _dispatch_queue_need_override neither calls _dispatch_queue_max_qos nor reads dq_state (%d)" % len(mq))
    else:
        for m in (0, 2, 4):
            for qos in (0, 2, 5):
                # the recorded max QoS is the helper's result, or (helper folded in) the MAX_QOS field of the dq_state word read here
                env = {mq[0].id: m, ("a", 1): qos} if len(mq) == 1 else dict([(l.id, word(l, m)) for l in stl] + [(("a", 1), qos)])
                r, env = concrete_walk(fn, env, lambda i: i.op == "ret")
                v = ceval(fn, r.ops[0], {k_: v_ for k_, v_ in env.items() if not isinstance(v_, tuple)}) if r is not None and r.ops else None
                want = (m == 0) or (m < qos)
                rep.require(rid, v is not None and bool(v) == want, fn.file + ":" + str(fn.d.get("line")), fn.name, "need-override:%d:%d" % (m, qos),
                            "_dispatch_queue_need_override(max_qos in dq_state = %d, pushed qos = %d) evaluates to %s, expected %s: %s"
                            % (m, qos, v, want, "with no max QoS recorded a non-first pusher must wake the queue - this is what makes dq_state differ from its idle "
                               "value before dispatch_async returns, so that the same thread's following dispatch_sync cannot take the uncontended fast path and "
                               "run ahead of the async item" if m == 0 else "an override is needed exactly when the pushed QoS exceeds the recorded one"),
                            sample={"max_qos": m, "qos": qos, "wake": want})
    fn = prog.fn("_dispatch_lane_push")
    rep.saw(fn)
    no = calls_named(fn, "_dispatch_queue_need_override")
    if not no:
        rep.unknown(rid, "anchor vanished: _dispatch_lane_push does not consult _dispatch_queue_need_override")
    wk = icalls_slot(prog, fn, "dq_wakeup") + calls_named(fn, ("_dispatch_queue_wakeup", "_dispatch_lane_wakeup"))
    for c in no:
        ctx = paths.PathCtx(fn)
        ctx.truth[c.id] = True
        res = paths.walk(fn, c, lambda i: False, avoid=lambda i: i in wk, ctx=ctx)
        exits = [r for r in res if r[0] == "exit"]
        rep.require(rid, not exits and bool(wk), c.loc, fn.name, "push-needs-override-without-wakeup",
                    "_dispatch_lane_push can return without dx_wakeup although _dispatch_queue_need_override asked for one (path %s)" % (exits[0][3] if exits else None),
                    sample={"wakeups": len(wk)})


def rule_TR7(rep, prog, q):
    rid = rep.rule("C02-TR7", "only the thread that has just TAKEN the barrier lock completes a barrier: where resume / the waiter push paths go on to "
                   "barrier-complete the queue (dx_wakeup with BARRIER_COMPLETE, _dispatch_lane_barrier_complete, _dispatch_workloop_barrier_complete) they have "
                   "established (old_state ^ new_state) & IN_BARRIER - the bit changed in their own transition - not merely that the new state is locked / in a "
                   "barrier (which is also true when ANOTHER thread, or this thread in an outer frame, holds it)", floor=3)
    BC = consts.get(["DISPATCH_WAKEUP_BARRIER_COMPLETE"], srcdir=q.srcdir)["DISPATCH_WAKEUP_BARRIER_COMPLETE"]
    n = 0
    for name in ("_dispatch_lane_resume", "_dispatch_lane_push_waiter", "_dispatch_workloop_push_waiter"):
        fn = prog.fn(name)
        rep.saw(fn)
        xt = []
        for t in fn.all_insts():
            if t.op == "icmp" and t.d["pred"] in ("eq", "ne") and t.ops[1][0] == "c" and t.ops[1][1] == 0:
                a = fn.inst(t.ops[0])
                if a is not None and a.op == "and" and a.ops[1][0] == "c" and a.ops[1][1] == q.IN_BARRIER:
                    x = fn.inst(a.ops[0])
                    if x is not None and x.op == "xor":
                        xt.append(t)
        direct = calls_named(fn, ("_dispatch_lane_barrier_complete", "_dispatch_workloop_barrier_complete"))
        wk = icalls_slot(prog, fn, "dq_wakeup") + calls_named(fn, ("_dispatch_lane_wakeup", "_dispatch_queue_wakeup", "_dispatch_workloop_wakeup"))
        cas = [i for i in fn.all_insts() if i.op == "cmpxchg" and (prog.fields(i) & DQ_STATE)]
        if not cas or not (direct or wk):
            rep.unknown(rid, "anchor vanished in %s (dq_state compare-exchanges=%d, completions=%d)" % (name, len(cas), len(direct) + len(wk)))
            continue
        claims = 0
        for c0 in cas:
            for kind, inst, cx, path in paths.walk(fn, c0, lambda i: i in direct or i in wk):
                if kind != "hit":
                    continue
                if inst in wk:
                    fl = cx.resolve(inst.ops[2])
                    fv = fl[1] if fl[0] == "c" else None
                    if fv is None:
                        bv = ceval(fn, fl, {})
                        fv = bv
                    if fv is None or not (fv & BC):
                        continue
                claims += 1
                ok = any(cx.truth.get(t.id) == (t.d["pred"] == "ne") for t in xt)
                rep.require(rid, ok, inst.loc, name, "barrier-complete-without-having-taken-the-lock:%s" % name,
                            "%s goes on to barrier-complete the queue (%s) on a path that did not establish (old_state ^ new_state) & IN_BARRIER (path %s): with a test "
                            "on the new state alone, a thread that resumes a queue it is running on (or pushes a waiter while another thread holds the barrier) unlocks "
                            "a queue that is still in use - the next item starts while the current one is running"
                            % (name, inst.callee or "dx_wakeup(BARRIER_COMPLETE)", path), sample={"fn": name, "at": inst.loc})
        if claims:
            n += 1
    if n < 3:
        rep.unknown(rid, "expected barrier-completion claims in resume and both waiter pushes, recognised %d" % n)


def rule_TB8(rep, q):
    import re, os
    rid = rep.rule("C02-TB8", "flag spaces: the wake-up flags (DISPATCH_WAKEUP_*) and the continuation flags (DC_FLAG_*) are pairwise distinct single bits - two names "
                   "sharing a bit make one request mean the other (a dispatch_block_wait wake-up taken for BARRIER_COMPLETE unlocks a queue its caller does not own)",
                   floor=12)
    src = q.srcdir or os.path.join(build.REPO if hasattr(build, "REPO") else "/repo", "src")
    names = []
    for fname, pat in (("object_internal.h", r"\b(DISPATCH_WAKEUP_[A-Z0-9_]+)\s*="), ("queue_internal.h", r"#define\s+(DC_FLAG_[A-Z0-9_]+)\s+0x")):
        try:
            txt = open(os.path.join(src, fname)).read()
        except OSError:
            rep.unknown(rid, "anchor vanished: %s not readable" % fname)
            continue
        names += [m for m in re.findall(pat, txt) if "MASK" not in m]
    names = sorted(set(names))
    if len(names) < 12:
        rep.unknown(rid, "fewer than 12 flag names found (%d)" % len(names))
        return
    vals = consts.get(names, srcdir=q.srcdir)
    for space in ("DISPATCH_WAKEUP_", "DC_FLAG_"):
        mine = {n_: vals[n_] for n_ in names if n_.startswith(space)}
        for n_, v in sorted(mine.items()):
            clash = sorted(m for m, w in mine.items() if m != n_ and (w & v))
            rep.require(rid, v != 0 and (v & (v - 1)) == 0 and not clash, "src/%s" % ("object_internal.h" if space.startswith("DISPATCH") else "queue_internal.h"), n_,
                        "flag-collision:%s" % n_, "%s = %#x %s" % (n_, v, ("shares a bit with %s" % ", ".join(clash)) if clash else "is not a single bit"),
                        sample={"flag": n_, "value": hex(v)})


def rule_barrier_flag(rep, prog, q):
    """sync-style submissions to a width-1 queue always take the barrier path"""
    rid = rep.rule("C02-SB5", "the dc_flags reaching _dispatch_async_and_wait_recurse carry DC_FLAG_BARRIER whenever the queue's dq_width is 1 "
                   "(traced back through callers and phi/select on the width test)", floor=2)
    sink = "_dispatch_async_and_wait_recurse"
    n = 0
    for fn in prog.all_functions():
        for c in fn.calls(sink):
            if fn.name == sink:
                continue
            n += 1
            rep.saw(fn)
            ok = carries_barrier(prog, q, fn, c.ops[3])
            rep.require(rid, ok, c.loc, fn.name, "async-and-wait-flags-without-barrier:%s" % fn.name,
                        "%s passes dc_flags to %s that do not carry DC_FLAG_BARRIER on width-1 queues on every caller path: "
                        "a serial queue would admit the item as a non-barrier (concurrent) sync" % (fn.name, sink),
                        sample={"call": c.loc, "in": fn.name})


def rule_MP10(rep, prog, q):
    rid = rep.rule("C02-MP10", "the main queue is never drained re-entrantly: _dispatch_main_queue_callback_4CF drains only after finding its `already draining` flag "
                   "clear, and clears the flag only in the invocation that set it (a nested call made from inside a main-queue item must leave the outer drain's "
                   "flag alone)", floor=2)
    fn = prog.fn("_dispatch_main_queue_callback_4CF")
    rep.saw(fn)
    drains = calls_named(fn, "_dispatch_main_queue_drain")
    flag_loads = [l for l in fn.all_insts() if l.op == "load" and "dq_side_suspend_cnt" in prog.fields(l)]
    stores = [st for st in fn.all_insts() if st.op == "store" and "dq_side_suspend_cnt" in prog.fields(st)]
    if not drains or not flag_loads or not stores:
        rep.unknown(rid, "_dispatch_main_queue_callback_4CF: drain call / guard flag not found (drain=%d loads=%d stores=%d)" % (len(drains), len(flag_loads), len(stores)))
        return
    def found_clear(at):
        """on every path to `at` the flag was observed to be zero"""
        for iid, tv in paths.dom_ctx(fn, at).truth.items():
            t = fn.insts[iid]
            if t.op != "icmp" or t.d["pred"] not in ("eq", "ne"):
                continue
            for a, b in ((t.ops[0], t.ops[1]), (t.ops[1], t.ops[0])):
                if b[0] == "c" and b[1] == 0:
                    x = fn.inst(a)
                    while x is not None and x.op in ("zext", "trunc", "and"):
                        x = fn.inst(x.ops[0])
                    if x in flag_loads and tv == (t.d["pred"] == "eq"):
                        return True
        return False
    for c in drains:
        rep.require(rid, found_clear(c), c.loc, fn.name, "main-drain-reentered",
                    "_dispatch_main_queue_callback_4CF can call _dispatch_main_queue_drain without having found the `already draining` flag clear: a main-queue item "
                    "that services the run loop re-enters the drain and a later item runs inside it, before items submitted earlier", sample={"drain": c.loc})
    for st in stores:
        if st.ops[0][0] == "c" and st.ops[0][1] == 0:
            rep.require(rid, found_clear(st), st.loc, fn.name, "nested-call-clears-outer-flag",
                        "_dispatch_main_queue_callback_4CF clears the `already draining` flag on a path where it had found it set: the nested call wipes the flag of the "
                        "drain it is nested in, so the NEXT nested call drains the main queue re-entrantly (an item runs inside another, out of order)",
                        sample={"store": st.loc})


def run(rep, tier="quick", srcdir=None, only=None):
    prog, units = load(UNITS, tier, srcdir)
    rep.units = units
    q = Q(srcdir)
    ex = trans.Extractor(prog, tier)
    ex.compute_argbits()
    ts = []
    for fn in sorted(prog.all_functions(), key=lambda f: f.name):
        ts.extend(ex.transitions(fn, DQ_STATE))
    rep.extra["dq_state_transitions"] = len(ts)
    want = lambda r: only is None or r in only
    if want("C02-TR1"):
        rule_TR1(rep, prog, q, ts)
    if want("C02-TR2"):
        rule_TR2(rep, prog, q, ex)
    if want("C02-OD3") or want("C02-MP4"):
        rule_drain(rep, prog, q)
    if want("C02-SB5"):
        rule_barrier_flag(rep, prog, q)
    if want("C02-OD6"):
        rule_OD6(rep, prog, q)
    if want("C02-TR7"):
        rule_TR7(rep, prog, q)
    if want("C02-TB8"):
        rule_TB8(rep, q)
    if want("C02-MP10"):
        rule_MP10(rep, prog, q)
    if want("C04-AI15"):
        # a dispatch_barrier_sync (any dispatch_sync on a serial queue) takes its uncontended fast path only from the exactly idle state: with an item
        # enqueued whose drainer has not locked the queue yet it would overtake that item (shared with C04)
        from . import C04
        C04.rule_AI15(rep, prog, q)
    if want("C02-OD9"):
        from .sync_common import rule_snapshot_walk_waits
        rid9 = rep.rule("C02-OD9", "the thread-bound main queue runs the items of a captured snapshot to the end, in list order: the walk waits for a producer that "
                        "has swung the tail but not yet linked its item instead of taking the NULL link for the end of the list", floor=1)
        rule_snapshot_walk_waits(rep, rid9, prog, "_dispatch_main_queue_drain", "the rest of the detached list is never run: item k of a thread is dropped while its "
                                 "item k+1 (pushed later) runs")
    # the DIRTY hand-shake between a push and the unlocking drainer is what keeps an item from being stranded behind an idle-looking queue - and a stranded
    # item is overtaken by the same thread's next dispatch_sync, which takes the uncontended fast path (shared with C01)
    if want("C01-MP3") or want("C01-OD5") or want("C01-TR4"):
        from . import C01
        if want("C01-MP3") or want("C01-OD5"):
            C01.rule_MP3_OD5(rep, prog, q)
        if want("C01-TR4"):
            ts_all = []
            ex.compute_argbits()
            for f_ in sorted(prog.all_functions(), key=lambda f: f.name):
                ts_all.extend(ex.transitions(f_, DQ_STATE, plain=True))
            C01.rule_TR4(rep, prog, ex, q, ts_all)
    if want("C05-WR3"):
        # a parked dispatch_sync waiter must only be released by the real lock hand-off (shared with C05)
        from . import C05
        C05.rule_WR3(rep, ir.Program(build.facts_for(["shims/lock"], srcdir=srcdir)))
    if want("C05-OD2"):
        # an item handed to a drainer by dispatch_async_and_wait runs once: the waiter learns "already run remotely" from dsc_func == NULL, which must be
        # stored before the wake-up - otherwise the woken caller runs the item a second time beside the drainer (shared with C05)
        from . import C05
        C05.rule_OD2(rep, prog, q)
    # a serial queue that is the TARGET of other queues stays serial only if every level of a hierarchy is acquired and released
    # level by level and the role bits that steer the hand-off follow the target (shared with C03)
    from . import C03
    if want("C03-MP2"):
        C03.rule_MP2(rep, prog, q)
    if want("C03-MP5"):
        C03.rule_MP5(rep, prog, q)
    if want("C03-TB6"):
        C03.rule_TB6(rep, prog, q)
    if want("C03-MP9"):
        C03.rule_MP9(rep, prog, q)
    if want("C03-MP11"):
        C03.rule_MP11(rep, prog, q)
    if want("C03-MP1"):
        C03.rule_MP1(rep, prog)
    if want("C03-MP7"):
        C03.rule_MP7(rep, prog, q)
    if want("C17-KA7"):
        # a thread-bound serial queue must not hand its pending items to workers while its owner thread is still inside an item (shared with C17)
        from . import C17
        C17.rule_KA7(rep, prog, q)


def run_thorough(rep, srcdir=None, only=None):
    """cross-check: the universal (for-all-transitions) rules are re-evaluated on the module built WITH the always-inliner, where every
    inlined copy of a state transition appears in its caller's context (constant arguments folded, caller guards visible)"""
    if only:
        return
    facts = build.facts_for("all", mode="all", srcdir=srcdir)
    prog = ir.Program(facts)
    q = Q(srcdir)
    ex = trans.Extractor(prog, "thorough")
    ex.compute_argbits()
    ts = []
    for fn in sorted(prog.all_functions(), key=lambda f: f.name):
        ts.extend(ex.transitions(fn, DQ_STATE, plain=True))
    rep.extra["inlined_form_transitions"] = len(ts)
    n0 = len(rep.findings)
    sub = report_sub(rep)
    rule_TR1(sub, prog, q, ts)
    merge_sub(rep, sub, 'C02-TR1i', 'C02-TR1 re-evaluated on the fully inlined modules')


MANIFEST = {
    "technique": "atomic state-word transition extraction (bit-level abstract domain) + CFG value-identity and path rules on the serial drain + concrete evaluation of the override-wakeup predicate (same-thread async->sync order)",
    "level": "every transition that installs a drain owner is checked for the idle-state guard, the barrier-sync fast path for exactness, and the "
             "serial drain for strict head-pop and never invoking sync waiters; these are the per-transition obligations mutual exclusion and FIFO "
             "rest on, for all interleavings; the exclusion theorem itself is not re-proved",
    "note": "trusts clang-14/LLVM normalisation and the atomicity of cmpxchg; named exceptions (thread-bound queues, lock transfer, workloops) are listed in rules/C02.py",
}
