"""C03 - a serial target queue (or workloop) serialises every queue targeting it.

Decided: lanes drain only when running on their target; dispatch_sync through a hierarchy acquires every level with the
lock kind of THAT level and releases every level it acquired with the same kind, stopping exactly where a remote drainer took
over; serial drains never redirect; do_targetq is written only by constructors and the two retargeting paths.
The exclusion theorem across levels is not re-proved."""
from dqsa import trans, paths
from .common import *
from .sync_common import entry_point

UNITS = ["queue", "object", "source"]

TARGETQ_WRITERS = {
    "_dispatch_lane_create_with_target": "constructor", "_dispatch_workloop_create": "constructor",
    "_dispatch_runloop_root_queue_create_4CF": "constructor", "dispatch_source_create": "constructor",
    "_dispatch_group_create_with_count": "constructor", "dispatch_semaphore_create": "constructor",
    "_dispatch_data_alloc": "constructor", "_dispatch_data_init": "constructor", "_dispatch_io_create": "constructor",
    "_dispatch_disk_init": "constructor", "_dispatch_operation_create": "constructor", "_dispatch_mach_create": "constructor",
    "_dispatch_pthread_root_queue_create": "constructor",
    "_dispatch_queue_dispose": "destructor (poison)",
    "_dispatch_object_set_target_queue_inline": "retarget of an inactive/suspended object (guarded below)",
    "_dispatch_lane_legacy_set_target_queue": "retarget executed as a barrier on the queue itself",
    "___dispatch_io_set_target_queue_block_invoke": "dispatch_io channel retarget on its own serial queue",
}


def root_ptr(fn, op, depth=0):
    i = fn.inst(op)
    while i is not None and depth < 8:
        depth += 1
        if i.op in ("bitcast", "inttoptr", "ptrtoint"):
            op = i.ops[0]
        elif i.op == "call" and i.callee == "upcast":
            op = i.ops[0]
        elif i.op == "getelementptr" and i.d.get("ptr", {}).get("off") == 0:
            op = i.d["ptr"]["base"]
        else:
            break
        i = fn.inst(op)
    return tuple(op[:2])


def width1_test_of(prog, fn, cond_op):
    """(polarity, base root) if cond tests <base>->dq_width == 1"""
    i = fn.inst(cond_op)
    while i is not None and i.op in ("zext", "trunc", "sext"):
        i = fn.inst(i.ops[0])
    if i is None or i.op != "icmp" or i.d["pred"] not in ("eq", "ne"):
        return None
    for a, b in ((i.ops[0], i.ops[1]), (i.ops[1], i.ops[0])):
        if b[0] == "c" and b[1] == 1:
            x = fn.inst(a)
            while x is not None and x.op in ("zext", "sext", "trunc"):
                x = fn.inst(x.ops[0])
            if x is not None and x.op == "load" and "dq_width" in prog.fields(x):
                return (i.d["pred"] == "eq", root_ptr(fn, x.d["ptr"]["base"]), i)
    return None


def rule_MP1(rep, prog):
    rid = rep.rule("C03-MP1", "a lane is drained only by a thread currently running on the lane's target queue (cq == do_targetq); otherwise the "
                   "invoke returns the target for re-enqueue", floor=1)
    fn = prog.fn("_dispatch_lane_invoke2")
    rep.saw(fn)
    drains = calls_named(fn, ("_dispatch_lane_serial_drain", "_dispatch_lane_concurrent_drain", "_dispatch_lane_drain"))
    cur = calls_named(fn, "_dispatch_queue_get_current")
    tql = [i for i in fn.all_insts() if i.op == "load" and "do_targetq" in prog.fields(i)]
    tests = [i for i in fn.all_insts() if i.op == "icmp" and i.d["pred"] in ("eq", "ne") and
             {root_ptr(fn, i.ops[0]), root_ptr(fn, i.ops[1])} & {("i", c.id) for c in cur} and
             {root_ptr(fn, i.ops[0]), root_ptr(fn, i.ops[1])} & {("i", l.id) for l in tql}]
    res = paths.walk(fn, entry_point(fn), lambda i: i in drains)
    ok = bool(drains) and bool(tests)
    for kind, inst, cx, path in res:
        if kind == "hit" and not any(cx.truth.get(t.id) == (t.d["pred"] == "eq") for t in tests):
            ok = False
    rep.require(rid, ok, fn.file + ":" + str(fn.d.get("line")), fn.name, "drain-off-target",
                "_dispatch_lane_invoke2 reaches a drain without having established current queue == dq->do_targetq: a queue could be drained by a "
                "thread that does not hold its (serial) target, breaking the hierarchy's exclusion", sample={"drains": len(drains), "tests": len(tests)})


def rule_MP2(rep, prog, q):
    rid = rep.rule("C03-MP2", "_dispatch_sync_recurse acquires every level with the lock kind chosen by that level's dq_width and never reaches the callout "
                   "after a failed acquisition; _dispatch_sync_complete_recurse releases each level with the kind of that level and re-tests the stop "
                   "queue at every level", floor=6)
    for name, slow, callout in (("_dispatch_sync_recurse", "_dispatch_sync_f_slow", "_dispatch_sync_invoke_and_complete_recurse"),
                                ("_dispatch_async_and_wait_recurse", "_dispatch_async_and_wait_f_slow", "_dispatch_async_and_wait_invoke_and_complete_recurse")):
        fn = prog.fn(name)
        rep.saw(fn)
        acqs = calls_named(fn, ("_dispatch_queue_try_acquire_barrier_sync", "_dispatch_queue_try_reserve_sync_width", "_dispatch_queue_try_acquire_barrier_sync_and_suspend", "_dispatch_async_and_wait_recurse_one"))
        co = calls_named(fn, callout)
        sl = calls_named(fn, slow)
        if not acqs or not co or not sl:
            rep.unknown(rid, "anchor vanished in %s (acq=%d callout=%d slow=%d)" % (name, len(acqs), len(co), len(sl)))
            continue
        bad = []
        for a in acqs:
            c = paths.PathCtx(fn)
            c.truth[a.id] = False
            res = paths.walk(fn, a, lambda i: i in co, avoid=lambda i: i in sl, ctx=c)
            bad += [r for r in res if r[0] in ("hit",)]
        rep.require(rid, not bad, acqs[0].loc, name, "callout-after-failed-acquire:%s" % name,
                    "%s reaches the client callout after failing to acquire a level of the hierarchy (must go through %s)" % (name, slow),
                    sample={"fn": name, "acquire_sites": len(acqs)})
        # the callout is not reachable from entry without passing an acquisition, and no loop iteration skips it
        res = paths.walk(fn, entry_point(fn), lambda i: i in co, avoid=lambda i: i in acqs)
        skip = [r for r in res if r[0] in ("hit", "loop")]
        rep.require(rid, not skip, fn.file, name, "level-skipped:%s" % name,
                    "%s can advance to the next target queue (or reach the callout) without acquiring the current level" % name, sample={"fn": name})
        # kind chosen by the width of the level being acquired
        for a in acqs:
            if "_try_" not in a.callee or name != "_dispatch_sync_recurse":
                continue      # the and_wait walk carries the kind in dc_flags (first level: the caller's; next levels: C03-MP11)
            barrier = "barrier" in a.callee
            tgt = root_ptr(fn, a.ops[0])
            c0 = paths.PathCtx(fn)
            res = paths.walk(fn, entry_point(fn), lambda i: i is a, ctx=c0)
            okk = True
            for kind, inst, cx, path in res:
                if kind != "hit":
                    continue
                found = False
                for iid, tv in cx.truth.items():
                    w = width1_test_of(prog, fn, ["i", iid])
                    if w is None:
                        continue
                    pol, base, icmp = w
                    if base == tgt and (tv == pol) == barrier:
                        found = True
                if not found:
                    okk = False
            rep.require(rid, okk, a.loc, name, "lock-kind-not-from-level-width:%s:%s" % (name, a.callee),
                        "%s calls %s on a path where dq_width %s 1 was not established for the queue being acquired: a serial level could be taken as a "
                        "reader (or a concurrent one as a barrier)" % (name, a.callee, "==" if barrier else "!="), sample={"fn": name, "acquire": a.callee})
    fn = prog.fn("_dispatch_sync_complete_recurse")
    rep.saw(fn)
    rel_b = icalls_slot(prog, fn, "dq_wakeup")
    rel_n = calls_named(fn, "_dispatch_lane_non_barrier_complete")
    if not rel_b or not rel_n:
        rep.unknown(rid, "anchor vanished in _dispatch_sync_complete_recurse")
        return
    stop_arg = ("a", 1)
    for r in rel_b + rel_n:
        x = root_ptr(fn, r.ops[0])
        tests = [i for i in fn.all_insts() if i.op == "icmp" and i.d["pred"] in ("eq", "ne") and
                 {root_ptr(fn, i.ops[0]), root_ptr(fn, i.ops[1])} == {x, stop_arg} and fn.dominates(i, r)]
        rep.require(rid, bool(tests), r.loc, fn.name, "release-without-stop-test",
                    "_dispatch_sync_complete_recurse releases a level without first comparing THAT level with stop_dq: when the work item ran remotely on a "
                    "drainer, the returning waiter would also unlock queues the drainer still owns", sample={"release": r.loc})
    for r in rel_b:
        fl = arg_const(fn, r, 2)
        rep.require(rid, fl is not None and bool(fl & q.BARRIER_COMPLETE), r.loc, fn.name, "barrier-release-flag",
                    "_dispatch_sync_complete_recurse must release a barrier level with DISPATCH_WAKEUP_BARRIER_COMPLETE", sample={"flags": fl})
    # loop-carried barrier kind is computed from the NEXT level
    for b in fn.blocks:
        phis = [i for i in b.insts if i.op == "phi"]
        dqphi = [p for p in phis if p.d.get("ty", "").endswith("*")]
        kphi = [p for p in phis if p.d.get("w") in (1, 8)]
        for kp in kphi:
            for v, frm in kp.ops:
                w = width1_test_of(prog, fn, v)
                if w is None:
                    continue
                pol, base, icmp = w
                nxt = None
                for dp in dqphi:
                    for v2, frm2 in dp.ops:
                        if frm2 == frm:
                            nxt = root_ptr(fn, v2)
                rep.require(rid, nxt is not None and base == nxt, icmp.loc, fn.name, "release-kind-from-wrong-level",
                            "_dispatch_sync_complete_recurse derives the release kind (barrier vs reader) of the next level from the dq_width of a "
                            "different queue than the one it moves to: a serial target acquired as a barrier would be released as a reader and stay "
                            "locked forever", sample={"width_of": str(base), "next_dq": str(nxt)})


def rule_AI3(rep, prog, q, ex):
    rid = rep.rule("C03-AI3", "serial and workloop drains never redirect items to the target (DISPATCH_INVOKE_REDIRECTING_DRAIN is cleared for them and the "
                   "redirect is control-dependent on it); redirected items go to the lane's own do_targetq", floor=3)
    RD = q.c["DISPATCH_INVOKE_REDIRECTING_DRAIN"]
    fn = prog.fn("_dispatch_lane_serial_drain")
    rep.saw(fn)
    for c in calls_named(fn, "_dispatch_lane_drain"):
        ex.fn = fn
        bv = trans.Ev(ex, None, 64).ev(c.ops[2])
        rep.require(rid, bool(bv.k0 & RD), c.loc, fn.name, "serial-drain-may-redirect",
                    "_dispatch_lane_serial_drain passes flags that may contain DISPATCH_INVOKE_REDIRECTING_DRAIN: a serial queue would forward its items to "
                    "the target instead of running them one at a time itself", sample={"flags_known_zero": hex(bv.k0)})
    fn = prog.fn("_dispatch_lane_drain")
    rep.saw(fn)
    red = calls_named(fn, "_dispatch_continuation_redirect_push")
    tests = [i for i in fn.all_insts() if i.op == "icmp" and i.d["pred"] in ("ne", "eq") and i.ops[1][0] == "c" and i.ops[1][1] == 0 and
             fn.inst(i.ops[0]) is not None and fn.inst(i.ops[0]).op == "and" and fn.inst(i.ops[0]).ops[1][0] == "c" and fn.inst(i.ops[0]).ops[1][1] == RD]
    res = paths.walk(fn, entry_point(fn), lambda i: i in red)
    ok = bool(red) and bool(tests)
    for kind, inst, cx, path in res:
        if kind == "hit" and not any(cx.truth.get(t.id) == (t.d["pred"] == "ne") for t in tests):
            ok = False
    rep.require(rid, ok, fn.file, fn.name, "redirect-not-guarded",
                "_dispatch_lane_drain redirects an item without the REDIRECTING_DRAIN flag being set on that path", sample={"redirects": len(red)})
    fn = prog.fn("_dispatch_continuation_redirect_push")
    rep.saw(fn)
    pushes = icalls_slot(prog, fn, "dq_push")
    okp = bool(pushes)
    for p in pushes:
        tq = fn.inst(p.ops[0])
        r = root_ptr(fn, p.ops[0])
        li = fn.insts.get(r[1]) if r[0] == "i" else None
        if not (li is not None and li.op == "load" and "do_targetq" in prog.fields(li) and root_ptr(fn, li.d["ptr"]["base"]) == ("a", 0)):
            okp = False
    rep.require(rid, okp, fn.file, fn.name, "redirect-target",
                "_dispatch_continuation_redirect_push must push to the redirecting lane's own do_targetq", sample={"pushes": len(pushes)})


def rule_WM4(rep, prog, q, ex):
    rid = rep.rule("C03-WM4", "do_targetq is written only by constructors, the destructor, and the retargeting paths: in-place retarget only after a successful "
                   "_dispatch_lane_try_inactive_suspend (object inactive), legacy retarget only as a barrier on the queue itself", floor=8)
    for fn in prog.all_functions():
        for i in fn.all_insts():
            if i.op in ("store", "atomicrmw", "cmpxchg") and "do_targetq" in prog.fields(i):
                rep.saw(fn)
                rep.classified(rid, i.origin, i.origin in TARGETQ_WRITERS, i.loc, i.origin, "unclassified-targetq-writer:%s" % i.origin,
                            "%s writes do_targetq but is not a classified constructor / retarget path: retargeting an active queue breaks the "
                            "serialisation of everything already submitted through the old target" % i.origin,
                            sample={"writer": i.origin, "class": TARGETQ_WRITERS.get(i.origin)})
    fn = prog.fn("_dispatch_lane_set_target_queue")
    rep.saw(fn)
    st = calls_named(fn, "_dispatch_object_set_target_queue_inline")
    tis = calls_named(fn, "_dispatch_lane_try_inactive_suspend")
    ok = bool(st) and bool(tis)
    res = paths.walk(fn, entry_point(fn), lambda i: i in st)
    for kind, inst, cx, path in res:
        if kind == "hit" and not any(cx.truth.get(t.id) is True for t in tis):
            ok = False
    rep.require(rid, ok, fn.file, fn.name, "retarget-without-inactive-suspend",
                "_dispatch_lane_set_target_queue changes do_targetq in place on a path where _dispatch_lane_try_inactive_suspend did not succeed",
                sample={"set": len(st), "guards": len(tis)})
    leg = [(f, c) for f in prog.all_functions() for c in f.all_insts()
           if c.op == "call" and any(o[0] == "f" and o[1] == "_dispatch_lane_legacy_set_target_queue" for o in c.ops)]
    okl = bool(leg) and all(c.callee in ("_dispatch_barrier_trysync_or_async_f", "_dispatch_barrier_async_detached_f") for f, c in leg)
    direct = [(f, c) for f in prog.all_functions() for c in f.calls("_dispatch_lane_legacy_set_target_queue")]
    rep.require(rid, okl and not direct, leg[0][1].loc if leg else "?", "_dispatch_lane_legacy_set_target_queue", "legacy-retarget-not-barrier",
                "_dispatch_lane_legacy_set_target_queue must only run as a barrier item on the queue being retargeted", sample={"uses": len(leg)})


def rule_MP5(rep, prog, q):
    rid = rep.rule("C03-MP5", "a blocked dispatch_sync caller handed a queue level is woken only when that level is not an inner queue; for inner queues the waiter is "
                   "pushed down / redirected to the target so that it also acquires the levels below (down to the serial bottom)", floor=4)
    wake_names = ("_dispatch_waiter_wake", "_dispatch_waiter_wake_wlh_anon")
    for name in ("_dispatch_non_barrier_waiter_redirect_or_wake", "_dispatch_barrier_waiter_redirect_or_wake"):
        fn = prog.fn(name)
        rep.saw(fn)
        wakes = calls_named(fn, wake_names)
        tests = []
        for i in fn.all_insts():
            if i.op == "icmp" and i.d["pred"] in ("eq", "ne") and i.ops[1][0] == "c" and i.ops[1][1] == 0:
                a = fn.inst(i.ops[0])
                if a is not None and a.op == "and" and a.ops[1][0] == "c" and a.ops[1][1] == q.ROLE_MASK:
                    tests.append(i)
        if not wakes or not tests:
            rep.unknown(rid, "anchor vanished in %s (wakes=%d role tests=%d)" % (name, len(wakes), len(tests)))
            continue
        res = paths.walk(fn, entry_point(fn), lambda i: i in wakes)
        bad = []
        for kind, inst, cx, path in res:
            if kind != "hit":
                continue
            seen_inner = [t for t in tests if cx.truth.get(t.id) == (t.d["pred"] == "eq")]
            seen_not = [t for t in tests if cx.truth.get(t.id) == (t.d["pred"] == "ne")]
            if seen_inner or not seen_not:
                bad.append(path)
        rep.require(rid, not bad, wakes[0].loc, name, "inner-queue-waiter-woken:%s" % name,
                    "%s wakes the sync waiter on a path where the queue was found to be an inner queue (or its role was not tested): the woken dispatch_sync "
                    "caller runs without holding the queues below, so a serial bottom no longer serialises it (path %s)" % (name, bad[0] if bad else None),
                    sample={"fn": name, "wake_paths": len([r for r in res if r[0] == "hit"])})
        pushes = icalls_slot(prog, fn, "dq_push")
        rep.require(rid, bool(pushes), fn.file, name, "inner-queue-no-push:%s" % name, "%s must push the waiter to the target queue for inner queues" % name,
                    sample={"pushes": len(pushes)})
        if name == "_dispatch_barrier_waiter_redirect_or_wake":
            # the waiter pushed down carries the lock kind of the level it is pushed TO: DC_FLAG_BARRIER set for a serial target, cleared for a concurrent
            # one - also when the immediate reader-slot reservation failed and the waiter is queued instead (it will be handed the barrier lock of a
            # concurrent queue otherwise, and the completion releases that level as a reader: the level stays barrier-locked for ever)
            B = q.c["DC_FLAG_BARRIER"]
            M64 = (1 << 64) - 1
            wts = [w for w in (width1_test_of(prog, fn, i.ops[0]) for i in fn.all_insts() if i.op == "br" and i.ops) if w]
            if not wts:
                rep.unknown(rid, "anchor vanished: %s does not test the target's dq_width" % name)
            def kind_of_store(st):
                v = fn.inst(st.ops[0])
                if v is None:
                    return None
                if v.op == "or" and any(o[0] == "c" and (o[1] & B) for o in v.ops):
                    return "set"
                if v.op == "and" and any(o[0] == "c" and not (o[1] & B) and (o[1] | B) & M64 == M64 for o in v.ops):
                    return "clear"
                return None
            for pcall in pushes:
                for kind, inst, cx, path in paths.walk(fn, entry_point(fn), lambda i: i is pcall):
                    if kind != "hit":
                        continue
                    serial = None
                    for pol, root, ic in wts:
                        tv = cx.truth.get(ic.id)
                        if tv is not None:
                            serial = (tv == pol)
                    last = None
                    for b in path:
                        for i in fn.blocks[b].insts:
                            if i is pcall:
                                break
                            if i.op == "store" and "dc_flags" in prog.fields(i) and kind_of_store(i):
                                last = kind_of_store(i)
                    want_kind = {True: "set", False: "clear"}.get(serial)
                    rep.require(rid, want_kind is not None and last == want_kind, pcall.loc, name, "pushed-waiter-lock-kind:%s" % ("serial" if serial else "concurrent"),
                                "%s pushes the waiter to a target found %s with DC_FLAG_BARRIER %s (path %s): the waiter must carry the kind of lock of the level it is "
                                "queued on - queued on a concurrent queue as a barrier it is handed the full barrier lock, which the completion (width > 1: reader) never "
                                "gives back, and everything behind it on that queue is stranded"
                                % (name, {True: "serial", False: "concurrent", None: "of untested width"}[serial], {"set": "set", "clear": "cleared", None: "left as it was"}[last], path),
                                sample={"target": "serial" if serial else "concurrent", "flag": last})
        if name == "_dispatch_non_barrier_waiter_redirect_or_wake":
            # the lock kind for the next level is chosen from the NEXT level's width (the target), and a reader slot is only ever reserved on a level
            # that this test found concurrent
            wts = []
            for i in fn.all_insts():
                if i.op == "br" and i.ops:
                    w = width1_test_of(prog, fn, i.ops[0])
                    if w:
                        wts.append(w)
            rsv = calls_named(fn, "_dispatch_queue_try_reserve_sync_width")
            def is_target(root):
                l = fn.inst(root) if root[0] == "i" else None
                return l is not None and l.op == "load" and "do_targetq" in prog.fields(l)
            ok = bool(wts) and all(is_target(root) for pol, root, ic in wts)
            for r in rsv:
                cx = paths.dom_ctx(fn, r)
                lvl = root_ptr(fn, r.ops[0])
                ok = ok and any(root == lvl and cx.truth.get(ic.id) == (not pol) for pol, root, ic in wts)
            rep.require(rid, ok and bool(rsv), fn.file, name, "next-level-kind-from-wrong-queue",
                        "%s decides whether the next level down is serial from a dq_width that is not the target's (or reserves a reader slot on a level it did not "
                        "find concurrent): with a concurrent queue on a serial target several parked dispatch_sync callers are released at once holding only a "
                        "reader slot of the serial queue" % name, sample={"width_tests": len(wts), "reservations": len(rsv)})


def rule_TB6(rep, prog, q):
    rid = rep.rule("C03-TB6", "role assignment: a lane whose target is not a root queue gets the INNER role (so hand-offs continue to its target); only lanes "
                   "directly on a root queue are BASE", floor=1)
    fn = prog.fn("_dispatch_lane_inherit_wlh_from_target")
    rep.saw(fn)
    k = consts.get(["_DISPATCH_QUEUE_ROOT_TYPEFLAG", "DISPATCH_QUEUE_ROLE_INNER", "DISPATCH_QUEUE_ROLE_BASE_ANON", "DISPATCH_QUEUE_ROLE_BASE_WLH"])
    cx_ = [i for i in fn.all_insts() if i.op == "cmpxchg" and (prog.fields(i) & DQ_STATE)]
    role_ops = []
    for i in fn.all_insts():
        if i.op == "or":
            for a, b in ((i.ops[0], i.ops[1]), (i.ops[1], i.ops[0])):
                x = fn.inst(a)
                if x is not None and x.op == "and" and x.ops[1][0] == "c" and x.ops[1][1] == (q.ALL & ~q.ROLE_MASK):
                    role_ops.append(b)
    roottests = []
    for i in fn.all_insts():
        if i.op == "icmp" and i.d["pred"] in ("eq", "ne") and i.ops[1][0] == "c" and i.ops[1][1] == 0:
            a = fn.inst(i.ops[0])
            if a is not None and a.op == "and" and a.ops[1][0] == "c" and a.ops[1][1] == k["_DISPATCH_QUEUE_ROOT_TYPEFLAG"]:
                roottests.append(i)
    if not cx_ or not role_ops or not roottests:
        rep.unknown(rid, "anchor vanished in _dispatch_lane_inherit_wlh_from_target")
        return
    res = paths.walk(fn, entry_point(fn), lambda i: i in cx_)
    ok = True
    n = 0
    for kind, inst, c, path in res:
        if kind != "hit":
            continue
        isroot = None
        for t in roottests:
            tv = c.truth.get(t.id)
            if tv is not None:
                isroot = tv == (t.d["pred"] == "ne")
        from .C06 import const_set
        for ro in role_ops:
            vs = const_set(fn, c.resolve(ro))
            n += 1
            if vs is None or isroot is None:
                ok = False
            elif isroot is False and vs != {k["DISPATCH_QUEUE_ROLE_INNER"]}:
                ok = False
            elif isroot is True and not vs <= {k["DISPATCH_QUEUE_ROLE_BASE_ANON"], k["DISPATCH_QUEUE_ROLE_BASE_WLH"]}:
                ok = False
    rep.require(rid, ok and n > 0, fn.file + ":" + str(fn.d.get("line")), fn.name, "role-not-from-root-flag",
                "_dispatch_lane_inherit_wlh_from_target assigns a BASE role to a lane whose target is not a root queue (or INNER to one on a root queue): "
                "sync hand-offs stop at that lane instead of continuing to the (serial / workloop) target below", sample={"paths": n})


def rule_MP7(rep, prog, q):
    rid = rep.rule("C03-MP7", "the lane drain re-reads do_targetq before every item and leaves when the queue was retargeted (items queued after a retarget must "
                   "run under the new target)", floor=1)
    fn = prog.fn("_dispatch_lane_drain")
    rep.saw(fn)
    tl = [i for i in fn.all_insts() if i.op == "load" and "do_targetq" in prog.fields(i) and root_ptr(fn, i.d["ptr"]["base"]) == ("a", 0)]
    first = [l for l in tl if l.block.id == 0]
    cmp_ = [i for i in fn.all_insts() if i.op == "icmp" and i.d["pred"] in ("eq", "ne") and any(fn.inst(o) in first for o in i.ops) and
            any(fn.inst(o) in tl and fn.inst(o) not in first for o in i.ops)]
    rechecks = [fn.inst(o) for i in cmp_ for o in i.ops if fn.inst(o) in tl and fn.inst(o) not in first]
    callouts = calls_named(fn, ("_dispatch_continuation_pop_inline", "_dispatch_continuation_redirect_push"))
    if not callouts:
        rep.unknown(rid, "anchor vanished in _dispatch_lane_drain (callouts=%d)" % len(callouts))
        return
    if not first or not rechecks:
        rep.violation(rid, fn.file + ":" + str(fn.d.get("line")), fn.name, "drain-without-retarget-check",
                      "_dispatch_lane_drain never compares the current do_targetq with the one it started under (entry load=%d, re-checks=%d): after a "
                      "retarget the old drainer keeps running items outside the new (serial) target" % (len(first), len(rechecks)))
        return
    bad = []
    for s in [entry_point(fn)] + callouts:
        res = paths.walk(fn, s, lambda i: i in callouts, avoid=lambda i: i in rechecks)
        bad += [r for r in res if r[0] == "hit"]
    rep.require(rid, not bad, rechecks[0].loc, fn.name, "drain-without-retarget-check",
                "_dispatch_lane_drain can start an item without comparing the current do_targetq with the one it started under: after a retarget the old "
                "drainer keeps running items outside the new (serial) target", sample={"rechecks": len(rechecks), "callouts": len(callouts)})


def rule_MP8(rep, prog, q):
    rid = rep.rule("C03-MP8", "a redirected async item gives back the width it borrowed on EVERY intermediate level: the release loop of "
                   "_dispatch_async_redirect_invoke tests the level it is about to release (rq) against the queue the item ran on, releases that same "
                   "level, and advances by rq->do_targetq; the submitting lane itself is completed with CONSUME_2", floor=3)
    fn = prog.fn("_dispatch_async_redirect_invoke")
    rep.saw(fn)
    cur = calls_named(fn, "_dispatch_queue_get_current")
    rel = calls_named(fn, "_dispatch_lane_non_barrier_complete")
    inner = [c for c in rel if c.ops[1][0] == "c" and not (c.ops[1][1] & q.CONSUME_2)]
    final = [c for c in rel if c.ops[1][0] == "c" and (c.ops[1][1] & q.CONSUME_2)]
    if not cur or len(inner) != 1 or len(final) != 1:
        rep.unknown(rid, "anchor vanished in _dispatch_async_redirect_invoke (current=%d inner releases=%d final=%d)" % (len(cur), len(inner), len(final)))
        return
    c = inner[0]
    lv = root_ptr(fn, c.ops[0])
    ph = fn.inst(lv)
    in_loop = fn.inst_reaches(c, c)
    rep.require(rid, in_loop and ph is not None and ph.op == "phi", c.loc, fn.name, "redirect-release-not-a-loop",
                "_dispatch_async_redirect_invoke: the intermediate-level release is not a loop over a level variable", sample={"release": c.loc})
    # the stop test compares the level variable itself with the queue the item ran on
    # (the loop may be written while(...) - the test is on the phi - or rotated to if(...) do{...}while(...) - the tests are on the values that
    # flow into the phi along each edge; in both forms the value tested is the value that becomes rq, never a neighbour level)
    incoming = [root_ptr(fn, v) for v, frm in ph.ops] if (ph is not None and ph.op == "phi") else []
    def tests_of(val):
        return [i for i in fn.all_insts() if i.op == "icmp" and i.d["pred"] in ("eq", "ne") and
                {root_ptr(fn, i.ops[0]), root_ptr(fn, i.ops[1])} == {val, ("i", cur[0].id)}]
    tests = tests_of(lv)
    if not tests and incoming and all(tests_of(v) for v in incoming):
        tests = [t for v in incoming for t in tests_of(v)]
    rep.require(rid, bool(tests) and any(fn.inst_reaches(t, c) for t in tests), c.loc, fn.name, "redirect-release-tests-other-level",
                "_dispatch_async_redirect_invoke: the loop releases level rq but its stop test does not compare rq itself with the queue the item ran on "
                "(it looks one level ahead or behind): the innermost intermediate queue keeps one unit of width per item and eventually never runs a "
                "barrier / any item", sample={"tests": len(tests)})
    # advance: the loop-carried value is do_targetq of the level variable; it starts at dq->do_targetq
    ok = False
    if ph is not None and ph.op == "phi":
        ok = True
        for v, frm in ph.ops:
            l = fn.inst(v)
            if l is None or l.op != "load" or "do_targetq" not in prog.fields(l):
                ok = False
            elif fn.inst_reaches(c, l) and root_ptr(fn, l.d["ptr"]["base"]) != lv:
                ok = False
    rep.require(rid, ok, c.loc, fn.name, "redirect-release-advance",
                "_dispatch_async_redirect_invoke: the level variable of the release loop is not advanced by rq = rq->do_targetq starting from dq->do_targetq",
                sample={"phi": ph.loc if ph is not None else None})


def rule_MP9(rep, prog, q):
    rid = rep.rule("C03-MP9", "the role of a lane follows its target: a run-time retarget recomputes the role from the NEW target before publishing do_targetq, "
                   "and activation computes it for objects retargeted while inactive (a stale BASE role makes sync hand-offs stop at the lane without "
                   "acquiring the serial queue below)", floor=3)
    name = "_dispatch_lane_inherit_wlh_from_target"
    fn = prog.fn("_dispatch_lane_legacy_set_target_queue")
    rep.saw(fn)
    sts = [st for st in fn.all_insts() if st.op == "store" and "do_targetq" in prog.fields(st)]
    inh = calls_named(fn, name)
    if not sts:
        rep.unknown(rid, "no do_targetq store in _dispatch_lane_legacy_set_target_queue")
    for st in sts:
        ok = any(fn.dominates(c, st) and root_ptr(fn, c.ops[0]) == root_ptr(fn, st.d["ptr"]["base"]) and root_ptr(fn, c.ops[1]) == root_ptr(fn, st.ops[0]) for c in inh)
        rep.require(rid, ok, st.loc, fn.name, "retarget-without-role-update",
                    "_dispatch_lane_legacy_set_target_queue publishes the new target without first recomputing the lane's role from that same target: after "
                    "dispatch_set_target_queue(A, serialB) A keeps role BASE, a contended dispatch_sync(A) is woken owning only A and then unlocks B which it "
                    "never acquired - B runs two items at once", sample={"store": st.loc, "inherit_calls": len(inh)})
    for fname in ("_dispatch_lane_activate", "_dispatch_lane_create_with_target"):
        fn = prog.fn(fname)
        rep.saw(fn)
        inh = calls_named(fn, name)
        if fname == "_dispatch_lane_activate":
            ok = bool(inh) and fn.must_pass(entry_point(fn), inh)[0]
        else:
            sts = [st for st in fn.all_insts() if st.op == "store" and "do_targetq" in prog.fields(st)]
            ok = bool(inh) and bool(sts) and all(root_ptr(fn, c.ops[1]) == root_ptr(fn, st.ops[0]) for c in inh for st in sts)
        rep.require(rid, ok, fn.file + ":" + str(fn.d.get("line")), fn.name, "role-not-computed:%s" % fname,
                    "%s does not compute the lane's role from its (final) target on every path" % fname, sample={"fn": fname, "inherit_calls": len(inh)})


def _param_deref_in_entry(prog, callee, n):
    f = prog.fn(callee, required=False)
    if f is None or not f.blocks:
        return False
    for i in f.blocks[0].insts:
        if i.op in ("load", "store", "atomicrmw", "cmpxchg") and i.d.get("ptr") and root_ptr(f, i.d["ptr"]["base"]) == ("a", n):
            return True
    return False


def rule_MP13(rep, prog, q):
    rid = rep.rule("C03-MP13", "where a blocked dispatch_sync caller parks: _dispatch_wait_compute_wlh records a real queue as the waiter's wlh only for a target whose "
                   "state it found BASE_WLH (and neither suspended nor BASE_ANON); for every other bottom - in this configuration every workloop is BASE_ANON - the "
                   "waiter parks on its thread event (DISPATCH_WLH_ANON). A non-anonymous wlh makes the event-loop wait a no-op here: the caller does not block at all "
                   "and runs its item while the hierarchy is owned by someone else", floor=2)
    fn = prog.fn("_dispatch_wait_compute_wlh")
    rep.saw(fn)
    WLHB, ANONB = q.c["DISPATCH_QUEUE_ROLE_BASE_WLH"], q.c["DISPATCH_QUEUE_ROLE_BASE_ANON"]
    def bit_tests(bit):
        out = []
        for t in fn.all_insts():
            if t.op == "icmp" and t.d["pred"] in ("eq", "ne") and t.ops[1][0] == "c" and t.ops[1][1] == 0:
                a = fn.inst(t.ops[0])
                if a is not None and a.op == "and" and a.ops[1][0] == "c" and a.ops[1][1] == bit:
                    out.append(t)
        return out
    tw, ta = bit_tests(WLHB), bit_tests(ANONB)
    sts = [st for st in fn.all_insts() if st.op == "store" and "dc_data" in prog.fields(st)]
    if not tw or not ta or not sts:
        rep.unknown(rid, "anchor vanished in _dispatch_wait_compute_wlh (BASE_WLH tests=%d, BASE_ANON tests=%d, dc_data stores=%d)" % (len(tw), len(ta), len(sts)))
        return
    n = 0
    for st in sts:
        n += 1
        if st.ops[0][0] in ("c", "ce", "n"):
            rep.ok(rid, "wlh-anon-store", {"store": st.loc, "value": "constant"})
            continue
        cx = paths.dom_ctx(fn, st)
        is_wlh = any(cx.truth.get(t.id) == (t.d["pred"] == "ne") for t in tw)
        not_anon = any(cx.truth.get(t.id) == (t.d["pred"] == "eq") for t in ta)
        rep.require(rid, is_wlh and not_anon, st.loc, fn.name, "waiter-wlh-set-for-non-wlh-target",
                    "_dispatch_wait_compute_wlh stores a queue as the waiter's wlh (dc_data) at a point where the target's state was not established to be BASE_WLH and "
                    "not BASE_ANON (BASE_WLH seen: %s, BASE_ANON excluded: %s): a dispatch_sync that has to park on an inner queue of a hierarchy whose bottom is "
                    "BASE_ANON (a workloop, on this platform) does not park at all and overlaps the items running there" % (is_wlh, not_anon),
                    sample={"store": st.loc})


def rule_MP14(rep, prog, q):
    rid = rep.rule("C03-MP14", "a synchronous item runs without descending the hierarchy only where there is no hierarchy: the uncontended dispatch_sync / "
                   "barrier_sync fast paths invoke the item directly only after finding the target's target NULL (the queue sits directly on a root queue) - for any "
                   "deeper chain, whatever the width of the next level, they go through _dispatch_sync_recurse; and the lock-free direct invocation "
                   "(_dispatch_sync_function_invoke) is reached only for a queue whose own do_targetq is NULL (a root queue) - a workloop is a base queue but "
                   "serialises its items", floor=5)
    def null_tests(fn, depth, root=("a", 0)):
        """icmp of (do_targetq load chain of length `depth` starting at `root`) with null"""
        out = []
        for t in fn.all_insts():
            if t.op != "icmp" or t.d["pred"] not in ("eq", "ne") or not any(o[0] == "n" for o in t.ops):
                continue
            l = fn.inst(t.ops[0])
            d = 0
            while l is not None and l.op in ("load", "bitcast"):
                if l.op == "bitcast":
                    l = fn.inst(l.ops[0])
                    continue
                if "do_targetq" not in prog.fields(l):
                    break
                d += 1
                b = l.d["ptr"]["base"]
                if root_ptr(fn, b) == root:
                    if d == depth:
                        out.append(t)
                    break
                l = fn.inst(list(root_ptr(fn, b))) if root_ptr(fn, b)[0] == "i" else None
        return out
    n = 0
    for name, direct in (("_dispatch_barrier_sync_f_inline", "_dispatch_lane_barrier_sync_invoke_and_complete"), ("_dispatch_sync_f_inline", "_dispatch_sync_invoke_and_complete")):
        fn = prog.fn(name)
        rep.saw(fn)
        tests = null_tests(fn, 2)
        for c in calls_named(fn, direct):
            n += 1
            cx = paths.dom_ctx(fn, c)
            ok = any(cx.truth.get(t.id) == (t.d["pred"] == "eq") for t in tests)
            rep.require(rid, ok, c.loc, name, "sync-fast-path-skips-descent:%s" % name,
                        "%s invokes the item directly (%s) at a point where dq->do_targetq->do_targetq was not established to be NULL: with a concurrent queue between "
                        "the synced queue and a serial bottom the item runs holding only the top queue's lock and overlaps the items of the serial queue below"
                        % (name, direct), sample={"fn": name, "tests": len(tests)})
    for name in ("dispatch_async_and_wait_f", "dispatch_barrier_async_and_wait_f", "_dispatch_sync_f_slow", "dispatch_async_and_wait", "dispatch_barrier_async_and_wait"):
        fn = prog.fn(name, required=False)
        if fn is None:
            continue
        for c in calls_named(fn, "_dispatch_sync_function_invoke"):
            n += 1
            rep.saw(fn)
            tests = null_tests(fn, 1, root_ptr(fn, c.ops[0]))
            cx = paths.dom_ctx(fn, c)
            ok = any(cx.truth.get(t.id) == (t.d["pred"] == "eq") for t in tests)
            rep.require(rid, ok, c.loc, name, "lockless-invoke-on-non-root:%s" % name,
                        "%s runs the item with _dispatch_sync_function_invoke (no lock at all) at a point where dq->do_targetq was not established to be NULL: called "
                        "on a workloop (a base queue, but not a root queue) the item overlaps the workloop's own items and those of every queue targeting it" % name,
                        sample={"fn": name, "tests": len(tests)})
    if n < 5:
        rep.unknown(rid, "fewer than 5 direct-invocation sites found (%d)" % n)


def rule_WL10(rep, prog, q):
    rid = rep.rule("C03-WL10", "a workloop at the bottom of a hierarchy: the thread's current wlh is DISPATCH_WLH_ANON whenever the workloop is drained by an ordinary "
                   "worker thread (always, without kernel workloops), so the value of _dispatch_get_wlh() is dereferenced only after it was compared with "
                   "DISPATCH_WLH_ANON / converted by _dispatch_wlh_to_workloop", floor=3)
    k = consts.get(["DISPATCH_WLH_ANON"], unit="queue")
    ANON = k["DISPATCH_WLH_ANON"] & ((1 << 64) - 1)
    n = 0
    for fn in prog.all_functions():
        for c in calls_named(fn, "_dispatch_get_wlh"):
            me = ("i", c.id)
            uses = []
            for i in fn.all_insts():
                if i.op in ("load", "store", "atomicrmw", "cmpxchg") and i.d.get("ptr") and root_ptr(fn, i.d["ptr"]["base"]) == me:
                    uses.append(i)
                elif i.op == "call" and i is not c and i.callee:
                    for ai, o in enumerate(i.ops):
                        if o[0] == "i" and root_ptr(fn, o) == me and _param_deref_in_entry(prog, i.callee, ai):
                            uses.append(i)
            n += 1
            rep.saw(fn)
            bad = None
            for u in uses:
                cx = paths.dom_ctx(fn, u)
                ok = False
                for cid, tv in cx.truth.items():
                    t = fn.insts[cid]
                    if t.op == "icmp" and t.d["pred"] in ("eq", "ne") and tv == (t.d["pred"] == "ne"):
                        ops = [t.ops[0], t.ops[1]]
                        vals = []
                        for o in ops:
                            if o[0] == "c":
                                vals.append(o[1] & ((1 << 64) - 1))
                            elif o[0] == "ce" and len(o) > 2 and isinstance(o[2], list) and o[2][0] == "c":
                                vals.append(o[2][1] & ((1 << 64) - 1))
                        if ANON in vals and any(o[0] == "i" and root_ptr(fn, o) == me for o in ops):
                            ok = True
                if not ok:
                    bad = u
                    break
            rep.require(rid, bad is None, (bad or c).loc, fn.name, "wlh-dereferenced-unchecked:%s" % fn.name,
                        "%s dereferences the thread's wlh (%s) without having excluded DISPATCH_WLH_ANON: when a queue that targets a workloop is drained "
                        "with more than one item pending, the worker thread (whose wlh is ANON on this platform) faults and none of the remaining items run"
                        % (fn.name, (bad.callee or bad.op) if bad else ""), sample={"fn": fn.name, "dereferencing_uses": len(uses)})
    if n < 3:
        rep.unknown(rid, "fewer than 3 readers of the thread's wlh found (%d)" % n)


def rule_MP11(rep, prog, q):
    rid = rep.rule("C03-MP11", "dispatch_async_and_wait through a hierarchy: the lock kind recorded in the waiter context for the next level is the kind that level is "
                   "acquired with (same value: barrier iff that level's width is 1), and the queue reported back as 'where the item ran' is read after the "
                   "rebased thread frame was popped (the queue really draining, not the submitted-to queue)", floor=2)
    fn = prog.fn("_dispatch_async_and_wait_recurse")
    rep.saw(fn)
    # the two loop-carried values of the walk: the level (starts as parameter 0, top_dq) and its lock kind (starts as parameter 3, the caller's flags)
    def loop_phi(argno):
        c = [p_ for p_ in fn.all_insts() if p_.op == "phi" and any(tuple(v[:2]) == ("a", argno) for v, frm in p_.ops) and fn.inst_reaches(p_, p_)]
        return c[0] if len(c) == 1 else None
    dq_phi, fl_phi = loop_phi(0), loop_phi(3)
    one = [fl_phi] if fl_phi is not None and dq_phi is not None else []
    sts = [st for st in fn.all_insts() if st.op == "store" and "dc_flags" in prog.fields(st) and root_ptr(fn, st.d["ptr"]["base"]) == ("a", 1)]
    if len(one) != 1 or not sts:
        rep.unknown(rid, "anchor vanished in _dispatch_async_and_wait_recurse (loop-carried level / kind found=%d, dc_flags stores=%d)" % (len(one), len(sts)))
    else:
        ph = fl_phi
        nxt = [tuple(v[:2]) for v, frm in ph.ops if fn.inst(v) is not None] if (ph is not None and ph.op == "phi") else []
        for st in sts:
            rep.require(rid, tuple(st.ops[0][:2]) in nxt, st.loc, fn.name, "waiter-flags-of-previous-level",
                        "_dispatch_async_and_wait_recurse stores into the waiter's dc_flags a value that is not the one the next level is acquired with (e.g. the "
                        "previous level's barrier bit): a waiter pushed onto a concurrent level still flagged as a barrier is handed the full barrier lock, "
                        "which the non-barrier completion never gives back - the level stays locked and everything behind it is stranded", sample={"store": st.loc})
    if len(one) == 1:
        # ... and that kind is chosen from the width of the level it will be used on: the queue whose dq_width is tested is the queue that
        # becomes `dq` for the next iteration (the target just stepped to), not the level already acquired
        dqphi = dq_phi
        nextq = {root_ptr(fn, v) for v, frm in dqphi.ops} - {("a", 0)} if (dqphi is not None and dqphi.op == "phi") else set()
        wts = []
        for i in fn.all_insts():
            if i.op in ("br", "select") and i.ops:
                w = width1_test_of(prog, fn, i.ops[0])
                if w:
                    wts.append(w)
        rep.require(rid, bool(wts) and bool(nextq) and all(root in nextq for pol, root, ic in wts), fn.file, fn.name, "next-level-kind-from-current-level",
                    "_dispatch_async_and_wait_recurse chooses the lock kind for the next level from the dq_width of a queue that is not the one it steps to: a "
                    "non-barrier and_wait through a concurrent queue takes the serial queue below with a shared width reservation, so two callers run at "
                    "once (and the barrier-complete on the way back no longer pairs)", sample={"width_tests": len(wts)})
    fn = prog.fn("_dispatch_async_and_wait_invoke")
    rep.saw(fn)
    pops = calls_named(fn, "_dispatch_thread_frame_pop")
    cur = calls_named(fn, "_dispatch_queue_get_current")
    sts = [st for st in fn.all_insts() if st.op == "store" and "dc_other" in prog.fields(st) and fn.inst(list(root_ptr(fn, st.ops[0]))) in cur]
    if not pops or not sts:
        rep.unknown(rid, "anchor vanished in _dispatch_async_and_wait_invoke (frame pops=%d, dc_other <- current-queue stores=%d)" % (len(pops), len(sts)))
    for st in sts:
        c = fn.inst(list(root_ptr(fn, st.ops[0])))
        rep.require(rid, any(fn.dominates(p_, c) for p_ in pops), st.loc, fn.name, "stop-queue-read-under-rebased-frame",
                    "_dispatch_async_and_wait_invoke reads the current queue for dc_other while the rebased frame (top_dq) is still installed: the waiter's "
                    "*_complete_recurse(top_dq, stop_dq = top_dq) returns at once and the queues it locked on the way down are never unlocked", sample={"store": st.loc})


def rule_TB12(rep, prog, q):
    rid = rep.rule("C03-TB12", "a queue is moved off the target it was given only when that target is one of the global root queues (a QoS attribute picks the matching "
                   "root queue): a workloop, the main queue or a run-loop queue given as target is kept", floor=1)
    fn = prog.fn("_dispatch_queue_priority_inherit_from_target")
    rep.saw(fn)
    swaps = calls_named(fn, "_dispatch_get_root_queue")
    guard = calls_named(fn, "_dispatch_is_in_root_queues_array")
    if not swaps:
        rep.unknown(rid, "no _dispatch_get_root_queue call in _dispatch_queue_priority_inherit_from_target")
    for c in swaps:
        cx = paths.dom_ctx(fn, c)
        ok = any(cx.truth.get(g.id) is True and root_ptr(fn, g.ops[0]) == ("a", 1) for g in guard)
        rep.require(rid, ok, c.loc, fn.name, "target-replaced-without-root-array-test",
                    "_dispatch_queue_priority_inherit_from_target replaces the given target by a root queue without having established that the target is one of "
                    "the global root queues (_dispatch_is_in_root_queues_array): a QoS-attributed queue targeted at a workloop / the main queue is silently put "
                    "on a root queue (or gets a BASE role), so it no longer runs under the serial bottom it was given", sample={"call": c.loc, "guards": len(guard)})


def rule_MP15(rep, prog, q):
    rid = rep.rule("C03-MP15", "a source's client handlers (registration, event, cancel) are called only by the thread that is draining the source's TARGET queue: each "
                   "callout of _dispatch_source_invoke2 is reached only after comparing the current queue with ds->do_targetq and finding them equal (the source-side "
                   "twin of the lane invoke's target check) - the kernel-event queue of a non-direct source is the manager, which holds none of the hierarchy's locks",
                   floor=3)
    fn = prog.fn("_dispatch_source_invoke2")
    rep.saw(fn)
    cur = {("i", c.id) for c in calls_named(fn, "_dispatch_queue_get_current")}
    outs = calls_named(fn, ("_dispatch_source_registration_callout", "_dispatch_source_latch_and_call", "_dispatch_source_cancel_callout"))
    if not cur or len(outs) < 3:
        rep.unknown(rid, "_dispatch_source_invoke2: current-queue read / client callouts not found (current=%d callouts=%d)" % (len(cur), len(outs)))
        return
    def on_target(truth):
        for iid, tv in truth.items():
            t = fn.insts[iid]
            if t.op != "icmp" or t.d["pred"] not in ("eq", "ne") or tv != (t.d["pred"] == "eq"):
                continue
            a, b = tuple(t.ops[0][:2]), tuple(t.ops[1][:2])
            for x, y in ((a, b), (b, a)):
                l = fn.inst(list(y))
                if x in cur and l is not None and l.op == "load" and "do_targetq" in prog.fields(l) and tuple(root_ptr(fn, l.d["ptr"]["base"])[:2]) == ("a", 0):
                    return True
        return False
    getters = [g_ for g_ in fn.all_insts() if g_.op == "call" and g_.callee in ("_dispatch_source_get_event_handler", "_dispatch_source_get_cancel_handler",
                                                                                "_dispatch_source_get_registration_handler", "_dispatch_source_get_handler")]
    def no_client_code(cx, path):
        """every handler getter evaluated on the path returned NULL (nothing of the client's can run), and at least the cancel handler was looked at"""
        seen = [g_ for g_ in getters if g_.block.id in path]
        nulls = 0
        for g_ in seen:
            isn = any(fn.insts[iid].op == "icmp" and ("i", g_.id) in (tuple(fn.insts[iid].ops[0][:2]), tuple(fn.insts[iid].ops[1][:2]))
                      and any(o[0] == "n" for o in fn.insts[iid].ops) and tv == (fn.insts[iid].d["pred"] == "eq") for iid, tv in cx.truth.items())
            if not isn:
                return False
            nulls += 1
        return nulls >= 1
    for c in outs:
        ok = on_target(paths.dom_ctx(fn, c).truth)
        if not ok:
            # `if (dq != target && (any handler present)) go to the target; else callout`: off the target queue only when there is no client code to run
            idom, VR = fn.idom()
            start = fn.blocks[idom[c.block.id]].insts[0]
            res = [r for r in paths.walk(fn, start, lambda i: i is c) if r[0] == "hit"]
            ok = bool(res) and all(on_target(cx.truth) or no_client_code(cx, path) for kind, inst, cx, path in res)
        rep.require(rid, ok, c.loc, fn.name, "source-handler-off-target-queue:%s" % c.callee,
                    "_dispatch_source_invoke2 reaches %s without having established that the current queue is the source's target queue: the handler runs on whatever "
                    "queue is invoking the source at that step (for timers and fd sources the manager queue), outside the serial queue the source targets - "
                    "concurrently with that hierarchy's other items" % c.callee, sample={"callout": c.loc})


def rule_MP16(rep, prog, q):
    rid = rep.rule("C03-MP16", "an async_and_wait caller whose item was run remotely unlocks exactly the levels IT locked: when the drainer of some level ran the item "
                   "(dsc_func cleared), _dispatch_async_and_wait_f_slow stops the unlock walk at the queue recorded in dsc->dc_other - the level the drainer owns - not "
                   "one level further down; unlocking that level too releases a serial queue in the middle of its drainer's work", floor=1)
    fn = prog.fn("_dispatch_async_and_wait_f_slow")
    rep.saw(fn)
    cs = calls_named(fn, "_dispatch_sync_complete_recurse")
    if not cs:
        rep.unknown(rid, "_dispatch_async_and_wait_f_slow: completion walk not found")
        return
    for c in cs:
        v = fn.inst(c.ops[1])
        while v is not None and v.op == "bitcast":
            v = fn.inst(v.ops[0])
        ok = v is not None and v.op == "load" and "dc_other" in prog.fields(v)
        rep.require(rid, ok, c.loc, fn.name, "remote-completion-stops-at-wrong-level",
                    "_dispatch_async_and_wait_f_slow hands _dispatch_sync_complete_recurse a stop queue that is not dsc->dc_other itself (%s): the waiter also completes "
                    "the level on which the drainer ran its item - a level it never locked and the drainer still holds - so the next item of that serial queue can start "
                    "while the drainer is still running the current one" % ("a load of %s" % sorted(prog.fields(v)) if v is not None and v.op == "load" else "computed"),
                    sample={"site": c.loc})


def run(rep, tier="quick", srcdir=None, only=None):
    prog, units = load(UNITS, tier, srcdir)
    rep.units = units
    q = Q(srcdir)
    ex = trans.Extractor(prog, tier)
    want = lambda r: only is None or r in only
    if want("C03-MP1"):
        rule_MP1(rep, prog)
    if want("C03-MP2"):
        rule_MP2(rep, prog, q)
    if want("C03-AI3"):
        rule_AI3(rep, prog, q, ex)
    if want("C03-WM4"):
        rule_WM4(rep, prog, q, ex)
    if want("C03-MP5"):
        rule_MP5(rep, prog, q)
    if want("C03-TB6"):
        rule_TB6(rep, prog, q)
    if want("C03-MP7"):
        rule_MP7(rep, prog, q)
    if want("C03-MP8"):
        rule_MP8(rep, prog, q)
    if want("C03-MP9"):
        rule_MP9(rep, prog, q)
    if want("C03-WL10"):
        rule_WL10(rep, prog, q)
    if want("C03-MP11"):
        rule_MP11(rep, prog, q)
    if want("C03-TB12"):
        rule_TB12(rep, prog, q)
    if want("C03-MP13"):
        rule_MP13(rep, prog, q)
    if want("C03-MP14"):
        rule_MP14(rep, prog, q)
    if want("C03-MP15"):
        rule_MP15(rep, prog, q)
    if want("C03-MP16"):
        rule_MP16(rep, prog, q)
    if want("C06-AI3"):
        # an ACTIVE queue is retargeted through the barrier path that recomputes its role; the in-place path is reserved for inactive queues by the INACTIVE
        # test of _dispatch_lane_try_inactive_suspend (shared with C06)
        from . import C06
        C06.rule_AI3(rep, prog, q, ex)
    if want("C02-TR7"):
        # a waiter pushed onto a busy bottom (lane or workloop) completes a barrier only if it took the lock itself (shared with C02)
        from . import C02
        C02.rule_TR7(rep, prog, q)
    if want("C05-WR3"):
        # a parked dispatch_sync caller of the hierarchy is released only by the real hand-off: every wake-up is re-validated (shared with C05)
        from . import C05
        from dqsa import build as _b, ir as _ir
        C05.rule_WR3(rep, _ir.Program(_b.facts_for(["shims/lock"], srcdir=srcdir)))
    if want("C02-SB5"):
        # the serial queue at the bottom excludes only because every waiting submission form takes its barrier lock when dq_width == 1 (shared with C02)
        from . import C02
        C02.rule_barrier_flag(rep, prog, q)


MANIFEST = {
    "technique": "path-sensitive must-pass / control-dependence rules with value identity over the LLVM IR CFG + who-may-write census of do_targetq",
    "level": "the level-by-level acquire/release discipline of dispatch_sync through a target hierarchy, the drain-only-on-target rule, the no-redirect "
             "rule for serial drains and the writers of do_targetq are checked structurally (shape-independent: the rules constrain each loop iteration, "
             "hence every hierarchy depth); the cross-level exclusion theorem is not re-proved",
    "note": "relies on C02/C04 for the per-level lock protocol; trusts LLVM normalisation",
}
