"""C13 - dispatch_data objects behave as immutable byte strings.

Decided (memory-safety and ownership skeleton only): the subrange clamp is the overflow-free form and dominates every later
offset+length arithmetic; every function returning an object it did not allocate returns it retained (same object); recursion into
a record's object translates the offset by that record's `from`; records[] and the buffer destructor have a closed set of
writers/callers; allocation sizes are overflow-checked.
NOT decided: the byte-string algebra (that concat/subrange/map/apply/copy_region denote the right bytes for every composition)."""
from dqsa import paths
from .common import *
from .sync_common import entry_point
from .C03 import root_ptr
from .C10 import roots_of

UNITS = ["data", "init"]

FRESH = ("_dispatch_data_alloc", "dispatch_data_create", "dispatch_data_create_subrange", "dispatch_data_create_concat", "_dispatch_data_copy_region",
         "dispatch_data_copy_region", "dispatch_data_create_map", "dispatch_data_create_f", "_dispatch_data_subrange_map", "dispatch_data_create_with_transform",
         "dispatch_data_create_alloc", "_dispatch_object_alloc")
RECORD_WRITERS = {"dispatch_data_create_subrange": "constructor", "dispatch_data_create_concat": "constructor", "_dispatch_data_copy_region": "constructor",
                  "_dispatch_data_init": "constructor", "_dispatch_data_alloc": "constructor", "_dispatch_data_init_with_bytes": "constructor",
                  "dispatch_data_create_alloc": "constructor", "dispatch_data_create_f": "constructor", "dispatch_data_create": "constructor",
                  "_dispatch_data_dispose": "destructor", "_dispatch_data_flatten": "cache of the flattened bytes"}


def expr_has_load_of(prog, fn, op, field, depth=0, seen=None):
    seen = seen if seen is not None else set()
    i = fn.inst(op)
    if i is None or depth > 10 or i.id in seen:
        return False
    seen.add(i.id)
    if i.op == "load":
        return field in prog.fields(i)
    if i.op == "phi":
        return any(expr_has_load_of(prog, fn, v, field, depth + 1, seen) for v, _ in i.ops)
    if i.op in ("add", "sub", "zext", "sext", "trunc", "select"):
        return any(expr_has_load_of(prog, fn, o, field, depth + 1, seen) for o in (i.ops[1:] if i.op == "select" else i.ops))
    return False


def rule_MP1(rep, prog):
    rid = rep.rule("C13-MP1", "dispatch_data_create_subrange clamps with `length > size - offset` after `offset >= size` was excluded (no wrap) and every later "
                   "offset+length arithmetic is dominated by that clamp; the record walks are bounded by the record count", floor=3)
    fn = prog.fn("dispatch_data_create_subrange")
    rep.saw(fn)
    sizes = [i for i in fn.all_insts() if i.op == "load" and "size" in prog.fields(i) and root_ptr(fn, i.d["ptr"]["base"]) == ("a", 0)]
    ARG_OFF, ARG_LEN = ("a", 1), ("a", 2)
    # the out-of-range test offset >= size
    oor = [i for i in fn.all_insts() if i.op == "icmp" and i.d["pred"] in ("uge", "ult", "ugt", "ule") and
           {tuple(i.ops[0][:2]), tuple(i.ops[1][:2])} & {ARG_OFF} and any(fn.inst(o) in sizes for o in i.ops)]
    clamp = []
    for i in fn.all_insts():
        if i.op == "icmp" and i.d["pred"] in ("ugt", "ule", "ult", "uge"):
            for a, b in ((i.ops[0], i.ops[1]), (i.ops[1], i.ops[0])):
                s_ = fn.inst(b)
                if tuple(a[:2]) == ARG_LEN and s_ is not None and s_.op == "sub" and fn.inst(s_.ops[0]) in sizes and tuple(s_.ops[1][:2]) == ARG_OFF:
                    clamp.append(i)
    rep.require(rid, bool(oor) and bool(clamp) and all(any(fn.dominates(o, c) for o in oor) for c in clamp), fn.file + ":" + str(fn.d.get("line")), fn.name, "subrange-clamp-form",
                "dispatch_data_create_subrange must clamp with `length > dd->size - offset` under `offset < dd->size` (found %d such comparisons): the form "
                "`offset + length > size` wraps for huge lengths and leaves the slice unclamped (reads outside the buffer)" % len(clamp),
                sample={"oor_tests": len(oor), "clamps": len(clamp)})
    adds = [i for i in fn.all_insts() if i.op == "add" and (roots_of(fn, i.ops[0]) | roots_of(fn, i.ops[1])) >= set() and
            ({ARG_OFF} & (roots_of(fn, i.ops[0]) | roots_of(fn, i.ops[1]))) and (({ARG_LEN} & (roots_of(fn, i.ops[0]) | roots_of(fn, i.ops[1]))) or
             any(fn.inst(o) is not None and fn.inst(o).op in ("select", "phi") for o in i.ops))]
    bad = [a for a in adds if clamp and not any(fn.dominates(c, a) for c in clamp)]
    rep.require(rid, not bad, bad[0].loc if bad else fn.file, fn.name, "offset-plus-length-before-clamp",
                "dispatch_data_create_subrange computes offset+length at %s before the clamp established length <= size - offset (the sum can wrap)"
                % (bad[0].loc if bad else None), sample={"sums": len(adds)})
    nrec = [c for c in calls_named(fn, "_dispatch_data_num_records")] + [i for i in fn.all_insts() if i.op == "load" and "num_records" in prog.fields(i)]
    traps = [b for b in fn.blocks if b.term.op == "unreachable"]
    rep.require(rid, bool(nrec) and len(traps) >= 1, fn.file, fn.name, "record-walk-bounds",
                "the record walks must be bounded by the record count with the corruption crash on overrun", sample={"bounds": len(nrec), "crash_blocks": len(traps)})


def rule_OD2(rep, prog):
    rid = rep.rule("C13-OD2", "ownership: a function that returns a data object it did not create returns THAT object retained; every object stored into "
                   "records[].data_object of a new object is retained; dispose releases every record or destroys the leaf buffer exactly once", floor=5)
    for name in ("dispatch_data_create_subrange", "dispatch_data_create_concat", "_dispatch_data_copy_region", "dispatch_data_create_map", "dispatch_data_copy_region"):
        fn = prog.fn(name, required=False)
        if fn is None:
            continue
        rep.saw(fn)
        retains = calls_named(fn, ("_dispatch_data_retain", "dispatch_retain", "_dispatch_retain"))
        res = paths.walk(fn, entry_point(fn), lambda i: False, bound=200000)
        bad = []
        n = 0
        allocas = {i.id for i in fn.all_insts() if i.op == "alloca"}
        def norm(cx, op, version):
            r = cx.resolve(op)
            r = list(root_ptr(fn, r)) if r[0] == "i" else r
            r = cx.resolve(r)
            ri = fn.insts.get(r[1]) if r[0] == "i" else None
            if ri is not None and ri.op == "load":
                b = root_ptr(fn, ri.d["ptr"]["base"])
                if b[0] == "i" and b[1] in allocas:
                    return ("slot", b[1], version.get(ri.id, 0)), ri
            return tuple(r[:2]), ri
        for kind, inst, cx, path in res:
            if kind != "exit" or not inst.ops:
                continue
            # version every load of an address-taken local: loads with no store / escaping call in between are the same value
            version, cnt = {}, {}
            insts_on_path = [i for b in path for i in fn.blocks[b].insts]
            for i in insts_on_path:
                if i.op == "load":
                    b = root_ptr(fn, i.d["ptr"]["base"])
                    if b[0] == "i" and b[1] in allocas:
                        version[i.id] = cnt.get(b[1], 0)
                elif i.op == "store":
                    b = root_ptr(fn, i.d["ptr"]["base"])
                    if b[0] == "i" and b[1] in allocas:
                        cnt[b[1]] = cnt.get(b[1], 0) + 1
                elif i.op == "call":
                    for o in i.ops:
                        b = root_ptr(fn, o)
                        if b[0] == "i" and b[1] in allocas:
                            cnt[b[1]] = cnt.get(b[1], 0) + 1
            r, ri = norm(cx, inst.ops[0], version)
            if r[0] in ("n", "g", "c", "ce"):
                continue
            if ri is not None and ri.op == "call" and (ri.callee in FRESH or ri.callee == name):
                continue
            n += 1
            ok = False
            for c in retains:
                if c in insts_on_path:
                    a, _ = norm(cx, c.ops[0], version)
                    if a == r:
                        ok = True
            if not ok:
                bad.append((path, r))
        rep.require(rid, not bad, fn.file + ":" + str(fn.d.get("line")), name, "returns-borrowed-object:%s" % name,
                    "%s returns an object it did not create without retaining that same object on the path (%s): the caller's release frees an object "
                    "still owned by someone else while the object actually retained leaks (its destructor never runs)" % (name, bad[0] if bad else None),
                    sample={"fn": name, "borrowed_return_paths": n})
    # stores into records[].data_object of a fresh object
    for name in ("dispatch_data_create_subrange", "dispatch_data_create_concat", "_dispatch_data_copy_region"):
        fn = prog.fn(name)
        retains = calls_named(fn, ("_dispatch_data_retain", "dispatch_retain", "_dispatch_retain"))
        sts = [i for i in fn.all_insts() if i.op == "store" and "data_object" in prog.fields(i)]
        for s_ in sts:
            def slotkey(op):
                r = root_ptr(fn, op)
                ri = fn.insts.get(r[1]) if r[0] == "i" else None
                if ri is not None and ri.op == "load":
                    b = root_ptr(fn, ri.d["ptr"]["base"])
                    if b[0] == "i" and fn.insts[b[1]].op == "alloca":
                        return ("slot", b[1])
                return r
            v = slotkey(s_.ops[0])
            direct = any(slotkey(c.ops[0]) == v for c in retains)
            # or a retain loop over records[i].data_object of the new object
            # ... of the SAME new object the store goes into (retaining the source's records instead puts the references on the wrong leaves)
            tgt = slotkey(s_.d["ptr"]["base"])
            loop = any(fn.inst(c.ops[0]) is not None and fn.inst(c.ops[0]).op == "load" and "data_object" in prog.fields(fn.inst(c.ops[0]))
                       and slotkey(fn.inst(c.ops[0]).d["ptr"]["base"]) == tgt for c in retains)
            rep.require(rid, direct or loop, s_.loc, name, "stored-subobject-not-retained:%s" % name,
                        "%s stores an object into records[].data_object without retaining it" % name, sample={"fn": name, "store": s_.loc})
    # records copied wholesale (memcpy) into a fresh object: the references are taken on THAT object's records
    ncopy = 0
    for name in ("dispatch_data_create_subrange", "dispatch_data_create_concat"):
        fn = prog.fn(name)
        retains = calls_named(fn, ("_dispatch_data_retain", "dispatch_retain", "_dispatch_retain"))
        for m in fn.all_insts():
            if m.op != "call" or not (m.callee or "").startswith("llvm.memcpy"):
                continue
            di = fn.inst(m.ops[0])
            while di is not None and di.op == "bitcast":
                di = fn.inst(di.ops[0])
            if di is None or not di.d.get("ptr") or "records" not in prog.fields(di):
                continue
            dst = root_ptr(fn, di.d["ptr"]["base"])
            ncopy += 1
            ok = False
            for c in retains:
                l = fn.inst(c.ops[0])
                while l is not None and l.op == "bitcast":
                    l = fn.inst(l.ops[0])
                if l is not None and l.op == "load" and "data_object" in prog.fields(l) and root_ptr(fn, l.d["ptr"]["base"]) == dst and fn.inst_reaches(m, c):
                    ok = True
            rep.require(rid, ok, m.loc, name, "copied-records-not-retained:%s" % name,
                        "%s copies range records into the new object but no retain loop over the NEW object's records[].data_object follows (the references "
                        "are missing or taken on another object's records): a leaf the result points at is destroyed while in use, another never is" % name,
                        sample={"fn": name, "memcpy": m.loc})
    if ncopy < 2:
        rep.unknown(rid, "expected record memcpy sites in subrange/concat, found %d" % ncopy)
    fn = prog.fn("_dispatch_data_dispose")
    rep.saw(fn)
    db = calls_named(fn, "_dispatch_data_destroy_buffer")
    rl = calls_named(fn, ("_dispatch_data_release", "dispatch_release", "_dispatch_release"))
    rep.require(rid, len(db) == 1 and bool(rl), fn.file, fn.name, "dispose-shape",
                "_dispatch_data_dispose must destroy a leaf's buffer exactly once or release every record of a composite", sample={"destroy": len(db), "release": len(rl)})


def rule_OD5(rep, prog):
    rid = rep.rule("C13-OD5", "recursion into a record: whenever a data function is called on an object loaded from records[i].data_object, the offset passed "
                   "along includes that record's `from` (a slice inside a view must be translated by the view's origin)", floor=2)
    n = 0
    for fn in prog.all_functions():
        for c in fn.all_insts():
            if c.op != "call" or not c.callee or c.callee not in ("dispatch_data_create_subrange", "_dispatch_data_copy_region", "_dispatch_data_apply", "_dispatch_data_map_direct"):
                continue
            objs = [k for k, a in enumerate(c.ops) if fn.inst(list(root_ptr(fn, a))) is not None and fn.inst(list(root_ptr(fn, a))).op == "load"
                    and "data_object" in prog.fields(fn.inst(list(root_ptr(fn, a))))]
            if not objs:
                continue
            n += 1
            rep.saw(fn)
            ok = any(expr_has_load_of(prog, fn, a, "from") for k, a in enumerate(c.ops) if k not in objs)
            rep.require(rid, ok, c.loc, fn.name, "record-origin-dropped:%s->%s" % (fn.name, c.callee),
                        "%s calls %s on a record's data_object without adding the record's `from` to the offset: a slice lying inside a view with a non-zero "
                        "origin denotes bytes shifted by that origin" % (fn.name, c.callee), sample={"in": fn.name, "callee": c.callee})
    if n < 2:
        rep.unknown(rid, "fewer than 2 recursive record descents found (%d)" % n)


def rule_WM3(rep, prog):
    rid = rep.rule("C13-WM3", "immutability skeleton: records[] (data_object/from/length) and buf are written only by constructors / the destructor / the flatten "
                   "cache; _dispatch_data_destroy_buffer is called only from dispose and the empty-data constructors", floor=6)
    for fn in prog.all_functions():
        for i in fn.all_insts():
            if i.op in ("store", "atomicrmw", "cmpxchg") and (prog.fields(i) & frozenset(["data_object", "from", "length", "num_records"])) and \
               i.d.get("ptr", {}).get("sty", "").startswith(("struct.dispatch_data_s", "struct.range_record_s")):
                rep.saw(fn)
                rep.classified(rid, i.origin, i.origin in RECORD_WRITERS, i.loc, i.origin, "unclassified-record-writer:%s" % i.origin,
                            "%s writes the record table of a dispatch_data object but is not a constructor: data objects must be immutable once returned" % i.origin,
                            sample={"writer": i.origin, "class": RECORD_WRITERS.get(i.origin)})
    callers = sorted({f.name for f in prog.all_functions() for c in f.calls("_dispatch_data_destroy_buffer")})
    okc = set(callers) <= {"_dispatch_data_dispose", "_dispatch_data_init_with_bytes", "dispatch_data_create", "dispatch_data_create_f", "_dispatch_data_init"}
    rep.require(rid, okc and bool(callers), "src/data.c", "_dispatch_data_destroy_buffer", "destroy-buffer-callers",
                "_dispatch_data_destroy_buffer is called from %s: the client's destructor must run only when the leaf is disposed (or immediately for an empty "
                "request)" % callers, sample={"callers": callers})


def rule_BD4(rep, prog):
    rid = rep.rule("C13-BD4", "allocation sizes are overflow-checked: _dispatch_data_alloc computes n*sizeof(record)+extra with checked arithmetic; concat checks n1+n2", floor=2)
    fn = prog.fn("_dispatch_data_alloc")
    rep.saw(fn)
    ov = [c for c in fn.all_insts() if c.op == "call" and c.callee and ".with.overflow" in c.callee]
    rep.require(rid, len(ov) >= 2 and any("mul" in c.callee for c in ov), fn.file, fn.name, "alloc-unchecked",
                "_dispatch_data_alloc must compute the object size with overflow-checked multiply and add (found %s)" % [c.callee for c in ov], sample={"checked_ops": [c.callee for c in ov]})
    fn = prog.fn("dispatch_data_create_concat")
    rep.saw(fn)
    ov = [c for c in fn.all_insts() if c.op == "call" and c.callee and "add.with.overflow" in c.callee]
    rep.require(rid, bool(ov), fn.file, fn.name, "concat-unchecked", "dispatch_data_create_concat must check n1 + n2 for overflow", sample={"checked_ops": len(ov)})


def linform(fn, op, depth=0):
    """linear form {atom: coef} of an integer value over add/sub (atoms: other instructions / parameters; constants under key 1)"""
    if op[0] == "c":
        return {1: op[1]}
    if op[0] != "i" or depth > 12:
        return {tuple(op[:2]): 1}
    i = fn.insts[op[1]]
    if i.op in ("add", "sub"):
        a, b = linform(fn, i.ops[0], depth + 1), linform(fn, i.ops[1], depth + 1)
        out = dict(a)
        for k_, v in b.items():
            out[k_] = out.get(k_, 0) + (v if i.op == "add" else -v)
        return {k_: v for k_, v in out.items() if v}
    return {("i", i.id): 1}


def rule_AI6(rep, prog):
    rid = rep.rule("C13-AI6", "byte conservation in dispatch_data_create_subrange: the bytes taken from the first record (records[i].length - offset, the length stored "
                   "for the first record of the result) are exactly what is subtracted from `length` to obtain the bytes still to be covered by later records", floor=1)
    fn = prog.fn("dispatch_data_create_subrange")
    rep.saw(fn)
    allocs = {("i", c.id) for c in calls_named(fn, "_dispatch_data_alloc")}
    # first-record adjustment: store (load new.records[0].length - X) into new.records[0].length
    X = None
    for st in fn.all_insts():
        if st.op == "store" and "length" in prog.fields(st) and root_ptr(fn, st.d["ptr"]["base"]) in allocs:
            lf = linform(fn, st.ops[0])
            loads = [a for a, c in lf.items() if isinstance(a, tuple) and a[0] == "i" and fn.insts[a[1]].op == "load" and "length" in prog.fields(fn.insts[a[1]]) and c == 1]
            negs = [a for a, c in lf.items() if c == -1]
            if len(lf) == 2 and loads and len(negs) == 1:
                X = negs[0]
    if X is None:
        # the origin of the first record IS moved (from += offset) but its length is not reduced by the same amount: the first record of the result is too long
        fadj = []
        for st in fn.all_insts():
            if st.op == "store" and prog.fields(st) == {"from"} and root_ptr(fn, st.d["ptr"]["base"]) in allocs:
                lf = linform(fn, st.ops[0])
                if len(lf) == 2 and any(isinstance(a, tuple) and a[0] == "i" and fn.insts[a[1]].op == "load" and "from" in prog.fields(fn.insts[a[1]]) for a in lf):
                    fadj.append(st)
        if fadj:
            rep.violation(rid, fadj[0].loc, fn.name, "first-record-length-not-reduced",
                          "dispatch_data_create_subrange advances the first record's `from` by the in-record offset but does not reduce that record's length by the same "
                          "amount: the result's records cover more bytes than its size - consumers that walk the records (apply, map, the I/O write path's unwritten "
                          "tail) read past the intended range")
            return
        rep.unknown(rid, "first-record adjustment (records[0].length -= offset) not found in dispatch_data_create_subrange")
        return
    cands = []
    for i in fn.all_insts():
        if i.op != "sub":
            continue
        lf = linform(fn, ("i", i.id))
        srcl = [a for a, c in lf.items() if isinstance(a, tuple) and a[0] == "i" and fn.insts[a[1]].op == "load" and "length" in prog.fields(fn.insts[a[1]])
                and root_ptr(fn, fn.insts[a[1]].d["ptr"]["base"]) == ("a", 0) and c == -1]
        if srcl and X in lf and len(lf) == 3 and not any(u.op in ("add", "sub") and linform(fn, ("i", u.id)).keys() >= lf.keys() for u in fn.users(i)):
            cands.append((i, lf))
    if not cands:
        rep.unknown(rid, "remaining-length computation (length - (records[i].length - offset)) not found in dispatch_data_create_subrange")
        return
    for i, lf in cands:
        rep.require(rid, lf.get(X) == 1 and sorted(v for k_, v in lf.items() if k_ != X) == [-1, 1], i.loc, fn.name, "subrange-bytes-not-conserved",
                    "dispatch_data_create_subrange computes the bytes left after the first record as %s: the in-record offset must be ADDED back (the first record "
                    "contributes records[i].length - offset bytes); otherwise the result's records cover fewer bytes than its size (or the count wraps)"
                    % {("%%%d" % k_[1] if isinstance(k_, tuple) else k_): v for k_, v in lf.items()}, sample={"at": i.loc})


def edge_relations(fn, cx):
    """order facts known on a path / at a point, normalised to (\"ult\"|\"ule\", A, B) meaning A < B / A <= B (operands as (kind, id) tuples)"""
    out = []
    for cid, tv in cx.truth.items():
        t = fn.insts[cid]
        if t.op != "icmp" or t.d["pred"] not in ("ult", "ule", "ugt", "uge"):
            continue
        a, b = tuple(t.ops[0][:2]), tuple(t.ops[1][:2])
        pred = t.d["pred"]
        if not tv:
            pred = {"ult": "uge", "ule": "ugt", "ugt": "ule", "uge": "ult"}[pred]
        if pred in ("ugt", "uge"):
            a, b = b, a
            pred = {"ugt": "ult", "uge": "ule"}[pred]
        out.append((pred, a, b))
    return out


def rule_AI10(rep, prog):
    rid = rep.rule("C13-AI10", "the record walks tile the byte string exactly: dispatch_data_apply advances the running offset by the LENGTH of the record it just "
                   "visited (not by the leaf's size, nor from + length); copy_region descends into a record only when location < offset + record length (strictly: a "
                   "location on a record boundary belongs to the NEXT record); create_subrange keeps walking to the next record only while strictly more bytes "
                   "remain than the current record holds (no empty trailing record)", floor=3)
    # 1. apply
    fn = prog.fn("_dispatch_data_apply")
    rep.saw(fn)
    rec = [c for c in calls_named(fn, "_dispatch_data_apply")]
    n = 0
    for c in rec:
        off = fn.inst(c.ops[1])
        if off is None or off.op != "phi":
            continue
        objl = fn.inst(list(root_ptr(fn, c.ops[0])))
        for v, frm in off.ops:
            if not fn.dominates(off, fn.blocks[frm].term):
                continue
            n += 1
            lf = linform(fn, v)
            rest = {a: co for a, co in lf.items() if a != ("i", off.id)}
            ok = lf.get(("i", off.id)) == 1 and len(rest) == 1
            if ok:
                (a, co), = rest.items()
                l = fn.insts.get(a[1]) if isinstance(a, tuple) and a[0] == "i" else None
                ok = co == 1 and l is not None and l.op == "load" and prog.fields(l) == {"length"} and objl is not None and \
                    root_ptr(fn, l.d["ptr"]["base"]) == root_ptr(fn, objl.d["ptr"]["base"])
            rep.require(rid, ok, c.loc, fn.name, "apply-offset-advance",
                        "_dispatch_data_apply advances the offset reported to the applier by %s after visiting a record: it must advance by exactly that record's "
                        "length - with from + length, or the size of the underlying leaf, every region after a record that is a partial view of its leaf is reported "
                        "at an inflated offset: the regions no longer tile the string (and dispatch_data_create_map / the transforms write past their buffers)"
                        % {("%%%d" % k_[1] if isinstance(k_, tuple) else k_): v_ for k_, v_ in lf.items()}, sample={"call": c.loc})
    if n < 1:
        rep.unknown(rid, "loop-carried offset of _dispatch_data_apply not found")
    # 2. copy_region: strict containment before descending
    fn = prog.fn("_dispatch_data_copy_region")
    rep.saw(fn)
    LOC = ("a", 3)
    desc = [c for c in calls_named(fn, "_dispatch_data_copy_region")]
    if not desc:
        rep.unknown(rid, "no recursive descent in _dispatch_data_copy_region")
    for c in desc:
        cx = paths.dom_ctx(fn, c)
        rel = edge_relations(fn, cx)
        ok = False
        for pred, a, b in rel:
            if pred == "ult" and a == LOC and b[0] == "i":
                lf = linform(fn, list(b))
                if any(isinstance(k_, tuple) and k_[0] == "i" and fn.insts[k_[1]].op == "phi" and co == 1 for k_, co in lf.items()) and \
                   any(isinstance(k_, tuple) and k_[0] == "i" and fn.insts[k_[1]].op == "load" and "length" in prog.fields(fn.insts[k_[1]]) and co == 1 for k_, co in lf.items()):
                    ok = True
        rep.require(rid, ok, c.loc, fn.name, "copy-region-boundary",
                    "_dispatch_data_copy_region descends into a record without having established location < offset + (bytes of that record) strictly (known: %s): a "
                    "location that is the first byte of the next record is attributed to the previous one - the returned region does not contain the requested "
                    "location" % [(p_, a, b) for p_, a, b in rel if LOC in (a, b)], sample={"call": c.loc})
    # 3. create_subrange: continue to the next record only while remaining > record length (strict)
    fn = prog.fn("dispatch_data_create_subrange")
    rep.saw(fn)
    m = 0
    for ph in fn.all_insts():
        if ph.op != "phi" or ph.d.get("ty") != "i64":
            continue
        if any(tuple(v[:2]) == ("a", 1) for v, frm in ph.ops):
            continue          # the walk to the START record carries the caller's offset: there `offset >= record length` (non-strict) is the skip test
        for v, frm in ph.ops:
            sb = fn.inst(v)
            if sb is None or sb.op != "sub" or tuple(sb.ops[0][:2]) != ("i", ph.id) or not fn.dominates(ph, fn.blocks[frm].term):
                continue
            l = fn.inst(sb.ops[1])
            if l is None or l.op != "load" or "length" not in prog.fields(l):
                continue
            m += 1
            cx = paths.dom_ctx(fn, sb)
            rel = edge_relations(fn, cx)
            ok = ("ult", ("i", l.id), ("i", ph.id)) in rel
            rep.require(rid, ok, sb.loc, fn.name, "subrange-end-record-boundary",
                        "dispatch_data_create_subrange moves on to the next record (remaining -= record length) without having established record length < remaining "
                        "strictly (known: %s): a range that ends exactly on a record boundary gets an extra trailing record of length 0 - dispatch_data_apply then "
                        "delivers an empty region at offset == size and per-region consumers run their end-of-data step twice"
                        % [r_ for r_ in rel if ("i", ph.id) in (r_[1], r_[2])], sample={"sub": sb.loc})
    if m < 1:
        rep.unknown(rid, "remaining-length walk of dispatch_data_create_subrange not found")


def rule_BD7(rep, prog):
    rid = rep.rule("C13-BD7", "dispatch_data_copy_region: the record walk is entered only with location < size (strict); location == size yields the empty region at "
                   "offset size", floor=1)
    fn = prog.fn("dispatch_data_copy_region")
    rep.saw(fn)
    calls = calls_named(fn, "_dispatch_data_copy_region")
    if not calls:
        rep.unknown(rid, "no call of _dispatch_data_copy_region in dispatch_data_copy_region")
        return
    for c in calls:
        cx = paths.dom_ctx(fn, c)
        ok = False
        for cid, tv in cx.truth.items():
            t = fn.insts[cid]
            if t.op != "icmp":
                continue
            a, b = t.ops[0], t.ops[1]
            la, lb = fn.inst(a), fn.inst(b)
            is_size = lambda x: x is not None and x.op == "load" and "size" in prog.fields(x) and root_ptr(fn, x.d["ptr"]["base"]) == ("a", 0)
            pred = t.d["pred"]
            if tuple(a[:2]) == ("a", 1) and is_size(lb):      # location ? size
                ok = ok or (pred, tv) in (("uge", False), ("ult", True))
            if tuple(b[:2]) == ("a", 1) and is_size(la):      # size ? location
                ok = ok or (pred, tv) in (("ule", False), ("ugt", True))
        rep.require(rid, ok, c.loc, fn.name, "copy-region-location-not-strictly-inside",
                    "dispatch_data_copy_region walks the records without having established location < size: for location == size a leaf returns the whole object "
                    "at offset 0 and a composite runs off its record list", sample={"call": c.loc})


NUM_RECORDS_READERS = {"_dispatch_data_leaf": "n == 0 <=> leaf", "_dispatch_data_num_records": "n ?: 1 (a leaf counts as one record)"}


def rule_TB11(rep, prog):
    rid = rep.rule("C13-TB11", "destructor sentinels are exhaustive: every _dispatch_data_destructor_* sentinel block this build defines (their bodies are crash traps) is "
                   "recognised by _dispatch_data_destroy_buffer before the generic `submit the destructor block` path, or translated away by dispatch_data_create "
                   "before it is stored; and dispatch_data_create_f passes every sentinel through unwrapped", floor=3)
    sentinels = sorted({name for m in prog.modules.values() for name, g in m.globals.items()
                        if name.startswith("_dispatch_data_destructor_") and "init" in g})
    if len(sentinels) < 3:
        rep.unknown(rid, "fewer than 3 destructor sentinel definitions found (%s)" % sentinels)
        return
    def tested(fn, at, s):
        """truth of `x == @s` on every path reaching `at` (None if not decided)"""
        dx = paths.dom_ctx(fn, at)
        for iid, tv in dx.truth.items():
            t = fn.insts[iid]
            if t.op != "icmp" or t.d["pred"] not in ("eq", "ne"):
                continue
            for o in t.ops:
                l = fn.inst(o)
                if l is not None and l.op == "load" and l.d.get("ptr") and tuple(l.d["ptr"]["base"][:2]) == ("g", s):
                    return tv == (t.d["pred"] == "eq")
        return None
    db = prog.fn("_dispatch_data_destroy_buffer")
    cr = prog.fn("dispatch_data_create")
    cf = prog.fn("dispatch_data_create_f")
    for f in (db, cr, cf):
        rep.saw(f)
    subs = calls_named(db, "dispatch_async_f")
    # the copy whose result is stored as the object's destructor (the empty-buffer path hands its copy straight to _dispatch_data_destroy_buffer: covered by `handled`;
    # the internal, non-exported INLINE sentinel is never passed with an empty buffer by the library itself)
    def feeds_destroy(c):
        vals = {("i", c.id)} | {("i", b.id) for b in cr.all_insts() if b.op == "bitcast" and tuple(b.ops[0][:2]) == ("i", c.id)}
        return any(tuple(a[:2]) in vals for d in calls_named(cr, "_dispatch_data_destroy_buffer") for a in d.ops)
    copies = [c for c in calls_named(cr, "_dispatch_Block_copy") if not feeds_destroy(c)]
    if not subs or not copies:
        rep.unknown(rid, "generic destructor submission / Block_copy of the client destructor not found")
        return
    for s in sentinels:
        handled = all(tested(db, c, s) is False for c in subs)
        translated = all(tested(cr, c, s) is False for c in copies)
        rep.require(rid, handled or translated, subs[0].loc, db.name, "sentinel-not-handled:%s" % s,
                    "the destructor sentinel %s is neither recognised by _dispatch_data_destroy_buffer nor translated by dispatch_data_create: releasing a data object "
                    "created with it submits the sentinel block itself, whose body is an internal crash trap, instead of destroying the buffer exactly once" % s,
                    sample={"sentinel": s, "by": "destroy_buffer" if handled else "create"})
    # create_f: the function-pointer wrapper is built only for genuine functions
    wraps = [st for st in cf.all_insts() if st.op == "store" and st.ops[0][0] == "f" and "block_invoke" in str(st.ops[0][1])]
    if not wraps:
        rep.unknown(rid, "dispatch_data_create_f: wrapper block construction not found")
        return
    for s in sentinels:
        rep.require(rid, all(tested(cf, w, s) is False for w in wraps), wraps[0].loc, cf.name, "sentinel-wrapped-as-function:%s" % s,
                    "dispatch_data_create_f wraps the sentinel %s in a block that calls it as a C function: the sentinel is a block object, not code" % s,
                    sample={"sentinel": s, "by": "create_f"})


def _must_write(prog, fn, k, seen=()):
    """every path from the entry of fn to a return writes through pointer parameter k: directly, or by passing it to a callee that must write it"""
    if fn.name in seen:
        return False
    writes = []
    for i in fn.all_insts():
        if i.op == "store" and i.d.get("ptr") and tuple(root_ptr(fn, i.d["ptr"]["base"])[:2]) == ("a", k) and i.d["ptr"].get("off", 0) == 0:
            writes.append(i)
    for c in fn.all_insts():
        if c.op != "call" or not c.callee:
            continue
        g = prog.fn(c.callee, required=False)
        if g is None:
            continue
        for j, a in enumerate(c.ops):
            if tuple(a[:2]) == ("a", k) and j < len(g.params) and _must_write(prog, g, j, seen + (fn.name,)):
                writes.append(c)
    first = next(iter(fn.all_insts()))
    if first in writes:
        return True
    rets = [i for i in fn.all_insts() if i.op == "ret"]
    return not any(fn.inst_reaches(first, r, avoid_insts=writes) for r in rets)


def rule_MW12(rep, prog):
    rid = rep.rule("C13-MW12", "dispatch_data_copy_region always reports an offset: on every path to a return the caller's *offset_ptr is written (by the entry point "
                   "itself or by a helper that writes it on all of ITS paths) - it never keeps whatever the caller's variable held before", floor=1)
    fn = prog.fn("dispatch_data_copy_region")
    rep.saw(fn)
    k = len(fn.params) - 1
    rep.require(rid, _must_write(prog, fn, k), next(iter(fn.all_insts())).loc, fn.name, "offset-out-param-not-written",
                "dispatch_data_copy_region can return a region without having written *offset_ptr: for a leaf (or a subrange of a leaf) the helper returns the object "
                "without touching the offset, so the caller reads a stale or uninitialised offset for the region", sample={"param": k})


def rule_AI13(rep, prog):
    rid = rep.rule("C13-AI13", "record displacement is applied exactly once in dispatch_data_apply: the pointer handed to the applier is _dispatch_data_map_direct(dd, A) "
                   "displaced by B with A + B == from (the record's origin inside the leaf) - not 0, not twice", floor=1)
    fn = prog.fn("_dispatch_data_apply")
    rep.saw(fn)
    # which parameter is `from`: the one the recursion fills from records[i].from
    k = None
    for c in calls_named(fn, fn.name):
        for j, a in enumerate(c.ops):
            l = fn.inst(a)
            if l is not None and l.op == "load" and "from" in prog.fields(l):
                k = j
    outs = calls_named(fn, "_dispatch_data_apply_client_callout")
    if k is None or not outs:
        rep.unknown(rid, "_dispatch_data_apply: `from` parameter / applier callout not found")
        return
    for c in outs:
        found = False
        for a in c.ops:
            g = fn.inst(a)
            disp = {}
            while g is not None and g.op in ("getelementptr", "bitcast"):
                if g.op == "getelementptr":
                    for o in g.ops[1:]:
                        for k_, v in linform(fn, o).items():
                            disp[k_] = disp.get(k_, 0) + v
                g = fn.inst(g.ops[0])
            if g is not None and g.op == "call" and g.callee == "_dispatch_data_map_direct":
                found = True
                tot = dict(disp)
                for k_, v in linform(fn, g.ops[1]).items():
                    tot[k_] = tot.get(k_, 0) + v
                tot = {k_: v for k_, v in tot.items() if v}
                rep.require(rid, tot == {("a", k): 1}, c.loc, fn.name, "record-origin-not-applied-once",
                            "_dispatch_data_apply hands the applier a pointer displaced by %s from the start of the leaf buffer instead of exactly `from`: a fragment whose "
                            "record starts inside its leaf is read at the wrong place (and past the end of the buffer when twice `from` plus the length exceeds it)"
                            % {str(k_): v for k_, v in tot.items()}, sample={"callout": c.loc})
        if not found:
            rep.unknown(rid, "_dispatch_data_apply: the applier's buffer is not derived from _dispatch_data_map_direct at %s" % c.loc)


def rule_SB15(rep, prog):
    rid = rep.rule("C13-SB15", "copy_region hands back the object itself as the region only when the requested record IS the whole object: the `reuse this object` "
                   "shortcut of _dispatch_data_copy_region is taken under from == 0 and size EQUAL to the object's size (a record that is a proper prefix of its "
                   "leaf must get a new object of the record's length, or the region would be larger than the data it belongs to)", floor=1)
    fn = prog.fn("_dispatch_data_copy_region")
    rep.saw(fn)
    slots = {("i", st.d["ptr"]["base"][1]) for st in fn.all_insts() if st.op == "store" and tuple(st.ops[0][:2]) == ("a", 0) and st.d.get("ptr") and st.d["ptr"]["base"][0] == "i"}
    def is_obj(o):
        if tuple(o[:2]) == ("a", 0):
            return True
        l = fn.inst(o)
        return l is not None and l.op == "load" and l.d.get("ptr") and tuple(l.d["ptr"]["base"][:2]) in slots
    def size_eq(t, tv):
        if t.op != "icmp" or t.d["pred"] not in ("eq", "ne") or tv != (t.d["pred"] == "eq"):
            return False
        for a, b in ((t.ops[0], t.ops[1]), (t.ops[1], t.ops[0])):
            l = fn.inst(b)
            if tuple(a[:2]) == ("a", 2) and l is not None and l.op == "load" and "size" in prog.fields(l) and is_obj(l.d["ptr"]["base"]):
                return True
        return False
    def from_zero(t, tv):
        if t.op != "icmp" or t.d["pred"] not in ("eq", "ne") or tv != (t.d["pred"] == "eq"):
            return False
        for a, b in ((t.ops[0], t.ops[1]), (t.ops[1], t.ops[0])):
            if b[0] == "c" and b[1] == 0:
                l = fn.inst(a)
                if tuple(a[:2]) == ("a", 1) or (l is not None and l.op == "load" and not prog.fields(l) and l.d.get("ptr") and l.d["ptr"]["base"][0] == "i"):
                    return True
        return False
    n = 0
    for sel in fn.all_insts():
        if sel.op != "select" or not (is_obj(sel.ops[1]) and sel.ops[2][0] == "n" or is_obj(sel.ops[2]) and sel.ops[1][0] == "n"):
            continue
        n += 1
        want_true = is_obj(sel.ops[1])
        cx = paths.dom_ctx(fn, sel)
        c2 = paths.PathCtx(fn)
        c2.learn(sel.ops[0], want_true)
        truth = dict(cx.truth); truth.update(c2.truth)
        ok = any(size_eq(fn.insts[i], tv) for i, tv in truth.items()) and any(from_zero(fn.insts[i], tv) for i, tv in truth.items())
        rep.require(rid, ok, sel.loc, fn.name, "object-reused-for-a-smaller-record",
                    "_dispatch_data_copy_region reuses the object itself as the region without having established from == 0 and size == the object's size: a record "
                    "that is a proper prefix of its leaf returns the whole leaf - the region is bigger than the object it was copied from and contains bytes the "
                    "object does not represent", sample={"site": sel.loc})
    if n < 1:
        # branch form: the object stored / merged as `reusable` under a branch
        for ph in fn.all_insts():
            if ph.op != "phi":
                continue
            for v, frm in ph.ops:
                if is_obj(v) and any(w[0] == "n" for w, f2 in ph.ops):
                    n += 1
                    cx = paths.dom_ctx(fn, fn.blocks[frm].term)
                    ok = any(size_eq(fn.insts[i], tv) for i, tv in cx.truth.items()) and any(from_zero(fn.insts[i], tv) for i, tv in cx.truth.items())
                    rep.require(rid, ok, ph.loc, fn.name, "object-reused-for-a-smaller-record",
                                "_dispatch_data_copy_region reuses the object itself as the region without having established from == 0 and size == the object's size",
                                sample={"site": ph.loc})
    if n < 1:
        rep.unknown(rid, "_dispatch_data_copy_region: the whole-object shortcut was not found")


def rule_OD14(rep, prog):
    rid = rep.rule("C13-OD14", "a client destructor block that may be run later is a heap copy: every destructor handed to _dispatch_data_destroy_buffer (which submits it "
                   "to a queue asynchronously) is the object's stored destructor, the result of _dispatch_Block_copy, or a sentinel - never the caller's block as "
                   "passed in, which may live in a stack frame that is gone when the queue runs it", floor=2)
    n = 0
    for fn in prog.all_functions():
        for c in calls_named(fn, "_dispatch_data_destroy_buffer"):
            n += 1
            rep.saw(fn)
            a = c.ops[3]
            i = fn.inst(a)
            while i is not None and i.op == "bitcast":
                a = i.ops[0]
                i = fn.inst(a)
            ok = False
            if i is not None and i.op == "call" and i.callee == "_dispatch_Block_copy":
                ok = True
            elif i is not None and i.op == "load" and ("destructor" in prog.fields(i) or (i.d.get("ptr") and i.d["ptr"]["base"][0] == "g")):
                ok = True
            elif a[0] == "g":
                ok = True
            rep.require(rid, ok, c.loc, fn.name, "destructor-block-not-copied:%s" % fn.name,
                        "%s hands _dispatch_data_destroy_buffer a destructor block that is neither a copy nor the object's stored one: the block is submitted to the "
                        "destructor queue asynchronously and released there - a stack block (dispatch_data_create_f builds one) is run after its frame is gone, so the "
                        "destructor does not run once with the buffer it was given" % fn.name, sample={"site": c.loc})
    if n < 2:
        rep.unknown(rid, "fewer than 2 calls of _dispatch_data_destroy_buffer found (%d)" % n)


def rule_SB16(rep, prog):
    rid = rep.rule("C13-SB16", "dispatch_data_create_map reports failure coherently: the contiguous copy made by _dispatch_data_flatten is tested for NULL before it is "
                   "published, and on the paths where it is NULL the size written to *size_ptr is 0 (not the object's full length next to a NULL buffer)", floor=2)
    fn = prog.fn("dispatch_data_create_map")
    rep.saw(fn)
    fl = calls_named(fn, "_dispatch_data_flatten")
    sst = [st for st in fn.all_insts() if st.op == "store" and tuple(root_ptr(fn, st.d["ptr"]["base"])[:2]) == ("a", 2)]
    if not fl or not sst:
        rep.unknown(rid, "dispatch_data_create_map: flatten call / store through size_ptr not found")
        return
    n = 0
    for c in fl:
        for kind, inst, cx, path in paths.walk(fn, c, lambda i: i in sst):
            if kind != "hit":
                continue
            n += 1
            key = ("i", c.id)
            if key in cx.isnull:
                v = cx.value(inst.ops[0])
                rep.require(rid, v == ("c", 0), inst.loc, fn.name, "null-buffer-with-nonzero-size",
                            "on the path %s where the flattened copy is NULL dispatch_data_create_map writes a size that is not 0 to *size_ptr" % path, sample={"path": path})
            elif key in cx.nonnull:
                rep.ok(rid, "non-null path", {"path": path})
            else:
                rep.violation(rid, inst.loc, fn.name, "flattened-copy-published-unchecked",
                              "dispatch_data_create_map publishes the result of _dispatch_data_flatten together with the object's full size without testing it for NULL "
                              "(path %s): when the allocation of the contiguous copy fails the caller gets a NULL buffer and a non-zero size (and an empty object "
                              "instead of NULL)" % path)
    if n < 2:
        rep.unknown(rid, "dispatch_data_create_map: fewer than 2 paths from the flatten call to the size report (%d)" % n)


def rule_AI17(rep, prog):
    rid = rep.rule("C13-AI17", "the single-record shortcut of dispatch_data_create_subrange is taken only when the slice ENDS inside the record it starts in: the recursion "
                   "into records[i].data_object is reached under (offset within the record) + length <= records[i].length - comparing the length alone lets a "
                   "slice that spills into the next record be cut from the first record's leaf (bytes the object does not contain, or a short result)", floor=1)
    fn = prog.fn("dispatch_data_create_subrange")
    rep.saw(fn)
    n = 0
    for c in calls_named(fn, fn.name):
        o = fn.inst(c.ops[0])
        if o is None or o.op != "load" or "data_object" not in prog.fields(o):
            continue
        n += 1
        # the offset handed down is records[i].from + OFF: OFF is the offset within the record; the length handed down is LEN
        lf = linform(fn, c.ops[1])
        offs = [a for a, co in lf.items() if co == 1 and isinstance(a, tuple) and not (a[0] == "i" and fn.insts[a[1]].op == "load" and "from" in prog.fields(fn.insts[a[1]]))]
        LEN = tuple(c.ops[2][:2])
        ok = False
        for p_, a, b in edge_relations(fn, paths.dom_ctx(fn, c)):
            bl = fn.inst(list(b)) if b[0] == "i" else None
            if p_ != "ule" or bl is None or bl.op != "load" or "length" not in prog.fields(bl):
                continue
            la = linform(fn, list(a))
            if la.get(LEN) == 1 and any(la.get(x) == 1 for x in offs) and len([k_ for k_ in la if k_ != 1]) == 2:
                ok = True
        rep.require(rid, ok, c.loc, fn.name, "single-record-shortcut-ignores-offset",
                    "dispatch_data_create_subrange recurses into one record's leaf without having established offset-in-record + length <= that record's length: a slice "
                    "that starts inside the record at a non-zero offset and spills into the next one is cut from the first leaf alone - wrong bytes (leaf bytes that are "
                    "not part of the represented string) or a clamped, short result", sample={"site": c.loc})
    if n < 1:
        rep.unknown(rid, "dispatch_data_create_subrange: recursion into a single record not found")


def rule_SB8(rep, prog):
    rid = rep.rule("C13-SB8", "record counting goes through the two helpers: the raw num_records field (0 for a leaf) is read only by _dispatch_data_leaf / "
                   "_dispatch_data_num_records; the public apply entry points both return early for an empty object; a one-record object's record length equals "
                   "its size", floor=5)
    n = 0
    for fn in prog.all_functions():
        for l in fn.all_insts():
            if l.op == "load" and "num_records" in prog.fields(l) and "dispatch_data_s" in (l.d["ptr"].get("sty") or ""):
                n += 1
                rep.saw(fn)
                rep.classified(rid, l.origin, l.origin in NUM_RECORDS_READERS, l.loc, fn.name, "raw-num_records-read:%s" % l.origin,
                               "%s reads dd->num_records directly: the field is 0 for a leaf, which every index / count computation must treat as ONE record "
                               "(_dispatch_data_num_records); used raw, prepending a leaf to a fragmented object writes the copied records over the leaf's own "
                               "record and leaves a NULL record behind" % l.origin, sample={"reader": l.origin})
    # public apply entry points
    for name in ("dispatch_data_apply", "dispatch_data_apply_f"):
        fn = prog.fn(name, required=False)
        if fn is None:
            continue
        rep.saw(fn)
        for c in calls_named(fn, "_dispatch_data_apply"):
            n += 1
            cx = paths.dom_ctx(fn, c)
            ok = False
            for cid, tv in cx.truth.items():
                t = fn.insts[cid]
                if t.op == "icmp" and t.d["pred"] in ("eq", "ne") and t.ops[1][0] == "c" and t.ops[1][1] == 0 and tv == (t.d["pred"] == "ne"):
                    l = fn.inst(t.ops[0])
                    if l is not None and l.op == "load" and "size" in prog.fields(l) and root_ptr(fn, l.d["ptr"]["base"]) == ("a", 0):
                        ok = True
            rep.require(rid, ok, c.loc, name, "apply-on-empty-object:%s" % name,
                        "%s walks the object without having excluded size == 0: the empty object has neither a buffer nor a record, so the walk reads "
                        "records[0] past the end of the object and recurses into whatever is there" % name, sample={"fn": name})
    # one-record constructors
    for fn in prog.all_functions():
        for a in calls_named(fn, "_dispatch_data_alloc"):
            if not (a.ops[0][0] == "c" and a.ops[0][1] == 1):
                continue
            me = ("i", a.id)
            szs = [st for st in fn.all_insts() if st.op == "store" and prog.fields(st) == frozenset(["size"]) and root_ptr(fn, st.d["ptr"]["base"]) == me]
            lns = [st for st in fn.all_insts() if st.op == "store" and "length" in prog.fields(st) and root_ptr(fn, st.d["ptr"]["base"]) == me]
            if not szs or not lns:
                continue
            n += 1
            rep.saw(fn)
            ok = all(tuple(x.ops[0][:2]) == tuple(y.ops[0][:2]) for x in szs for y in lns)
            rep.require(rid, ok, lns[0].loc, fn.name, "one-record-length-differs-from-size:%s" % fn.name,
                        "%s builds a one-record object whose record length is not the value stored as its size: the object reads correctly on its own (size is "
                        "used) but once it is an operand of concat / subrange the copied record covers bytes outside the region" % fn.name,
                        sample={"fn": fn.name, "alloc": a.loc})
    if n < 5:
        rep.unknown(rid, "fewer than 5 obligations formed (%d)" % n)


def rule_SB9(rep, prog):
    rid = rep.rule("C13-SB9", "entry-point case splits: create_map returns the object it was given (or a flat copy of the same size / the empty singleton), never a "
                   "different existing object; create / create_f run the destructor of EVERY buffer they do not adopt (size 0 included); create_subrange takes the "
                   "'whole object' shortcut only for offset 0 and the 'empty' shortcut only for offset >= size or length 0", floor=30)
    # 1. dispatch_data_create_map
    fn = prog.fn("dispatch_data_create_map")
    rep.saw(fn)
    def roots(op, depth=0):
        if op[0] != "i" or depth > 6:
            return [op]
        i = fn.inst(op)
        if i is None:
            return [op]
        if i.op == "phi":
            return [r for v, frm in i.ops for r in roots(v, depth + 1)]
        if i.op in ("bitcast",):
            return roots(i.ops[0], depth + 1)
        return [op]
    rets = [b.term for b in fn.blocks if b.term.op == "ret" and b.term.ops]
    if not rets:
        rep.unknown(rid, "dispatch_data_create_map has no value return")
    for r in rets:
        for o in roots(r.ops[0]):
            i = fn.inst(o) if o[0] == "i" else None
            ok = (list(o[:2]) == ["a", 0]) or o[0] == "n" or (o[0] == "g" and o[1] == "_dispatch_data_empty") or \
                 (i is not None and i.op == "call" and i.callee in ("dispatch_data_create", "dispatch_data_create_f", "_dispatch_data_alloc"))
            rep.require(rid, ok, r.loc, fn.name, "map-returns-other-object:%s" % (o[:2],),
                        "dispatch_data_create_map can return an object that is neither its argument, a newly created flat copy, the empty singleton nor NULL (%s): e.g. "
                        "the leaf UNDER a one-record view instead of the view - the caller's object then has the leaf's size and bytes, not the mapped range's"
                        % ("%s at %s" % (i.op, i.loc) if i is not None else o,), sample={"returned": str(o[:2])})
        for c in [x for x in fn.all_insts() if x.op == "call" and x.callee in ("dispatch_data_create", "dispatch_data_create_f")]:
            sz = fn.inst(c.ops[1])
            ok = sz is not None and sz.op == "load" and "size" in prog.fields(sz) and list(sz.d["ptr"]["base"][:2]) == ["a", 0]
            rep.require(rid, ok, c.loc, fn.name, "map-copy-size", "dispatch_data_create_map creates the flat copy with a size other than the argument's size", sample={"call": c.loc})
    # 2. dispatch_data_create(_f): every exit that hands back the empty singleton has disposed of the caller's buffer unless there was no destructor
    fnf = prog.fn("dispatch_data_create_f")
    rep.saw(fnf)
    dl = calls_named(fnf, "dispatch_data_create")
    okf = bool(dl) and all(list(c.ops[0][:2]) == ["a", 0] and list(c.ops[1][:2]) == ["a", 1] for c in dl) and \
        all(fnf.inst(b.term.ops[0]) in dl for b in fnf.blocks if b.term.op == "ret" and b.term.ops)
    rep.require(rid, okf, fnf.file + ":" + str(fnf.d.get("line")), fnf.name, "create-f-delegates",
                "dispatch_data_create_f must hand its buffer and size unchanged to dispatch_data_create and return that result on every path (the destructor "
                "obligations are discharged there)", sample={"delegations": len(dl)})
    # ... and every destructor sentinel - DEFAULT (NULL: copy the bytes), FREE, NONE, INLINE - is handed through unchanged; only a real function is wrapped
    sent = {}
    for l in fnf.all_insts():
        if l.op == "load" and l.d.get("ptr") and l.d["ptr"]["base"][0] == "g" and "_dispatch_data_destructor_" in str(l.d["ptr"]["base"][1]):
            sent.setdefault(l.d["ptr"]["base"][1], []).append(l)
    if not dl or len(sent) < 2:
        rep.unknown(rid, "anchor vanished: dispatch_data_create_f does not compare its destructor with the sentinel destructors (%d)" % len(sent))
    else:
        fake = {g_: 0x1000 * (k_ + 1) for k_, g_ in enumerate(sorted(sent))}
        cases = [("DISPATCH_DATA_DESTRUCTOR_DEFAULT", 0, True)] + [(g_, a_, True) for g_, a_ in sorted(fake.items())] + [("a client function", 0x777000, False)]
        for nm, val, passthrough in cases:
            env = {("a", 3): val}
            for g_, ls in sent.items():
                for l in ls:
                    env[l.id] = fake[g_]
            hit, env = concrete_walk(fnf, env, lambda i: i in dl)
            if hit is None:
                rep.unknown(rid, "could not follow dispatch_data_create_f concretely for destructor %s" % nm)
                continue
            d = hit.ops[3]
            dv = env.get(d[1]) if d[0] == "i" else None
            cv = ceval(fnf, d, {k_: v_ for k_, v_ in env.items() if not isinstance(v_, tuple)})
            dres = dv[1] if isinstance(dv, tuple) else tuple(d[:2])
            ri = fnf.inst(list(dres)) if dres[0] == "i" else None
            while ri is not None and ri.op == "bitcast":
                dres = tuple(ri.ops[0][:2])
                ri = fnf.inst(list(dres)) if dres[0] == "i" else None
            wrapped = ri is not None and ri.op == "alloca"
            same = not wrapped and (cv == val or dres == ("a", 3))
            rep.require(rid, (same and not wrapped) if passthrough else wrapped, hit.loc, fnf.name, "create-f-destructor:%s" % nm,
                        "dispatch_data_create_f called with destructor %s %s: the sentinels must reach dispatch_data_create unchanged (a NULL destructor means 'copy the "
                        "bytes' - wrapped in a block the object aliases the caller's buffer and the wrapper later calls a NULL function), a real function must be "
                        "wrapped" % (nm, "wraps it in a block" if wrapped else "passes it through"), sample={"destructor": nm, "wrapped": not passthrough})
    for name in ("dispatch_data_create",):
        fn = prog.fn(name)
        rep.saw(fn)
        destroy = calls_named(fn, "_dispatch_data_destroy_buffer")
        dnull = [t for t in fn.all_insts() if t.op == "icmp" and t.d["pred"] in ("eq", "ne") and list(t.ops[0][:2]) == ["a", 3] and t.ops[1][0] == "n"]
        if not destroy or not dnull:
            rep.unknown(rid, "anchor vanished in %s (destroy_buffer calls=%d, destructor NULL tests=%d)" % (name, len(destroy), len(dnull)))
            continue
        n = 0
        for kind, inst, cx, path in paths.walk(fn, entry_point(fn), lambda i: False):
            if kind != "exit" or not inst.ops:
                continue
            v = cx.resolve(inst.ops[0]) if hasattr(cx, "resolve") else inst.ops[0]
            if not (v and v[0] == "g" and v[1] == "_dispatch_data_empty"):
                continue
            n += 1
            passed = any(i in destroy for b in path for i in fn.blocks[b].insts)
            known_null = any(cx.truth.get(t.id) == (t.d["pred"] == "eq") for t in dnull if t.id in cx.truth)
            rep.require(rid, passed or known_null, inst.loc, name, "empty-create-skips-destructor:%s" % name,
                        "%s returns the empty singleton on a path (%s) that neither ran the destructor on the caller's buffer nor saw the destructor NULL: a real buffer "
                        "passed with size 0 (or a NULL buffer with a destructor) is never released - the destructor runs zero times instead of once" % (name, path),
                        sample={"path": path})
        if n == 0:
            rep.unknown(rid, "%s: no return of the empty singleton found" % name)
    # 3. dispatch_data_create_subrange: concrete classification of the entry case split
    fn = prog.fn("dispatch_data_create_subrange")
    rep.saw(fn)
    szl = [l for l in fn.all_insts() if l.op == "load" and "size" in prog.fields(l) and list(l.d["ptr"]["base"][:2]) == ["a", 0]]
    if not szl:
        rep.unknown(rid, "anchor vanished: dispatch_data_create_subrange does not read dd->size")
        return
    S = 10
    M = (1 << 64) - 1
    for off in (0, 3, 9, 10, 11, M):
        for ln in (0, 1, 7, 10, 11, M):
            env = {l.id: S for l in szl}
            env[("a", 1)] = off
            env[("a", 2)] = ln
            stop = lambda i: i.op == "ret" or (i.op == "call" and i.callee and "retain" not in i.callee and not i.callee.startswith("llvm."))
            hit, env = concrete_walk(fn, env, stop)
            if hit is None:
                rep.unknown(rid, "could not follow dispatch_data_create_subrange concretely for offset %d length %d" % (off, ln))
                continue
            if hit.op == "ret":
                v = hit.ops[0]
                if v[0] == "i" and isinstance(env.get(v[1]), tuple):
                    v = env[v[1]][1]
                got = "whole" if list(v[:2]) == ["a", 0] else "empty" if (v[0] == "g" and v[1] == "_dispatch_data_empty") else "other"
            else:
                got = "slice"
            want = "empty" if (off >= S or ln == 0) else "whole" if (off == 0 and ln >= S) else "slice"
            if want == "whole" and got == "slice":
                got = want      # building an equal object instead of retaining the argument is also correct
            rep.require(rid, got == want, fn.file + ":" + str(fn.d.get("line")), fn.name, "subrange-case:%d:%d" % (off if off < M else -1, ln if ln < M else -1),
                        "dispatch_data_create_subrange(dd of size %d, offset %s, length %s) takes the '%s' case, expected '%s': %s"
                        % (S, off if off < M else "SIZE_MAX", ln if ln < M else "SIZE_MAX", got, want,
                           "the 'whole object' shortcut is valid only at offset 0 - 'drop the first k bytes, keep up to size' must yield [k, size)" if got == "whole"
                           else "the slice denotes the clamped range [offset, min(offset+length, size))"), sample={"size": S, "offset": off, "length": ln, "case": want})


def run(rep, tier="quick", srcdir=None, only=None):
    prog, units = load(UNITS, tier, srcdir)
    rep.units = units
    want = lambda r: only is None or r in only
    if want("C13-MP1"):
        rule_MP1(rep, prog)
    if want("C13-OD2"):
        rule_OD2(rep, prog)
    if want("C13-OD5"):
        rule_OD5(rep, prog)
    if want("C13-WM3"):
        rule_WM3(rep, prog)
    if want("C13-BD4"):
        rule_BD4(rep, prog)
    if want("C13-AI6"):
        rule_AI6(rep, prog)
    if want("C13-BD7"):
        rule_BD7(rep, prog)
    if want("C13-SB9"):
        rule_SB9(rep, prog)
    if want("C13-AI10"):
        rule_AI10(rep, prog)
    if want("C13-SB8"):
        rule_SB8(rep, prog)
    if want("C13-TB11"):
        rule_TB11(rep, prog)
    if want("C13-MW12"):
        rule_MW12(rep, prog)
    if want("C13-AI13"):
        rule_AI13(rep, prog)
    if want("C13-SB15"):
        rule_SB15(rep, prog)
    if want("C13-OD14"):
        rule_OD14(rep, prog)
    if want("C13-SB16"):
        rule_SB16(rep, prog)
    if want("C13-AI17"):
        rule_AI17(rep, prog)


MANIFEST = {
    "technique": "dominance / value-identity ownership rules, who-may-write census and overflow-guard rules over the LLVM IR of data.c + concrete evaluation of the entry-point case splits (subrange offset/length grid) and path rules on destructor / returned-object obligations + exhaustiveness of the destructor-sentinel set against the build's own definitions, interprocedural must-write of the offset out-parameter, linear-form identity of the record displacement",
    "level": "memory-safety and ownership skeleton only: clamp form and domination, returned-object retention (same object), record-origin translation on "
             "every descent, closed writer set of the record table and closed caller set of the buffer destructor, checked allocation sizes. The byte-string "
             "algebra (which bytes each operation denotes for every tree) is a functional-correctness statement over recursive data and is NOT decided",
    "note": "dd1->size + dd2->size in concat is unchecked (sizes of real objects cannot overflow unless a transform produced a bogus size: that was the C20-BD5 defect, repaired in /repo 07455f8)",
}
