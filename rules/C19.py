"""C19 - dispatch block objects: cancel, wait and notify follow the execution.

Decided: in each of the three invoke siblings the body is control-dependent on the CANCELED bit being clear (a bit test, not
a value compare) and the completion accounting (first increment of dbpd_performed -> group_leave) is reached on both the
executed and the cancelled path; wait/notify/cancel/testcancel delegate to the group / flag word with atomic RMWs only; the
barrier flag plumbing. Completion semantics then reduce to C07."""
from dqsa import paths, trans
from .common import *
from .sync_common import entry_point
from .C03 import root_ptr

UNITS = ["queue", "semaphore", "shims/lock"]
AF = frozenset(["dbpd_atomic_flags"])


def bit_tests(fn, bit, src_ok=None):
    out = []
    for i in fn.all_insts():
        if i.op == "icmp" and i.d["pred"] in ("eq", "ne") and i.ops[1][0] == "c" and i.ops[1][1] == 0:
            a = fn.inst(i.ops[0])
            if a is not None and a.op == "and" and a.ops[1][0] == "c" and a.ops[1][1] == bit:
                if src_ok is not None:
                    w = fn.inst(a.ops[0])
                    while w is not None and w.op in ("zext", "trunc"):
                        w = fn.inst(w.ops[0])
                    if w is None or not src_ok(w):
                        continue
                out.append((i, i.d["pred"] == "ne"))
    return out


def rule_MP1(rep, prog, k):
    rid = rep.rule("C19-MP1", "in _dispatch_block_invoke_direct / _dispatch_block_sync_invoke / _dispatch_block_async_invoke2 the block body runs only when the "
                   "DBF_CANCELED bit (tested as a bit) is clear, and the completion accounting (first dbpd_performed increment => dispatch_group_leave) is "
                   "reached whether or not the body ran", floor=6)
    CAN, PERF = k["DBF_CANCELED"], k["DBF_PERFORM"]
    for name in ("_dispatch_block_invoke_direct", "_dispatch_block_sync_invoke", "_dispatch_block_async_invoke2"):
        fn = prog.fn(name)
        rep.saw(fn)
        body = []
        for c in fn.all_insts():
            if c.op != "call" or "icallee" not in c.d:
                continue
            l1 = fn.inst(c.d["icallee"])
            hops = 0
            while l1 is not None and hops < 4:
                hops += 1
                if l1.op == "load":
                    if "dbpd_block" in prog.fields(l1):
                        body.append(c)
                        break
                    r = root_ptr(fn, l1.d["ptr"]["base"])
                    l1 = fn.insts.get(r[1]) if r[0] == "i" else None
                elif l1.op in ("bitcast", "getelementptr"):
                    r = root_ptr(fn, l1.ops[0])
                    l1 = fn.insts.get(r[1]) if r[0] == "i" else None
                else:
                    break
        # or handed to _dispatch_client_callout with the block loaded from dbpd_block
        for c in calls_named(fn, "_dispatch_client_callout"):
            r = root_ptr(fn, c.ops[0])
            l = fn.insts.get(r[1]) if r[0] == "i" else None
            if l is not None and l.op == "load" and "dbpd_block" in prog.fields(l):
                body.append(c)
        # the cancel state lives in dbpd_atomic_flags; DBF_CANCELED has the same numeric value as a creation flag in dbpd_flags (DISPATCH_BLOCK_BARRIER)
        tests = bit_tests(fn, CAN, src_ok=lambda w: w.op in ("load", "atomicrmw") and "dbpd_atomic_flags" in prog.fields(w))
        inc = [i for i in fn.all_insts() if i.op == "atomicrmw" and "dbpd_performed" in prog.fields(i)]
        leave = calls_named(fn, "dispatch_group_leave")
        if not body or not inc or not leave:
            rep.unknown(rid, "anchor vanished in %s (body=%d inc=%d leave=%d)" % (name, len(body), len(inc), len(leave)))
            continue
        ok = bool(tests)
        for b in body:
            cx = paths.dom_ctx(fn, b)
            if not any(cx.truth.get(t.id) == (not pol) for t, pol in tests):
                ok = False
        rep.require(rid, ok, body[0].loc, name, "body-not-guarded-by-cancel-bit:%s" % name,
                    "%s can run the block body without having tested (atomic_flags & DBF_CANCELED) == 0: a block cancelled before it started (possibly with "
                    "other flag bits such as WAITING set) would still run" % name, sample={"fn": name, "cancel_tests": len(tests)})
        # accounting reached on every path that does not crash, under the !DBF_PERFORM condition
        ptests = bit_tests(fn, PERF)
        res = paths.walk(fn, entry_point(fn), lambda i: False, avoid=lambda i: i in inc, bound=100000)
        bad = []
        for kind, inst, cx, path in res:
            if kind != "exit":
                continue
            if any(cx.truth.get(t.id) == pol for t, pol in ptests):
                continue     # dispatch_block_perform: no group accounting by design
            bad.append(path)
        rep.require(rid, not bad, inc[0].loc, name, "completion-skipped:%s" % name,
                    "%s has a return path (e.g. the cancelled early exit) that skips the dbpd_performed / dispatch_group_leave accounting: dispatch_block_wait "
                    "never returns 0 and notifications are never submitted for that execution (path %s)" % (name, bad[0] if bad else None),
                    sample={"fn": name, "exit_paths": len([r for r in res if r[0] == "exit"])})
        for l in leave:
            cx = paths.dom_ctx(fn, l)
            first = False
            for iid, tv in cx.truth.items():
                ii = fn.insts[iid]
                if ii.op == "icmp" and ii.d["pred"] in ("eq", "ne") and tv == (ii.d["pred"] == "eq"):
                    for a, b in ((ii.ops[0], ii.ops[1]), (ii.ops[1], ii.ops[0])):
                        x = fn.inst(a)
                        # os_atomic_inc returns new value: add(rmw, 1) == 1, or rmw == 0
                        if x is not None and x.op == "add" and fn.inst(x.ops[0]) in inc and b[0] == "c" and b[1] == 1:
                            first = True
                        if x in inc and b[0] == "c" and b[1] == 0:
                            first = True
            rep.require(rid, first, l.loc, name, "leave-not-once:%s" % name,
                        "%s calls dispatch_group_leave without having established that this was the first completion (dbpd_performed 0 -> 1): a block run twice "
                        "would leave the group twice" % name, sample={"fn": name})


def rule_MP2(rep, prog, k):
    rid = rep.rule("C19-MP2", "dispatch_block_wait returns the result of dispatch_group_wait on the block's group and touches the flag word only with atomic "
                   "RMWs (or WAITING / and ~WAITING on timeout / or WAITED on success); cancel is an atomic OR of DBF_CANCELED; notify delegates to the group", floor=5)
    fn = prog.fn("dispatch_block_wait")
    rep.saw(fn)
    gw = calls_named(fn, "dispatch_group_wait")
    writes = [i for i in fn.all_insts() if (prog.fields(i) & AF) and i.op in ("store", "atomicrmw", "cmpxchg")]
    ok = bool(gw) and bool(writes) and all(w.op == "atomicrmw" and w.d["rmw"] in ("or", "and") for w in writes)
    rep.require(rid, ok, writes[0].loc if writes else fn.file, fn.name, "wait-flag-write-not-rmw",
                "dispatch_block_wait modifies dbpd_atomic_flags with %s: a plain store of a stale snapshot overwrites a concurrent dispatch_block_cancel (the "
                "cancelled block would run and dispatch_block_testcancel would report 0)" % [(w.op, w.d.get("rmw")) for w in writes],
                sample={"writes": [(w.op, w.d.get("rmw")) for w in writes]})
    W, WD, WG = k["DBF_WAITED"], k["DBF_WAITED"], k["DBF_WAITING"]
    for w in writes:
        if w.op != "atomicrmw":
            continue
        c = w.ops[1][1] if w.ops[1][0] == "c" else None
        good = (w.d["rmw"] == "or" and c in (k["DBF_WAITING"], k["DBF_WAITED"])) or (w.d["rmw"] == "and" and c is not None and (c & 0xffffffff) == (~k["DBF_WAITING"] & 0xffffffff))
        rep.require(rid, good, w.loc, fn.name, "wait-flag-rmw-operand", "dispatch_block_wait: unexpected flag update %s %s" % (w.d["rmw"], hex(c) if c is not None else None),
                    sample={"rmw": w.d["rmw"], "operand": hex(c) if c is not None else None})
    rets = [i for i in fn.all_insts() if i.op == "ret"]
    okr = bool(gw)
    if okr:
        # every return carries the group wait's result: the value itself, or a constant it was found equal to on that path (`if (ret == 0) return 0;`)
        for kind, inst, cx, path in paths.walk(fn, gw[0], lambda i: False):
            if kind != "exit":
                continue
            if root_ptr(fn, cx.resolve(inst.ops[0])) == ("i", gw[0].id):
                continue
            v, g = cx.value(inst.ops[0]), cx.value(["i", gw[0].id])
            if v is not None and g is not None and (v == g or {v, g} <= {paths.NULL, ("c", 0)}):
                continue
            okr = False
    rep.require(rid, okr, fn.file, fn.name, "wait-result", "dispatch_block_wait must return what dispatch_group_wait returned", sample={"rets": len(rets)})
    # WAITED only on success
    for w in writes:
        if w.op == "atomicrmw" and w.d["rmw"] == "or" and w.ops[1][0] == "c" and w.ops[1][1] == k["DBF_WAITED"] and gw:
            cx = paths.dom_ctx(fn, w)
            z = cx.value(["i", gw[0].id])
            rep.require(rid, z in (paths.NULL, ("c", 0)), w.loc, fn.name, "waited-on-timeout", "DBF_WAITED must be set only when dispatch_group_wait returned 0", sample={"guard": str(z)})
    fn = prog.fn("dispatch_block_cancel")
    rep.saw(fn)
    ws = [i for i in fn.all_insts() if (prog.fields(i) & AF) and i.op in ("store", "atomicrmw", "cmpxchg")]
    okc = len(ws) == 1 and ws[0].op == "atomicrmw" and ws[0].d["rmw"] == "or" and ws[0].ops[1][0] == "c" and ws[0].ops[1][1] == k["DBF_CANCELED"]
    rep.require(rid, okc, fn.file, fn.name, "cancel-shape", "dispatch_block_cancel must be a single atomic OR of DBF_CANCELED", sample={"writes": len(ws)})
    if okc:
        # ... on every returning path: cancellation is a state of the block object, recorded whether or not an execution already completed
        okp, ex_ = fn.must_pass(entry_point(fn), ws)
        rep.require(rid, okp, ws[0].loc, fn.name, "cancel-skipped-on-some-path",
                    "dispatch_block_cancel can return (at %s) without setting DBF_CANCELED: e.g. a cancel issued after the first execution completed is dropped, "
                    "dispatch_block_testcancel keeps returning 0 and a re-submitted block runs its body again" % (ex_.loc if ex_ is not None else "?"),
                    sample={"must_pass": True})
    fn = prog.fn("dispatch_block_testcancel")
    rep.saw(fn)
    rep.require(rid, bool(bit_tests(fn, k["DBF_CANCELED"])) or any(i.op == "and" and i.ops[1][0] == "c" and i.ops[1][1] == k["DBF_CANCELED"] for i in fn.all_insts()),
                fn.file, fn.name, "testcancel-shape", "dispatch_block_testcancel must report the DBF_CANCELED bit", sample={})
    fn = prog.fn("dispatch_block_notify")
    rep.saw(fn)
    gn = calls_named(fn, ("dispatch_group_notify", "_dispatch_group_notify", "dispatch_group_notify_f"))
    rep.require(rid, bool(gn), fn.file, fn.name, "notify-delegation", "dispatch_block_notify must register the notification on the block's group", sample={"calls": len(gn)})


def rule_TR3(rep, prog, k, q):
    rid = rep.rule("C19-TR3", "a block created with DISPATCH_BLOCK_BARRIER is submitted as a barrier: _dispatch_continuation_init_slow ORs DC_FLAG_BARRIER under "
                   "that flag and _dispatch_sync_block_with_privdata routes to the barrier variant", floor=2)
    BB = k["DISPATCH_BLOCK_BARRIER"]
    DCB = q.c["DC_FLAG_BARRIER"]
    for name in ("_dispatch_continuation_init_slow", "_dispatch_sync_block_with_privdata"):
        fn = prog.fn(name)
        rep.saw(fn)
        tests = bit_tests(fn, BB)
        ors = [i for i in fn.all_insts() if i.op == "or" and any(o[0] == "c" and (o[1] & DCB) for o in i.ops)] + \
              [i for i in fn.all_insts() if i.op == "select" and any(o[0] == "c" and (o[1] & DCB) for o in i.ops[1:])] + \
              calls_named(fn, ("_dispatch_barrier_sync_f", "_dispatch_barrier_sync_f_inline"))
        rep.require(rid, bool(tests) and bool(ors), fn.file, name, "block-barrier-flag:%s" % name,
                    "%s must test DISPATCH_BLOCK_BARRIER and derive DC_FLAG_BARRIER / the barrier submission from it (tests=%d, barrier uses=%d)" % (name, len(tests), len(ors)),
                    sample={"fn": name, "tests": len(tests), "barrier_uses": len(ors)})


def rule_WM4(rep, prog):
    rid = rep.rule("C19-WM4", "dispatch_block_wait tells the two execution modes apart by which of dbpd_thread / dbpd_queue is set, and traps when both are: only the direct "
                   "invocation (_dispatch_block_invoke_direct) records the executing thread; a submission that publishes dbpd_queue runs the block through an "
                   "invoke function that consumes dbpd_queue and never through the block's own (direct) invoke", floor=6)
    consumers = {fn.name for fn in prog.all_functions()
                 if any(i.op == "atomicrmw" and i.d.get("rmw") == "xchg" and "dbpd_queue" in prog.fields(i) for i in fn.all_insts()) and fn.name != "dispatch_block_wait"}
    changed = True
    while changed:
        changed = False
        for fn in prog.all_functions():
            if fn.name not in consumers and fn.name.startswith("_dispatch_block_") and any(c.op == "call" and c.callee in consumers for c in fn.all_insts()):
                consumers.add(fn.name); changed = True
    if len(consumers) < 2:
        rep.unknown(rid, "fewer than 2 invoke functions consuming dbpd_queue found (%s)" % sorted(consumers))
        return
    n = 0
    # (a) who records the thread
    for fn in prog.all_functions():
        for st in fn.all_insts():
            if st.op == "store" and "dbpd_thread" in prog.fields(st) and not (st.ops[0][0] in ("c", "n") and (st.ops[0][0] == "n" or st.ops[0][1] == 0)):
                n += 1
                rep.saw(fn)
                rep.require(rid, fn.name not in consumers and not any(i.op in ("cmpxchg", "atomicrmw") and "dbpd_queue" in prog.fields(i) for i in fn.all_insts()),
                            st.loc, fn.name, "queued-execution-records-thread:%s" % fn.name,
                            "%s records the executing thread in dbpd_thread although it runs blocks that were submitted to a queue (dbpd_queue is published for them and "
                            "cleared only after the body returns): a dispatch_block_wait issued while the body runs finds both set and traps (`run more than once and "
                            "waited for`) instead of waiting for the completion" % fn.name, sample={"fn": fn.name})
    # (b) publishers of dbpd_queue hand the block to a consuming invoke function
    for fn in prog.all_functions():
        if not any(i.op == "cmpxchg" and "dbpd_queue" in prog.fields(i) for i in fn.all_insts()):
            continue
        rep.saw(fn)
        for c in fn.all_insts():
            if c.op == "call" and c.callee and (c.callee.endswith("sync_f") or c.callee.endswith("and_wait_f") or c.callee.endswith("_f_slow")) and len(c.ops) >= 3:
                n += 1
                f = c.ops[2]
                rep.require(rid, f[0] == "f" and f[1] in consumers, c.loc, fn.name, "published-queue-but-direct-invoke:%s" % fn.name,
                            "%s publishes dbpd_queue for the block object and then has it executed through %s instead of an invoke function that consumes dbpd_queue: "
                            "the block's own invoke records dbpd_thread and leaves dbpd_queue set, so a later dispatch_block_wait on the completed block traps"
                            % (fn.name, f[1] if f[0] == "f" else "the block's own invoke pointer"), sample={"site": c.loc})
            if c.op == "store" and prog.fields(c) & {"dc_func", "dsc_func"} and c.ops[0][0] == "f":
                g = prog.fn(c.ops[0][1], required=False)
                if "dsc_func" not in prog.fields(c) and g is not None and any(l.op == "load" and "dsc_func" in prog.fields(l) for l in g.all_insts()):
                    continue  # the generic sync-context trampoline: it runs dsc_func, which is checked where it is stored
                n += 1
                rep.require(rid, c.ops[0][1] in consumers, c.loc, fn.name, "published-queue-but-direct-invoke:%s" % fn.name,
                            "%s publishes dbpd_queue and installs %s as the continuation function, which does not consume dbpd_queue" % (fn.name, c.ops[0][1]))
    if n < 4:
        rep.unknown(rid, "fewer than 4 thread-recording / queue-publishing sites found (%d)" % n)


def run(rep, tier="quick", srcdir=None, only=None):
    prog, units = load(UNITS, tier, srcdir)
    rep.units = units
    q = Q(srcdir)
    k = consts.get(["DBF_CANCELED", "DBF_WAITING", "DBF_WAITED", "DBF_PERFORM", "DISPATCH_BLOCK_BARRIER"], srcdir=srcdir)
    want = lambda r: only is None or r in only
    if want("C19-MP1"):
        rule_MP1(rep, prog, k)
    if want("C19-MP2"):
        rule_MP2(rep, prog, k)
    if want("C19-TR3"):
        rule_TR3(rep, prog, k, q)
    if want("C19-WM4"):
        rule_WM4(rep, prog)
    if want("C07-MP3") or want("C07-MP4") or want("C07-MP2"):
        # wait / notify of a block object are wait / notify on its private group, which has completed generations behind it after the first
        # execution: the group-side obligations that matter for that state are shared with C07
        from . import C07
        g = consts.get(["DISPATCH_GROUP_VALUE_INTERVAL", "DISPATCH_GROUP_VALUE_MASK", "DISPATCH_GROUP_VALUE_1", "DISPATCH_GROUP_HAS_NOTIFS",
                        "DISPATCH_GROUP_HAS_WAITERS", "ETIMEDOUT"], srcdir=srcdir, unit="semaphore")
        if want("C07-MP3"):
            C07.rule_MP3(rep, prog, g)
        if want("C07-MP4"):
            C07.rule_MP4(rep, prog, g)
        if want("C07-MP2"):
            # completion wakes the dispatch_block_wait callers AND submits the dispatch_block_notify blocks, also when both are pending at once
            C07.rule_MP2(rep, prog, g)
    if want("C07-MP6") or want("C07-CP7"):
        from . import C07
        C07.rule_MP6(rep, prog, None)
        C07.rule_CP7(rep, prog, None)


MANIFEST = {
    "technique": "dominating-condition and path-sensitive must-pass rules + atomic-site shape rules over the three invoke siblings (LLVM IR) + who-may-write rule on dbpd_thread and closed-set rule on the invoke functions handed a published dbpd_queue",
    "level": "cancellation guard (bit test) of the body, completion accounting on executed and cancelled paths, exactly-once group_leave, atomicity of every "
             "flag-word update and delegation of wait/notify to the group are decided for all orders of submit/cancel/wait/notify because each is a per-path or "
             "per-atomic-step obligation; the completion semantics themselves are C07's",
    "note": "block.cpp (C++ copy/dispose helpers) is not analysed; relies on C07 for group semantics",
}
