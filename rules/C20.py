"""C20 - data transforms round-trip and never read outside their input.

Decided (memory safety and table agreement): encode/decode tables are inverse and each decode-size constant equals the length
of its own table; table subscripts are masked / range-guarded; reads through a window mapped by _dispatch_data_subrange_map
stay within the mapped length; bytes stored through the transform buffer between two reservations do not exceed the reservation;
sizes handed to dispatch_data_create are not the result of an unguarded unsigned subtraction; the format descriptors are symmetric.
NOT decided: the round-trip identity itself (a functional statement over all byte strings and fragmentations)."""
from dqsa import paths
from .common import *
from .sync_common import entry_point
import re
from .C03 import root_ptr
from .C10 import roots_of

UNITS = ["transform", "data"]
CODECS = [("base32", "base32_encode_table", "base32_decode_table"), ("base32hex", "base32hex_encode_table", "base32hex_decode_table"),
          ("base64", "base64_encode_table", "base64_decode_table")]


def s8(v):
    return v - 256 if v > 127 else v


def rule_TB1(rep, prog):
    rid = rep.rule("C20-TB1", "codec tables: decode[encode[i]] == i for every symbol, every other decode entry is -1 (invalid) or -2 (padding '='), and the size "
                   "passed with a decode table equals the length of that table", floor=5)
    for name, enc, dec in CODECS:
        ge, gd = prog.global_(enc), prog.global_(dec)
        if not ge or not gd or not isinstance(ge.get("init"), list) or not isinstance(gd.get("init"), list):
            rep.unknown(rid, "table %s / %s not found" % (enc, dec))
            continue
        e = ge["init"][:-1] if ge["init"] and ge["init"][-1] == 0 else ge["init"]   # string literal NUL
        d = [s8(x) for x in gd["init"]]
        bad = [(i, c) for i, c in enumerate(e) if c >= len(d) or d[c] != i]
        others = [j for j, v in enumerate(d) if j not in e and v not in (-1, -2)]
        pads = [j for j, v in enumerate(d) if v == -2]
        rep.require(rid, not bad and not others and pads == [ord("=")] and len(set(e)) == len(e), "src/transform.c", dec, "table-not-inverse:%s" % name,
                    "%s: decode table is not the inverse of the encode table (mismatching symbols %s, stray entries %s, padding at %s)" % (name, bad[:4], others[:4], pads),
                    sample={"codec": name, "symbols": len(e), "decode_len": len(d)})
    # size constants used with the tables
    n = 0
    for fn in prog.all_functions():
        for c in fn.all_insts():
            if c.op != "call":
                continue
            tabs = [(k, o) for k, o in enumerate(c.ops) if o[0] == "g" and o[1].endswith("_decode_table")]
            for k, o in tabs:
                if k + 1 < len(c.ops) and c.ops[k + 1][0] == "c":
                    n += 1
                    rep.saw(fn)
                    g = prog.global_(o[1])
                    rep.require(rid, c.ops[k + 1][1] == g["len"], c.loc, fn.name, "decode-table-size-mismatch:%s" % o[1],
                                "%s passes %s with size %d but the table has %d entries: every symbol whose code is >= %d is rejected as invalid (the decoder "
                                "returns NULL for ordinary input) or the table is read out of bounds" % (fn.name, o[1], c.ops[k + 1][1], g["len"], c.ops[k + 1][1]),
                                sample={"table": o[1], "size_passed": c.ops[k + 1][1], "length": g["len"]})
    if n < 2:
        rep.unknown(rid, "expected >= 2 (table, size) call sites, found %d" % n)


def rule_BD2(rep, prog):
    rid = rep.rule("C20-BD2", "every subscript of a codec table is masked below the table length (encode) or dominated by a range guard against the table size (decode)", floor=4)
    n = 0
    for fn in prog.all_functions():
        if "transform" not in fn.name:
            continue
        for l in fn.all_insts():
            if l.op != "load" or not l.d.get("ptr") or not l.d["ptr"].get("vidx"):
                continue
            base = l.d["ptr"]["base"]
            g = prog.global_(base[1]) if base[0] == "g" else None
            if g is None:
                # table captured in the block / passed as parameter: index guarded by a comparison with the captured size
                bi = fn.inst(base)
                if not (bi is not None and bi.op == "load" and l.d.get("ty") == "i8" and "table" in "".join(prog.fields(bi)) or False):
                    continue
            if g is not None and not (base[1].endswith("_table")):
                continue
            n += 1
            rep.saw(fn)
            idx = l.d["ptr"]["vidx"][0]
            ii = fn.inst(idx)
            # a subscript that reaches the table through a sign extension (the input byte read as `char`) may be negative: a signed upper-bound test alone lets it through
            signed_idx = False
            while ii is not None and ii.op in ("zext", "sext", "trunc"):
                if ii.op == "sext":
                    signed_idx = True
                elif ii.op == "zext":
                    signed_idx = False
                ii = fn.inst(ii.ops[0])
            ok = False
            why = ""
            lower = False
            if ii is not None and ii.op == "and" and ii.ops[1][0] == "c" and g is not None and ii.ops[1][1] < g["len"]:
                ok, why = True, "masked with %#x" % ii.ops[1][1]
            else:
                # range guard: some dominating icmp between the index root and a bound
                r = roots_of(fn, idx)
                for t in fn.all_insts():
                    if t.op == "icmp" and t.d["pred"] in ("sge", "slt", "uge", "ult", "sgt", "sle", "ugt", "ule") and (roots_of(fn, t.ops[0]) & r or roots_of(fn, t.ops[1]) & r):
                        other = t.ops[1] if roots_of(fn, t.ops[0]) & r else t.ops[0]
                        bound_ok = True
                        if other[0] == "c" and g is not None:
                            bound_ok = other[1] <= g["len"]
                        if fn.block_dominates(t.block.id, l.block.id) and t.block.id != l.block.id and bound_ok:
                            if other[0] == "c" and other[1] == 0 and t.d["pred"] in ("slt", "sge", "sgt", "sle"):
                                lower = True
                                continue
                            if signed_idx and t.d["pred"] in ("sge", "slt", "sgt", "sle"):
                                why = why or "signed-upper-bound-only"
                                continue
                            ok, why = True, "guarded by %s %s" % (t.d["pred"], other[1] if other[0] == "c" else "size")
                if not ok and why == "signed-upper-bound-only" and lower:
                    ok, why = True, "guarded by signed range test with lower bound 0"
                if not ok and why == "signed-upper-bound-only":
                    rep.violation(rid, l.loc, fn.name, "negative-table-subscript:%s" % fn.name,
                                  "%s indexes a decode table with a sign-extended input byte that is only tested against the table size with a signed comparison: an input "
                                  "byte >= 0x80 becomes a negative subscript and reads before the table instead of being rejected as an invalid character" % fn.name)
                    continue
            rep.require(rid, ok, l.loc, fn.name, "unbounded-table-subscript:%s" % fn.name,
                        "%s indexes a codec table with a value that is neither masked below the table length nor range-checked" % fn.name,
                        sample={"fn": fn.name, "at": l.loc, "bound": why})
    if n < 4:
        rep.unknown(rid, "fewer than 4 table subscripts found (%d)" % n)


def rule_BD3(rep, prog):
    rid = rep.rule("C20-BD3", "a pointer obtained from _dispatch_data_subrange_map(data, &p, off, N) is only dereferenced within the N mapped bytes", floor=3)
    n = 0
    for fn in prog.all_functions():
        for c in fn.calls("_dispatch_data_subrange_map"):
            N = arg_const(fn, c, 3)
            slot = root_ptr(fn, c.ops[1])
            if N is None or slot[0] != "i":
                continue
            # loads of the slot after the call, then memory loads through the loaded pointer
            for pl in fn.all_insts():
                if pl.op == "load" and root_ptr(fn, pl.d["ptr"]["base"]) == slot and fn.inst_reaches(c, pl):
                    # stop at the next mapping into the same slot
                    others = [o for o in fn.calls("_dispatch_data_subrange_map") if o is not c and root_ptr(fn, o.ops[1]) == slot]
                    if any(fn.inst_reaches(c, o) and fn.inst_reaches(o, pl) and not fn.inst_reaches(pl, o) for o in others):
                        continue
                    for u in fn.all_insts():
                        if u.op == "load" and u.d.get("ptr") and root_ptr(fn, u.d["ptr"]["base"]) == ("i", pl.id):
                            n += 1
                            rep.saw(fn)
                            w = u.d.get("w") or 64
                            hi = u.d["ptr"]["off"] + w // 8
                            rep.require(rid, u.d["ptr"].get("exact", True) and hi <= N, u.loc, fn.name, "read-past-mapped-window:%s:%d>%d" % (fn.name, hi, N),
                                        "%s reads %d byte(s) at offset %d through a pointer that _dispatch_data_subrange_map mapped for only %d byte(s): an over-read "
                                        "past the end of the (possibly heap-allocated, exactly sized) buffer" % (fn.name, w // 8, u.d["ptr"]["off"], N),
                                        sample={"fn": fn.name, "mapped": N, "read_end": hi})
    if n < 3:
        rep.unknown(rid, "fewer than 3 dereferences of mapped windows found (%d)" % n)


def rule_BD4(rep, prog):
    rid = rep.rule("C20-BD4", "bytes stored through the transform buffer between two reservations never exceed the bytes reserved by "
                   "_dispatch_transform_buffer_new (per path)", floor=4)
    n = 0
    for fn in prog.all_functions():
        res = calls_named(fn, "_dispatch_transform_buffer_new")
        if not res:
            continue
        rep.saw(fn)
        def is_data_store(i):
            if i.op != "store" or not i.d.get("ptr"):
                return False
            b = root_ptr(fn, i.d["ptr"]["base"])
            bi = fn.insts.get(b[1]) if b[0] == "i" else None
            return bi is not None and bi.op == "load" and bool(prog.fields(bi) & frozenset(["u8", "u16"])) and "ptr" in prog.fields(bi)
        def min_reserved(op, cx, depth=0):
            """smallest value the reservation size can have on this path (select / phi resolved with what the path established; an undecided select counts
            as its smaller arm)"""
            op = cx.resolve(op)
            if op[0] == "c":
                return op[1]
            i = fn.inst(op) if op[0] == "i" else None
            if i is None or depth > 6:
                return None
            if i.op in ("zext", "sext", "trunc"):
                return min_reserved(i.ops[0], cx, depth + 1)
            if i.op == "select":
                c_ = cx.cond(i.ops[0])
                if c_ is not None:
                    return min_reserved(i.ops[1] if c_ else i.ops[2], cx, depth + 1)
                a, b = min_reserved(i.ops[1], cx, depth + 1), min_reserved(i.ops[2], cx, depth + 1)
                return None if a is None or b is None else min(a, b)
            if i.op == "phi":
                vs = [min_reserved(v, cx, depth + 1) for v, frm in i.ops]
                return None if any(v is None for v in vs) else min(vs)
            return None
        for c in res:
            R = arg_const(fn, c, 1)
            if R is None:
                # a computed reservation: per path, the bytes stored must not exceed the smallest value the size can have on that path
                n += 1
                for kind, inst, cx, path in paths.walk(fn, c, lambda i: i in res, bound=100000):
                    Rp = min_reserved(c.ops[1], cx)
                    total, started, done = 0, False, False
                    for bid in path:
                        for i in fn.blocks[bid].insts:
                            if i is c:
                                started = True
                                continue
                            if not started:
                                continue
                            if kind == "hit" and i is inst and (bid != c.block.id or i.idx > c.idx):
                                done = True
                                break
                            if is_data_store(i):
                                vt = i.d.get("vty", "i8")
                                total += int(vt[1:]) // 8 if vt[1:].isdigit() else 8
                        if done:
                            break
                    if total == 0:
                        continue
                    if Rp is None:
                        break          # an arithmetic size (size * 2 + 2 for a whole region): bounded by BD12 / the callee's own growth, not a per-character case split
                    rep.require(rid, total <= Rp, c.loc, fn.name, "store-past-reservation:%s:%d>%d" % (fn.name, total, Rp),
                                "%s reserves as little as %d byte(s) with _dispatch_transform_buffer_new on a path (%s) that then stores %d byte(s) through the buffer "
                                "before the next reservation (the size is computed from a different value than the one that selects how many bytes are written): a "
                                "heap write past the end of the output buffer when the reservation was the last one that fitted" % (fn.name, Rp, path, total),
                                sample={"fn": fn.name, "reserved_min": Rp, "stored": total})
                continue
            n += 1
            walked = paths.walk(fn, c, lambda i: i in res, bound=100000)
            worst = 0
            for kind, inst, cx, path in walked:
                # bytes stored on this path between c and the stop point
                total = 0
                started = False
                done = False
                for bid in path:
                    for i in fn.blocks[bid].insts:
                        if i is c:
                            started = True
                            continue
                        if not started:
                            continue
                        if kind == "hit" and i is inst and (bid != c.block.id or i.idx > c.idx):
                            done = True
                            break
                        if is_data_store(i):
                            vt = i.d.get("vty", "i8")
                            total += int(vt[1:]) // 8 if vt[1:].isdigit() else 8
                    if done:
                        break
                worst = max(worst, total)
            rep.require(rid, worst <= R, c.loc, fn.name, "store-past-reservation:%s:%d>%d" % (fn.name, worst, R),
                        "%s reserves %d byte(s) with _dispatch_transform_buffer_new but stores %d byte(s) through the buffer before the next reservation: a heap "
                        "write past the end of the output buffer when the reservation was the last one that fitted" % (fn.name, R, worst),
                        sample={"fn": fn.name, "reserved": R, "stored_max": worst})
    if n < 4:
        rep.unknown(rid, "fewer than 4 constant reservations found (%d)" % n)


def rule_BD5(rep, prog):
    rid = rep.rule("C20-BD5", "the size given to dispatch_data_create is not the result of an unsigned subtraction whose subtrahend is not bounded by a guard "
                   "(pointer differences within one buffer are fine)", floor=2)
    n = 0
    for fn in prog.all_functions():
        if "transform" not in fn.name:
            continue
        for c in fn.calls("dispatch_data_create"):
            n += 1
            rep.saw(fn)
            bad = []
            seen = set()
            def walk(op, d=0):
                i = fn.inst(op)
                if i is None or d > 10 or i.id in seen:
                    return
                seen.add(i.id)
                if i.op == "phi":
                    for v, _ in i.ops:
                        walk(v, d + 1)
                elif i.op == "select":
                    walk(i.ops[1], d + 1); walk(i.ops[2], d + 1)
                elif i.op in ("zext", "sext", "trunc"):
                    walk(i.ops[0], d + 1)
                elif i.op == "add" and i.ops[1][0] == "c" and i.ops[1][1] >> 63:
                    # add of a negative constant == subtraction
                    guarded = any(t.op == "icmp" and t.d["pred"] in ("uge", "ugt", "ult", "ule") and (t.ops[0] == i.ops[0] or t.ops[1] == i.ops[0]) and fn.dominates(t, i) for t in fn.all_insts())
                    if not guarded:
                        bad.append(i)
                    walk(i.ops[0], d + 1)
                elif i.op == "sub":
                    a, b = fn.inst(i.ops[0]), fn.inst(i.ops[1])
                    if a is not None and b is not None and a.op == "ptrtoint" and b.op == "ptrtoint":
                        return
                    guarded = any(t.op == "icmp" and t.d["pred"] in ("uge", "ugt", "ult", "ule") and {tuple(t.ops[0][:2]), tuple(t.ops[1][:2])} == {tuple(i.ops[0][:2]), tuple(i.ops[1][:2])}
                                  and fn.dominates(t, i) for t in fn.all_insts())
                    if not guarded:
                        bad.append(i)
                    walk(i.ops[0], d + 1)
            walk(c.ops[1])
            rep.require(rid, not bad, c.loc, fn.name, "size-underflow:%s" % fn.name,
                        "%s passes a size to dispatch_data_create that is reduced by an unguarded unsigned subtraction (%s): when the padding count exceeds the "
                        "bytes produced for this region the size wraps to ~2^64 and the object claims memory it does not own"
                        % (fn.name, [b.loc for b in bad][:3]), sample={"fn": fn.name, "create": c.loc})
    if n < 2:
        rep.unknown(rid, "fewer than 2 dispatch_data_create calls in transforms (%d)" % n)


def rule_TB6(rep, prog):
    rid = rep.rule("C20-TB6", "every base-N / UTF-16 format descriptor has both an encoder and a decoder", floor=5)
    fm = {}
    for m in prog.modules.values():
        for n, g in m.globals.items():
            if n.startswith("_dispatch_data_format_type_") and isinstance(g.get("init"), list) and len(g["init"]) >= 5:
                fm[n[len("_dispatch_data_format_type_"):]] = g["init"]
    if len(fm) < 6:
        rep.unknown(rid, "format descriptors not found (%d)" % len(fm))
        return
    for a, A in sorted(fm.items()):
        if a.startswith(("base", "utf16")):
            rep.require(rid, A[3] is not None and A[4] is not None, "src/transform.c", "_dispatch_data_format_type_" + a, "format-missing-codec:%s" % a,
                        "format %s lacks a decoder or encoder" % a, sample={"format": a})


def rule_BD3b(rep, prog):
    rid = rep.rule("C20-BD3b", "_dispatch_data_subrange_map hands out a mapping only when the clamped subrange has exactly the requested size (callers read the full "
                   "requested length from it)", floor=1)
    fn = prog.fn("_dispatch_data_subrange_map")
    rep.saw(fn)
    maps = calls_named(fn, "dispatch_data_create_map")
    gs = calls_named(fn, "dispatch_data_get_size")
    ok = bool(maps) and bool(gs)
    for m in maps:
        cx = paths.dom_ctx(fn, m)
        good = False
        for iid, tv in cx.truth.items():
            ii = fn.insts[iid]
            if ii.op == "icmp" and ii.d["pred"] in ("eq", "ne") and tv == (ii.d["pred"] == "eq"):
                ops = {tuple(ii.ops[0][:2]), tuple(ii.ops[1][:2])}
                if ("a", 3) in ops and any(("i", g.id) in ops for g in gs):
                    good = True
        ok = ok and good
    rep.require(rid, ok, fn.file + ":" + str(fn.d.get("line")), fn.name, "map-of-short-subrange",
                "_dispatch_data_subrange_map maps the subrange without having established dispatch_data_get_size(subrange) == size: create_subrange clamps "
                "out-of-range requests, so callers get a shorter window and read the full length from it (reads past the input; truncated sequences accepted)",
                sample={"maps": len(maps)})


def rule_FR7(rep, prog):
    from .C13 import linform
    rid = rep.rule("C20-FR7", "fragmentation independence of BOM handling: a code unit is treated as a byte-order mark (skipped / rejected) only at the absolute start of the "
                   "data - the UTF-16 decoder requires the region offset to be 0, the UTF-8 reader of the UTF-16 encoder compares the absolute position (region offset + "
                   "index in the region) - never merely at a position within a region", floor=3)
    # (applier block, BOM constants, constant the bare offset must be compared with / None = any constant but the compared value must contain the offset)
    for fname, consts_, zero_only in (("___dispatch_transform_from_utf16_block_invoke", (0xfeff, 0xfffe), True),
                                      ("___dispatch_transform_to_utf16_block_invoke", (0xfeff,), False)):
        fn = prog.fn(fname)
        rep.saw(fn)
        boms = [i for i in fn.all_insts() if i.op == "icmp" and i.d["pred"] in ("eq", "ne") and i.ops[1][0] == "c" and i.ops[1][1] in consts_
                and (zero_only or i.d.get("inl") is None and not _is_const_select(fn, i.ops[0]))]
        sws = [(sw, val, tgt) for sw in fn.all_insts() if sw.op == "switch" for val, tgt in sw.d.get("cases", []) if val in consts_]
        if not boms and not sws:
            rep.unknown(rid, "no BOM comparison found in %s" % fname)
            continue
        # `offset` is the third parameter of the applier block (region, offset, buffer, size) after the block literal itself
        def is_offset(a):
            if tuple(a[:2]) == ("a", 2):
                return True
            ph = fn.inst(a)
            # the region offset advanced by the bytes the previous region already consumed (offset, or offset + skip on the skip-applied edge)
            return ph is not None and ph.op == "phi" and all(linform(fn, v).get(("a", 2)) == 1 and all(c > 0 for c in linform(fn, v).values()) for v, frm in ph.ops)
        def anchor(ii):
            """truth value of `ii` under which the position is the absolute start (None: not a position test)"""
            if ii.op != "icmp" or ii.d["pred"] not in ("eq", "ne"):
                return None
            for a, b in ((ii.ops[0], ii.ops[1]), (ii.ops[1], ii.ops[0])):
                if b[0] != "c":
                    continue
                if zero_only:
                    if b[1] == 0 and is_offset(a):
                        return ii.d["pred"] == "eq"
                else:
                    lf = linform(fn, a)
                    if any(isinstance(k_, tuple) and is_offset(k_) and c == 1 for k_, c in lf.items()):
                        return ii.d["pred"] == "eq"
            return None
        def has_anchor(tr):
            return any(anchor(fn.insts[iid]) is not None and tv == anchor(fn.insts[iid]) for iid, tv in tr.items())
        def tests_anchor_first(bid):
            """the block reached once the unit is known to be a BOM does nothing but decide on the position: no call / store, and one outcome of its branch
            establishes the anchor (the nested-if / switch-case form of `unit == BOM && offset == 0`)"""
            blk = fn.blocks[bid]
            if any(i.op in ("call", "store", "atomicrmw", "cmpxchg") for i in blk.insts):
                return False
            t = blk.term
            if t.op != "br" or not t.ops or len(t.d.get("succs", [])) != 2:
                return False
            for truth in (True, False):
                cx = paths.PathCtx(fn)
                cx.learn(t.ops[0], truth)
                if has_anchor(cx.truth):
                    return True
            return False
        brs = [i for i in fn.all_insts() if i.op == "br" and len(i.d.get("succs", [])) == 2]
        tests = []   # (location inst, constant, [(truth facts, target block)])
        for t in boms:
            edges = []
            for br in brs:
                for truth in (True, False):
                    cx = paths.PathCtx(fn)
                    cx.learn(br.ops[0], truth)
                    if cx.truth.get(t.id) != (t.d["pred"] == "eq"):
                        continue
                    # also accept facts that dominate the branch
                    dx = paths.dom_ctx(fn, br)
                    tr = dict(dx.truth); tr.update(cx.truth)
                    edges.append((tr, br.d["succs"][0 if truth else 1]))
            tests.append((t, t.ops[1][1], edges))
        for sw, val, tgt in sws:
            tests.append((sw, val, [(dict(paths.dom_ctx(fn, sw).truth), tgt)]))
        for t, cval, edges in tests:
            if not edges:
                rep.unknown(rid, "no branch edge establishes the BOM comparison at %s" % t.loc)
                continue
            anchored = all(has_anchor(tr) or tests_anchor_first(tgt) for tr, tgt in edges)
            rep.require(rid, anchored, t.loc, fn.name, "bom-not-anchored-at-offset-0:%#x" % cval,
                        "%s treats %#x as a byte-order mark without tying the decision to the absolute position in the data (region offset): a U+FEFF that merely sits at "
                        "that position within a region is dropped (or the data rejected), so the result depends on how the input is fragmented" % (fn.name, cval),
                        sample={"test": t.loc, "edges": len(edges), "fn": fn.name})


def _is_const_select(fn, op):
    i = fn.inst(op)
    return i is not None and i.op == "select" and all(o[0] == "c" for o in i.ops[1:])


def _strip_int(fn, op):
    i = fn.inst(op)
    while i is not None and i.op in ("zext", "trunc", "sext"):
        op = i.ops[0]
        i = fn.inst(op)
    return tuple(op[:2])


def rule_FR8(rep, prog):
    from .C13 import linform
    rid = rep.rule("C20-FR8", "fragmentation independence of read-ahead: when a region's first bytes were already consumed by the previous region (the buffer pointer is "
                   "advanced by `skip`), the region's absolute offset is advanced by the same amount, and every _dispatch_data_subrange_map offset is computed from "
                   "that adjusted offset", floor=2)
    n = 0
    for fn in prog.all_functions():
        if not fn.name.startswith("___dispatch_transform_") or len(fn.params) < 5:
            continue
        maps = calls_named(fn, "_dispatch_data_subrange_map")
        adv = [g for g in fn.all_insts() if g.op == "getelementptr" and root_ptr(fn, g.ops[0]) == ("a", 3) and len(g.ops) == 2 and g.ops[1][0] == "i"
               and fn.inst(g.ops[1]) is not None and fn.inst(g.ops[1]).op == "load"]
        if not maps or not adv:
            continue
        rep.saw(fn)
        V = tuple(adv[0].ops[1][:2])
        B = adv[0].block
        # phis that merge (offset + skip) from the block where the skip is applied
        good = set()
        for ph in fn.all_insts():
            if ph.op != "phi":
                continue
            for v, frm in ph.ops:
                if frm == B.id:
                    lf = linform(fn, v)
                    if lf == {("a", 2): 1, V: 1}:
                        good.add(("i", ph.id))
        for m in maps:
            n += 1
            lf = linform(fn, m.ops[2])
            ok = any(a in good and c == 1 for a, c in lf.items()) and ("a", 2) not in lf
            rep.require(rid, ok, m.loc, fn.name, "read-ahead-offset-ignores-skip:%s" % fn.name,
                        "%s maps read-ahead bytes at an absolute offset computed from the region offset WITHOUT the bytes skipped at the start of this region: when a "
                        "region both starts inside a character (previous read-ahead) and ends inside one, the second read-ahead fetches the wrong bytes and the "
                        "result depends on how the data is fragmented" % fn.name, sample={"fn": fn.name, "map": m.loc, "offset": str({str(k_): v for k_, v in lf.items()})})
    if n < 2:
        rep.unknown(rid, "fewer than 2 read-ahead mappings found in skip-carrying transforms (%d)" % n)


def rule_FR15(rep, prog):
    rid = rep.rule("C20-FR15", "fragmentation independence of read-ahead, size side: once the bytes the previous region already consumed are skipped (buffer pointer advanced, "
                   "size reduced), nothing computed from the ORIGINAL region size (element count, loop bound, oddness) is used any more - every later use goes through "
                   "the values merged after the skip was applied", floor=2)
    n = 0
    for fn in prog.all_functions():
        if not fn.name.startswith("___dispatch_transform_") or len(fn.params) < 5:
            continue
        adv = [g for g in fn.all_insts() if g.op == "getelementptr" and root_ptr(fn, g.ops[0]) == ("a", 3) and len(g.ops) == 2 and g.ops[1][0] == "i"
               and fn.inst(g.ops[1]) is not None and fn.inst(g.ops[1]).op == "load"]
        if not adv or not calls_named(fn, "_dispatch_data_subrange_map"):
            continue
        B = adv[0].block
        succs = B.term.d.get("succs", [])
        if len(succs) != 1:
            rep.unknown(rid, "%s: the block applying the skip does not fall through to a single merge block" % fn.name)
            continue
        M = succs[0]
        # the size is reduced in B
        if not any(i.op == "sub" and tuple(i.ops[0][:2]) == ("a", 4) for i in B.insts):
            rep.unknown(rid, "%s: size -= skip not found where the buffer pointer is advanced" % fn.name)
            continue
        rep.saw(fn)
        n += 1
        ARITH = ("add", "sub", "mul", "udiv", "sdiv", "urem", "srem", "lshr", "ashr", "shl", "and", "or", "zext", "sext", "trunc")
        D = {("a", 4)}
        changed = True
        while changed:
            changed = False
            for i in fn.all_insts():
                if ("i", i.id) in D or i.op not in ARITH or i.block.id == M or not fn.block_dominates(i.block.id, M) or i.block.id == B.id:
                    continue
                if any(tuple(o[:2]) in D for o in i.ops) and all(o[0] == "c" or tuple(o[:2]) in D for o in i.ops):
                    D.add(("i", i.id)); changed = True
        stale = []
        for u in fn.all_insts():
            if not fn.block_dominates(M, u.block.id):
                continue
            if u.op == "phi" and u.block.id == M:
                continue
            ops = [v for v, frm in u.ops] if u.op == "phi" else u.ops
            if any(tuple(o[:2]) in D for o in ops if isinstance(o, (list, tuple)) and len(o) >= 2 and isinstance(o[0], str)):
                stale.append(u)
        rep.require(rid, not stale, (stale[0].loc if stale else B.insts[0].loc), fn.name, "stale-size-after-skip:%s" % fn.name,
                    "%s still uses a value computed from the original region size after the read-ahead bytes were skipped (size -= skip): the element count / loop bound "
                    "covers `skip` bytes more than the region holds, so the decoder reads past the region (or emits extra units) whenever the previous region ended "
                    "inside a character - the result depends on how the data is fragmented" % fn.name,
                    sample={"fn": fn.name, "merge": M, "stale": [x.loc for x in stale[:4]]})
    if n < 2:
        rep.unknown(rid, "fewer than 2 skip-carrying transform blocks analysed (%d)" % n)


def rule_FR16(rep, prog):
    from .C13 import linform
    rid = rep.rule("C20-FR16", "the read-ahead debt carried to the next region only accumulates: every store to the `skip` counter of a UTF applier block is a reset to 0 "
                   "(after the skip was applied) or the previous value plus / minus something (skip += bytes read ahead, skip -= size of a region skipped whole) - an "
                   "assignment of a fresh constant forgets bytes that an earlier read-ahead in the same region had already consumed", floor=4)
    n = 0
    for fn in prog.all_functions():
        if not fn.name.startswith("___dispatch_transform_") or len(fn.params) < 5:
            continue
        adv = [g for g in fn.all_insts() if g.op == "getelementptr" and root_ptr(fn, g.ops[0]) == ("a", 3) and len(g.ops) == 2 and g.ops[1][0] == "i"
               and fn.inst(g.ops[1]) is not None and fn.inst(g.ops[1]).op == "load"]
        if not adv:
            continue
        V = fn.inst(adv[0].ops[1])
        P = fn.inst(V.d["ptr"]["base"]) if V.d.get("ptr") and V.d["ptr"]["base"][0] == "i" else None
        if P is None or P.op != "load" or not P.d.get("ptr") or tuple(P.d["ptr"]["base"][:2]) != ("a", 0):
            continue
        off = P.d["ptr"].get("off")
        def is_skip_ptr(o):
            i = fn.inst(o)
            return i is not None and i.op == "load" and i.d.get("ptr") and tuple(i.d["ptr"]["base"][:2]) == ("a", 0) and i.d["ptr"].get("off") == off
        for st in fn.all_insts():
            if st.op != "store" or not st.d.get("ptr") or not is_skip_ptr(st.d["ptr"]["base"]):
                continue
            n += 1
            rep.saw(fn)
            v = st.ops[0]
            # a reset to 0 is what happens where the debt was just paid (the block that advances the buffer pointer by `skip`); anywhere else - in particular
            # where a whole region was swallowed by the debt - the remainder has to be carried on
            ok = v[0] == "c" and v[1] == 0 and st.block is adv[0].block
            if not ok and v[0] == "i":
                lf = linform(fn, v)
                ok = any(isinstance(a, tuple) and a[0] == "i" and fn.insts[a[1]].op == "load" and fn.insts[a[1]].d.get("ptr")
                         and is_skip_ptr(fn.insts[a[1]].d["ptr"]["base"]) and c == 1 for a, c in lf.items())
            rep.require(rid, ok, st.loc, fn.name, "skip-overwritten:%s" % fn.name,
                        "%s assigns the carried read-ahead counter instead of adding to it: when the same region has already run ahead once (an odd-sized region "
                        "ending in the first byte of a high surrogate sets skip = 1 before the low surrogate is fetched across the boundary), that debt is discarded, "
                        "the next region resumes one byte early and is decoded misaligned - the result depends on where the input is split" % fn.name,
                        sample={"store": st.loc})
    if n < 4:
        rep.unknown(rid, "fewer than 4 stores to the carried skip counter found (%d)" % n)


def rule_BD17(rep, prog):
    rid = rep.rule("C20-BD17", "UTF-16 surrogate construction stays inside the surrogate blocks: the value added to 0xD800 (high) and to 0xDC00 (low) is masked to 10 "
                   "bits - the UTF-8 reader does not reject 4-byte forms above U+10FFFF, and an unmasked `(wch >> 10) + 0xD800` then lands in the LOW surrogate block, "
                   "producing output the inverse transform rejects", floor=2)
    fn = prog.fn("___dispatch_transform_to_utf16_block_invoke")
    rep.saw(fn)
    n = 0
    for a in fn.all_insts():
        if a.op not in ("add", "or") or not any(o[0] == "c" and o[1] in (0xd800, 0xdc00) for o in a.ops):
            continue
        other = [o for o in a.ops if not (o[0] == "c" and o[1] in (0xd800, 0xdc00))]
        if not other:
            continue
        n += 1
        x = fn.inst(other[0])
        while x is not None and x.op in ("zext", "trunc") and not (x.op == "trunc" and x.d.get("ty") in ("i8",)):
            x = fn.inst(x.ops[0])
        ok = x is not None and x.op == "and" and x.ops[1][0] == "c" and x.ops[1][1] <= 0x3ff
        rep.require(rid, ok, a.loc, fn.name, "surrogate-half-not-masked",
                    "the UTF-16 encoder forms a surrogate as (value + %#x) without masking the value to 10 bits: for a (malformed but accepted) 4-byte UTF-8 form above "
                    "U+10FFFF the unit leaves its surrogate block (a `high` surrogate in DC00..DFFF), so the encoder emits an unpaired surrogate"
                    % [o[1] for o in a.ops if o[0] == "c"][0], sample={"site": a.loc})
    if n < 2:
        rep.unknown(rid, "fewer than 2 surrogate constructions found in the UTF-16 encoder (%d)" % n)


def rule_TB18(rep, prog):
    rid = rep.rule("C20-TB18", "the surrogate blocks have the same bounds everywhere: in the UTF transforms a comparison with a block boundary constant has the sense the "
                   "constant implies - first values (0xD800, 0xDC00, 0xE000) are compared with >= / <, last values (0xDBFF, 0xDFFF) with <= / > - so that encoder and "
                   "decoder classify every code unit identically (an exclusive test against a LAST value leaves that one code point unclassified: the encoder emits "
                   "a unit the decoder rejects)", floor=6)
    FIRST, LAST = (0xd800, 0xdc00, 0xe000), (0xdbff, 0xdfff)
    n = 0
    for fn in prog.all_functions():
        if not fn.name.startswith("___dispatch_transform_") and "transform" not in fn.name:
            continue
        for t in fn.all_insts():
            if t.op != "icmp" or t.d["pred"] not in ("ult", "ule", "ugt", "uge", "slt", "sle", "sgt", "sge"):
                continue
            for side, o in enumerate(t.ops):
                if o[0] != "c" or o[1] not in FIRST + LAST:
                    continue
                n += 1
                rep.saw(fn)
                pred = t.d["pred"][1:]           # lt / le / gt / ge
                if side == 0:                    # constant on the left: mirror
                    pred = {"lt": "gt", "le": "ge", "gt": "lt", "ge": "le"}[pred]
                ok = pred in (("ge", "lt") if o[1] in FIRST else ("le", "gt"))
                rep.require(rid, ok, t.loc, fn.name, "surrogate-boundary-off-by-one:%#x" % o[1],
                            "%s compares a code unit / code point with the surrogate boundary %#x using `%s`: %#x is the %s value of its block, so this test puts exactly "
                            "that value on the wrong side - the encoder lets a surrogate code point through (or the decoder refuses a valid pair), and the output of one "
                            "transform is rejected by its inverse" % (fn.name, o[1], t.d["pred"], o[1], "first" if o[1] in FIRST else "last"),
                            sample={"site": t.loc, "const": o[1], "pred": t.d["pred"]})
    if n < 6:
        rep.unknown(rid, "fewer than 6 surrogate boundary comparisons found (%d)" % n)


def rule_FR19(rep, prog):
    rid = rep.rule("C20-FR19", "look-back and read-ahead go through the WHOLE data object: the offsets the transforms compute are absolute, so every _dispatch_data_subrange_map "
                   "in an applier block maps from the data object the block captured - never from the `region` it was handed, whose bytes start at the region's own "
                   "offset", floor=4)
    n = 0
    for fn in prog.all_functions():
        if not fn.name.startswith("___dispatch_transform_") or len(fn.params) < 5:
            continue
        for c in calls_named(fn, "_dispatch_data_subrange_map"):
            n += 1
            rep.saw(fn)
            r = root_ptr(fn, c.ops[0])
            ri = fn.inst(list(r)) if r[0] == "i" else None
            ok = tuple(r[:2]) != ("a", 1) and (ri is None or not (ri.op == "load" and False))
            rep.require(rid, ok, c.loc, fn.name, "subrange-mapped-from-region:%s" % fn.name,
                        "%s maps bytes at an absolute offset out of the region it was handed instead of the whole data object: with fragmented input the look-back / "
                        "read-ahead fetches an unrelated byte (silently corrupting the output) or fails - the result depends on where the input is split" % fn.name,
                        sample={"site": c.loc})
    if n < 4:
        rep.unknown(rid, "fewer than 4 _dispatch_data_subrange_map calls found in the applier blocks (%d)" % n)


def rule_BD8(rep, prog):
    rid = rep.rule("C20-BD8", "UTF-16 decoding reads a code unit directly from the region buffer only at an index that was tested NOT to be the split last unit of an "
                   "odd-sized region (index == max-1 && max > size/2); the split unit is fetched through _dispatch_data_subrange_map", floor=2)
    fn = prog.fn("___dispatch_transform_from_utf16_block_invoke")
    rep.saw(fn)
    n = 0
    for l in fn.all_insts():
        if l.op != "load" or l.d.get("ty") != "i16":
            continue
        g = fn.inst(l.ops[0])
        if g is None or g.op != "getelementptr":
            continue
        base = fn.inst(g.ops[0])
        roots = set()
        if base is not None and base.op == "phi":
            roots = {root_ptr(fn, v) for v, frm in base.ops}
            roots |= {root_ptr(fn, fn.inst(r).ops[0]) for r in list(roots) if r[0] == "i" and fn.inst(r) is not None and fn.inst(r).op == "getelementptr"}
        else:
            roots = {root_ptr(fn, g.ops[0])}
        if ("a", 3) not in roots:
            continue
        n += 1
        I = _strip_int(fn, g.ops[-1])
        cx = paths.dom_ctx(fn, l)
        ok = False
        for cid, tv in cx.truth.items():
            c = fn.insts[cid]
            if tv is not False or c.op not in ("select", "and"):
                continue
            for o in c.ops:
                e = fn.inst(o)
                if e is not None and e.op == "icmp" and e.d["pred"] == "eq" and I in (_strip_int(fn, e.ops[0]), _strip_int(fn, e.ops[1])):
                    ok = True
        if not ok:
            # any other way of writing the test (De Morgan, the oddness hoisted into a flag): walk up the dominating branches; one of them must decide on a
            # condition that mentions `index == last` and send the case (index == last AND every other leaf true, i.e. the odd tail) AWAY from this read
            idom, VR = fn.idom()
            b = l.block.id
            while b in idom and idom[b] != b and idom[b] != VR and not ok:
                child, b = b, idom[b]
                t = fn.blocks[b].term
                if t.op != "br" or not t.ops or len(t.d.get("succs", [])) != 2 or t.d["succs"][0] == t.d["succs"][1]:
                    continue
                leaves, work, seen_ = [], [t.ops[0]], set()
                while work:
                    o = work.pop()
                    x = fn.inst(o)
                    if x is None or x.id in seen_:
                        continue
                    seen_.add(x.id)
                    if x.op == "icmp":
                        leaves.append(x)
                    elif x.op in ("select", "and", "or", "xor", "zext", "trunc"):
                        work.extend(y for y in x.ops if y[0] == "i")
                if not any(e.d["pred"] == "eq" and I in (_strip_int(fn, e.ops[0]), _strip_int(fn, e.ops[1])) for e in leaves):
                    continue
                v = ceval(fn, t.ops[0], {e.id: 1 for e in leaves})
                if v is None:
                    continue
                split_edge = t.d["succs"][0 if v else 1]
                other = t.d["succs"][1 if v else 0]
                if fn.block_dominates(other, l.block.id) and not fn.block_dominates(split_edge, l.block.id):
                    ok = True
        rep.require(rid, ok, l.loc, fn.name, "direct-read-of-split-unit",
                    "___dispatch_transform_from_utf16_block_invoke reads a UTF-16 unit straight from the region buffer at an index that was not tested against the "
                    "split last unit of an odd-sized region: a low surrogate whose two bytes straddle a region boundary is read one byte past the region and "
                    "well-formed input is rejected (or decoded differently) depending on fragmentation", sample={"load": l.loc})
    if n < 2:
        rep.unknown(rid, "fewer than 2 direct code-unit reads found (%d)" % n)


def rule_SW9(rep, prog):
    rid = rep.rule("C20-SW9", "byte order: every 16-bit code unit the UTF-16 decoder reads (from the region buffer or through a read-ahead mapping) goes through the "
                   "byte-order swap before it is classified", floor=4)
    fn = prog.fn("___dispatch_transform_from_utf16_block_invoke")
    rep.saw(fn)
    n = 0
    for l in fn.all_insts():
        if l.op != "load" or l.d.get("ty") != "i16":
            continue
        n += 1
        swapped = False
        for u in fn.users(l):
            if u.op == "call" and (u.callee or "").startswith("llvm.bswap"):
                swapped = True
            if u.op in ("zext", "sext"):
                for u2 in fn.users(u):
                    if u2.op in ("ashr", "lshr", "shl") and u2.ops[1][0] == "c" and u2.ops[1][1] == 8:
                        swapped = True
        rep.require(rid, swapped, l.loc, fn.name, "code-unit-not-byte-swapped",
                    "the UTF-16 decoder uses a code unit read at %s without converting it from the data's byte order: for the non-host byte order a surrogate pair "
                    "split between two regions decodes to a different character or is rejected, although the unfragmented data decodes fine" % l.loc,
                    sample={"load": l.loc})
    if n < 4:
        rep.unknown(rid, "fewer than 4 code-unit reads found (%d)" % n)


def rule_TB9(rep, prog):
    rid = rep.rule("C20-TB9", "UTF-8 length ladder of the UTF-16 decoder: N output bytes are reserved exactly under wch < 0x80 (1), < 0x800 (2), < 0x10000 (3); the "
                   "emitted sequence for every code point is the well-formed one the UTF-8 reader accepts", floor=3)
    fn = prog.fn("___dispatch_transform_from_utf16_block_invoke")
    rep.saw(fn)
    want_t = {1: 0x80, 2: 0x800, 3: 0x10000}
    seen = 0
    for c in calls_named(fn, "_dispatch_transform_buffer_new"):
        if len(c.ops) < 3 or c.ops[1][0] != "c" or c.ops[1][1] not in want_t or not (c.ops[2][0] == "i"):
            continue
        N = c.ops[1][1]
        seen += 1
        cx = paths.dom_ctx(fn, c)
        bound = None
        for cid, tv in cx.truth.items():
            t = fn.insts[cid]
            if t.op == "icmp" and t.ops[1][0] == "c" and tv:
                if t.d["pred"] == "ult":
                    b = t.ops[1][1]
                elif t.d["pred"] == "ule":
                    b = t.ops[1][1] + 1
                else:
                    continue
                bound = b if bound is None else min(bound, b)
        rep.require(rid, bound == want_t[N], c.loc, fn.name, "utf8-length-boundary:%d" % N,
                    "the UTF-16 decoder emits a %d-byte UTF-8 sequence for code points below %s (expected below %#x): the code point on the boundary is "
                    "written as an ill-formed sequence that the inverse transform rejects or mis-reads" % (N, hex(bound) if bound is not None else "?", want_t[N]),
                    sample={"bytes": N, "below": hex(bound) if bound is not None else None})
    if seen < 3:
        # the reservations are not per-rung constants (e.g. one computed reservation in front of the ladder): decide the ladder on the number of bytes EMITTED
        # under each established bound instead
        def is_data_store(i):
            if i.op != "store" or not i.d.get("ptr"):
                return False
            b = root_ptr(fn, i.d["ptr"]["base"])
            bi = fn.insts.get(b[1]) if b[0] == "i" else None
            return bi is not None and bi.op == "load" and bool(prog.fields(bi) & frozenset(["u8", "u16"])) and "ptr" in prog.fields(bi)
        rungs = {}
        for b in fn.blocks:
            sts = [i for i in b.insts if is_data_store(i)]
            if not sts:
                continue
            cx = paths.dom_ctx(fn, sts[0])
            bound = None
            for cid, tv in cx.truth.items():
                t = fn.insts[cid]
                if t.op == "icmp" and t.ops[1][0] == "c" and tv and t.d["pred"] in ("ult", "ule"):
                    bb = t.ops[1][1] + (1 if t.d["pred"] == "ule" else 0)
                    bound = bb if bound is None else min(bound, bb)
            if bound is not None:
                rungs[len(sts)] = bound
        found = 0
        for N, want_b in want_t.items():
            if N in rungs:
                found += 1
                rep.require(rid, rungs[N] == want_b, fn.file, fn.name, "utf8-length-boundary:%d" % N,
                            "the UTF-16 decoder emits a %d-byte UTF-8 sequence for code points below %#x (expected below %#x)" % (N, rungs[N], want_b),
                            sample={"bytes": N, "below": hex(rungs[N])})
        if found < 3:
            rep.unknown(rid, "fewer than 3 rungs of the UTF-8 length ladder found (%d constant reservations, %d emission blocks)" % (seen, found))


def rule_AI10(rep, prog):
    from .C13 import linform
    rid = rep.rule("C20-AI10", "read-ahead accounting of the UTF-8 reader: after mapping an L-byte sequence that starts at index i of a region of `size` bytes, the bytes "
                   "to skip in the next region grow by exactly L - (size - i)", floor=1)
    fn = prog.fn("___dispatch_transform_to_utf16_block_invoke")
    rep.saw(fn)
    maps = calls_named(fn, "_dispatch_data_subrange_map")
    if not maps:
        rep.unknown(rid, "no read-ahead mapping in the UTF-8 reader")
        return
    for m in maps:
        off = linform(fn, m.ops[2])
        L = _strip_int(fn, m.ops[3])
        idx = [a for a, c in off.items() if isinstance(a, tuple) and a[0] == "i" and fn.insts[a[1]].op == "phi" and fn.inst_reaches(m, fn.insts[a[1]]) and c == 1]
        # the store that updates skip after this mapping
        st = None
        for s_ in fn.all_insts():
            if s_.op == "store" and fn.dominates(m, s_):
                lf = linform(fn, s_.ops[0])
                olds = [a for a, c in lf.items() if isinstance(a, tuple) and a[0] == "i" and fn.insts[a[1]].op == "load" and
                        tuple(fn.insts[a[1]].ops[0][:2]) == tuple(s_.ops[1][:2]) and c == 1]
                if olds:
                    st = (s_, lf, olds[0])
                    break
        if st is None or not idx:
            rep.unknown(rid, "skip update after the read-ahead mapping at %s not found" % m.loc)
            continue
        s_, lf, old = st
        rest = {a: c for a, c in lf.items() if a != old}
        Lc = sum(c for a, c in rest.items() if isinstance(a, tuple) and _strip_int(fn, list(a)) == L)
        ic = sum(c for a, c in rest.items() if a in idx)
        neg = [c for a, c in rest.items() if c < 0]
        ok = Lc == 1 and ic == 1 and neg == [-1] and len(rest) == 3
        rep.require(rid, ok, s_.loc, fn.name, "read-ahead-skip-miscounted",
                    "the UTF-8 reader adds %s to skip after a read-ahead (expected L - size + i): too many or too few bytes of the next region are skipped and the "
                    "characters after a sequence split across regions are dropped or re-read" % {str(k_): v for k_, v in rest.items()}, sample={"store": s_.loc})


def rule_TB11(rep, prog):
    rid = rep.rule("C20-TB11", "signature comparisons cover the whole signature: a memcmp against a constant table (the UTF-8 byte-order mark) compares exactly the "
                   "table's size, and the window mapped for it has that size", floor=1)
    n = 0
    for fn in prog.all_functions():
        if not fn.name.startswith(("_dispatch_transform", "___dispatch_transform")):
            continue
        for c in fn.all_insts():
            if c.op != "call" or c.callee not in ("memcmp", "bcmp"):
                continue
            g = [o for o in c.ops[:2] if o[0] == "g"]
            if not g or c.ops[2][0] != "c":
                continue
            gl = prog.global_(g[0][1])
            if gl is None or not gl.get("size"):
                continue
            n += 1
            rep.saw(fn)
            size = int(gl["size"])
            maps = [m for m in calls_named(fn, "_dispatch_data_subrange_map") if fn.dominates(m, c) and m.ops[3][0] == "c"]
            ok = c.ops[2][1] == size and all(m.ops[3][1] >= size for m in maps)
            rep.require(rid, ok, c.loc, fn.name, "signature-compared-partially:%s" % g[0][1],
                        "%s compares %d byte(s) of the %d-byte signature %s: text that merely begins like the signature (e.g. U+FEC0..U+FEFE, whose UTF-8 form "
                        "starts EF BB) is taken for a byte-order mark and its first character is dropped" % (fn.name, c.ops[2][1], size, g[0][1]),
                        sample={"fn": fn.name, "table": g[0][1], "size": size})
    if n < 1:
        rep.unknown(rid, "no memcmp against a constant signature table found in the transforms")


def rule_BD12(rep, prog):
    rid = rep.rule("C20-BD12", "per-region output buffers of the Base32 / Base64 decoders are sized for ceil(size / Q) quanta of B bytes (a quantum started in an "
                   "earlier region can complete in this one, so floor(size / Q) is one quantum short)", floor=2)
    n = 0
    for name, Q, B in (("___dispatch_transform_from_base32_with_table_block_invoke", 8, 5), ("___dispatch_transform_from_base64_block_invoke", 4, 3)):
        fn = prog.fn(name)
        rep.saw(fn)
        for m in calls_named(fn, "malloc"):
            n += 1
            v = fn.inst(m.ops[0])
            ok = False
            if v is not None and v.op == "mul" and v.ops[1][0] == "c" and v.ops[1][1] == B:
                d = fn.inst(v.ops[0])
                if d is not None and d.op == "udiv" and d.ops[1][0] == "c" and d.ops[1][1] == Q:
                    a = fn.inst(d.ops[0])
                    if a is not None and a.op == "add" and a.ops[1][0] == "c" and a.ops[1][1] == Q - 1 and tuple(a.ops[0][:2]) == ("a", 4):
                        ok = True
            rep.require(rid, ok, m.loc, name, "decoder-buffer-rounded-down:%s" % name,
                        "%s allocates its output buffer for fewer than ceil(size/%d) quanta: when a region boundary falls inside a %d-character group the group "
                        "completed in this region writes %d bytes past the malloc'ed buffer" % (name, Q, Q, B), sample={"fn": name, "malloc": m.loc})
    if n < 2:
        rep.unknown(rid, "fewer than 2 decoder output allocations found (%d)" % n)


def rule_OD13(rep, prog):
    rid = rep.rule("C20-OD13", "a pointer obtained from _dispatch_data_subrange_map is dereferenced only while the mapping object it came with is still held "
                   "(the mapping may own a private copy of bytes that span regions; releasing it frees that copy)", floor=3)
    n = 0
    for fn in prog.all_functions():
        maps = calls_named(fn, "_dispatch_data_subrange_map")
        for m in maps:
            slot = root_ptr(fn, m.ops[1])
            if slot[0] != "i" or fn.insts[slot[1]].op != "alloca":
                continue
            ploads = [l for l in fn.all_insts() if l.op == "load" and root_ptr(fn, l.d["ptr"]["base"]) == slot and fn.inst_reaches(m, l)]
            derefs = [d for d in fn.all_insts() if d.op in ("load", "call") and any(
                (d.op == "load" and root_ptr(fn, d.d["ptr"]["base"]) == ("i", pl.id)) or
                (d.op == "call" and any(o[0] == "i" and root_ptr(fn, o) == ("i", pl.id) for o in d.ops)) for pl in ploads)]
            rels = [r for r in calls_named(fn, ("dispatch_release", "_dispatch_release")) if root_ptr(fn, r.ops[0]) == ("i", m.id)]
            if not derefs:
                continue
            n += 1
            rep.saw(fn)
            others = [x for x in maps if x is not m]
            bad = [(r, d) for r in rels for d in derefs if fn.inst_reaches(r, d, avoid_insts=others + [m])]
            rep.require(rid, not bad and bool(rels), m.loc, fn.name, "mapped-pointer-used-after-release:%s" % fn.name,
                        "%s reads through the pointer returned by _dispatch_data_subrange_map after releasing the mapping object (%s): when the mapped bytes span "
                        "two regions they live in a copy owned by that object, so the read is from freed memory and the result depends on fragmentation"
                        % (fn.name, bad[0][1].loc if bad else "no release found"), sample={"fn": fn.name, "map": m.loc, "derefs": len(derefs)})
    if n < 3:
        rep.unknown(rid, "fewer than 3 mapped windows with dereferences found (%d)" % n)


def rule_FR14(rep, prog):
    rid = rep.rule("C20-FR14", "fragmentation independence of the base-N decoders: whatever the per-character loop carries from one input character to the next - "
                   "apart from the input index and the output cursor - lives in the state shared by all regions (the __block variables x / count / pad), never in "
                   "a local that starts afresh with each region: a region boundary inside a quantum (or between two '=') must be invisible", floor=2)
    n = 0
    for fn in prog.all_functions():
        if not re.match(r"_+dispatch_transform_from_base(32|64).*block_invoke", fn.name):
            continue
        n += 1
        rep.saw(fn)
        size_arg = ("a", 4)
        def derives_from_size(op, depth=0):
            if tuple(op[:2]) == size_arg:
                return True
            i = fn.inst(op) if op[0] == "i" else None
            if i is None or depth > 4:
                return False
            return i.op in ("add", "sub", "zext", "trunc", "udiv", "mul") and any(derives_from_size(o, depth + 1) for o in i.ops if isinstance(o, (list, tuple)))
        for b in fn.blocks:
            for ph in b.insts:
                if ph.op != "phi":
                    break
                if not any(fn.dominates(ph, fn.blocks[frm].term) for v, frm in ph.ops):
                    continue            # not a loop-head phi (no incoming back edge)
                if str(ph.d.get("ty", "")).endswith("*"):
                    rep.ok(rid, "cursor:%s:%d" % (fn.name, ph.id), {"fn": fn.name, "phi": ph.loc, "kind": "pointer cursor"})
                    continue
                # integer: every use is addressing, a comparison with the region size, or its own update
                bad, seen, work = [], set(), [ph]
                while work:
                    v = work.pop()
                    for u in fn.users(v):
                        if u.id in seen:
                            continue
                        seen.add(u.id)
                        if u.op == "getelementptr":
                            continue
                        if u.op == "icmp" and any(derives_from_size(o) for o in u.ops):
                            continue
                        if u.op in ("add", "sub", "zext", "sext", "trunc", "phi"):
                            work.append(u)
                            continue
                        bad.append(u)
                rep.require(rid, not bad, ph.loc, fn.name, "per-region-decoder-state:%d" % ph.id,
                            "%s carries a value from character to character in a local that is re-initialised for every region (loop-carried %%%d, used at %s as more "
                            "than an index / output cursor): decoder state such as the count of '=' seen or the position inside the quantum must survive a region "
                            "boundary - text split between two padding characters or inside a quantum otherwise decodes differently from the same text in one piece"
                            % (fn.name, ph.id, bad[0].loc if bad else None), sample={"fn": fn.name, "phi": ph.loc})
    if n < 2:
        rep.unknown(rid, "expected the Base32 and Base64 decoder blocks, found %d" % n)


def run(rep, tier="quick", srcdir=None, only=None):
    prog, units = load(UNITS, tier, srcdir)
    rep.units = units
    want = lambda r: only is None or r in only
    if want("C20-TB1"):
        rule_TB1(rep, prog)
    if want("C20-BD2"):
        rule_BD2(rep, prog)
    if want("C20-BD3"):
        rule_BD3(rep, prog)
    if want("C20-BD3b"):
        rule_BD3b(rep, prog)
    if want("C20-FR7"):
        rule_FR7(rep, prog)
    if want("C20-BD4"):
        rule_BD4(rep, prog)
    if want("C20-BD5"):
        rule_BD5(rep, prog)
    if want("C20-TB6"):
        rule_TB6(rep, prog)
    if want("C20-FR8"):
        rule_FR8(rep, prog)
    if want("C20-BD8"):
        rule_BD8(rep, prog)
    if want("C20-SW9"):
        rule_SW9(rep, prog)
    if want("C20-TB9"):
        rule_TB9(rep, prog)
    if want("C20-AI10"):
        rule_AI10(rep, prog)
    if want("C20-TB11"):
        rule_TB11(rep, prog)
    if want("C20-BD12"):
        rule_BD12(rep, prog)
    if want("C20-OD13"):
        rule_OD13(rep, prog)
    if want("C20-FR14"):
        rule_FR14(rep, prog)
    if want("C20-FR15"):
        rule_FR15(rep, prog)
    if want("C20-FR16"):
        rule_FR16(rep, prog)
    if want("C20-BD17"):
        rule_BD17(rep, prog)
    if want("C20-TB18"):
        rule_TB18(rep, prog)
    if want("C20-FR19"):
        rule_FR19(rep, prog)
    if want("C13-AI10") or want("C13-OD5") or want("C13-AI6") or want("C13-SB9"):
        # the transforms see their input only as the regions dispatch_data_apply hands them and read ahead through create_subrange / create_map: "independent
        # of fragmentation" and "never reads outside the input" rest on the record walks of data.c tiling the byte string exactly (shared with C13)
        from . import C13
        pd, _u = load(["data"], tier, srcdir)
        if want("C13-AI10"):
            C13.rule_AI10(rep, pd)
        if want("C13-OD5"):
            C13.rule_OD5(rep, pd)
        if want("C13-AI6"):
            C13.rule_AI6(rep, pd)
        if want("C13-SB9"):
            # the read-ahead helper asks for the range that starts exactly at the end of the data when the input ends in a lone high surrogate: that request
            # must come back empty, for a composite object too (shared with C13)
            C13.rule_SB9(rep, pd)


MANIFEST = {
    "technique": "constant-table agreement on IR initialisers, bounded-subscript / bounded-window / reservation-vs-store rules (IR value flow + per-path byte counting), descriptor symmetry + loop-carried-state rule for the per-region decoder blocks (fragmentation independence)",
    "level": "memory safety and table agreement only: inverse tables and matching sizes, bounded table subscripts, reads within mapped windows, stores within "
             "reservations on every path between two reservations, no unguarded size subtraction, symmetric format masks. The round-trip identity over all byte "
             "strings and fragmentations is a functional statement and is NOT decided",
    "note": "block literals are analysed as their generated *_block_invoke functions; __block variables through byref forwarding are followed only for the "
            "transform buffer fields",
}
