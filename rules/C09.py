"""C09 - dispatch_once runs its initialiser exactly once, before anyone returns.

Decided: who may write the gate word and with which values/guards, that the initialiser runs only on the try-enter
success edge and before the broadcast, that waiters return only after observing DONE (re-read after every kernel
wait), that the broadcast wakes all waiters, and that the inline fast paths of the public header only skip the call
when the predicate equals ~0."""
from dqsa import trans, paths, build, ir
from .common import *
from .sync_common import *

UNITS = ["once", "shims/lock", "queue"]
F = frozenset(["dgo_once"])
ALL1 = (1 << 64) - 1

CLIENT = '''
#include <dispatch/dispatch.h>
static dispatch_once_t verif_pred;
static void verif_fn(void *c) { (void)c; }
void verif_client_once(void) { dispatch_once(&verif_pred, ^{ }); }
void verif_client_once_f(void) { dispatch_once_f(&verif_pred, 0, verif_fn); }
'''


def rule_TR1(rep, prog, ex, k):
    rid = rep.rule("C09-TR1", "dgo_once is written only by: try-enter CAS 0 -> owner tid, the waiters' CAS that ORs the waiters bit (giving up on DONE), "
                   "and the broadcast exchange to DONE (release)", floor=3)
    DONE, WAITERS = k["DLOCK_ONCE_DONE"], k["DLOCK_WAITERS_BIT"]
    seen = set()
    for fn in prog.all_functions():
        for t in ex.transitions(fn, F, plain=True):
            if isinstance(t, trans.GiveUp):
                continue
            rep.saw(fn)
            o = t.origin
            # roles are recognised by the SHAPE of the write, not by the name of the function it sits in (a helper merged into its caller or renamed
            # keeps its shape); a write of any other shape is a violation wherever it is
            is_try = t.kind == "cas" and t.expected is not None and t.expected.value() == k["DLOCK_ONCE_UNLOCKED"]
            is_done = t.kind == "rmw" and t.rmw == "xchg" and t.operand is not None and t.operand.value() == DONE
            is_wait = t.kind == "cas-loop" and t.sets(WAITERS)
            if is_try or o == "_dispatch_once_gate_tryenter":
                seen.add("tryenter")
                ok = is_try and any("lock_value_for_self" in (s_ or "") or "tid" in (s_ or "") for s_, m in t.new.ors)
                rep.require(rid, ok, t.where, o, "tryenter-shape", "the try-enter of the once gate (%s) must CAS from exactly DLOCK_ONCE_UNLOCKED to the caller's "
                            "lock value (found expected=%r new=%r): two callers could both win" % (o, t.expected, t.new), sample={"site": o, "expected": 0})
            elif is_done or o == "_dispatch_once_mark_done":
                seen.add("mark_done")
                ok = is_done and ord_has_release(t.order)
                rep.require(rid, ok, t.where, o, "mark-done-shape", "marking the once gate done (%s) must exchange DLOCK_ONCE_DONE with release (found %s %r %s)"
                            % (o, t.rmw, t.operand, t.order), sample={"site": o, "xchg": "DONE", "order": t.order})
            elif is_wait or o == "_dispatch_once_wait":
                seen.add("wait")
                ok = is_wait and t.preserves(ALL1 & ~WAITERS) and t.old.uhi < DONE
                rep.require(rid, ok, t.where, o, "wait-cas-shape", "_dispatch_once_wait may only OR the waiters bit into a gate that is not DONE "
                            "(old range up to %#x, new %r)" % (t.old.uhi, t.new), sample={"site": o, "new": repr(t.new)})
            else:
                rep.violation(rid, t.where, o, "unclassified-once-writer:%s" % o, "%s writes dgo_once with a %s that is none of the three legitimate transitions "
                              "(try-enter CAS, waiters-bit CAS, DONE exchange)" % (o, t.kind))
    for need in ("tryenter", "mark_done", "wait"):
        if need not in seen:
            rep.unknown(rid, "anchor vanished: no %s transition of dgo_once found" % need)


def rule_MP2(rep, prog, k):
    rid = rep.rule("C09-MP2", "dispatch_once_f runs the initialiser only on the try-enter success edge and otherwise waits; the callout precedes the "
                   "broadcast; _dispatch_once_wait returns only on DONE and re-reads the gate after every kernel wait; the broadcast wakes all", floor=5)
    DONE = k["DLOCK_ONCE_DONE"]
    fn = prog.fn("dispatch_once_f")
    rep.saw(fn)
    te = calls_named(fn, "_dispatch_once_gate_tryenter")
    co = calls_named(fn, "_dispatch_once_callout") or calls_named(fn, "_dispatch_client_callout")      # the helper may be merged into dispatch_once_f
    wt = calls_named(fn, "_dispatch_once_wait")
    ok = len(te) == 1 and bool(co) and bool(wt)
    if ok:
        c1 = paths.PathCtx(fn); c1.truth[te[0].id] = True; c1.nonnull.add(("i", te[0].id))
        r1 = paths.walk(fn, te[0], lambda i: i in wt, avoid=lambda i: i in co, ctx=c1)
        c2 = paths.PathCtx(fn); c2.truth[te[0].id] = False; c2.isnull.add(("i", te[0].id))
        r2 = paths.walk(fn, te[0], lambda i: i in co, avoid=lambda i: i in wt, ctx=c2)
        ok = not r1 and not r2
        # callout never reachable without passing tryenter
        r3 = paths.walk(fn, entry_point(fn), lambda i: i in co, avoid=lambda i: i in te)
        ok = ok and not [r for r in r3 if r[0] == "hit"]
    rep.require(rid, ok, fn.file, fn.name, "once-callout-control",
                "dispatch_once_f: the initialiser callout must be reached exactly on the success edge of _dispatch_once_gate_tryenter and every "
                "other path must wait in _dispatch_once_wait", sample={"tryenter": len(te), "callout": len(co), "wait": len(wt)})
    fn = prog.fn("_dispatch_once_callout", required=False) or prog.fn("dispatch_once_f")
    rep.saw(fn)
    cc = calls_named(fn, "_dispatch_client_callout")
    bc = calls_named(fn, ("_dispatch_once_gate_broadcast", "_dispatch_once_mark_done", "_dispatch_gate_broadcast_slow")) + \
         [i for i in fn.all_insts() if i.op == "atomicrmw" and (prog.fields(i) & F)]
    rep.require(rid, bool(cc) and bool(bc) and all(any(fn.dominates(c, b) for c in cc) for b in bc), fn.file, fn.name, "broadcast-before-callout",
                "_dispatch_once_callout publishes DONE / wakes waiters before the initialiser has run", sample={"callouts": len(cc), "broadcasts": len(bc)})
    # broadcast wakes when other bits than own tid were present
    rule_wake_all(rep, rid, prog, "_dispatch_gate_broadcast_slow")
    # ... and the fast path skips the wake-up only when the exchanged value was EXACTLY the owner's lock value: concrete evaluation of the
    # branch for the gate values self|WAITERS_BIT and self|FAILED_TRYLOCK_BIT (any masked comparison would treat them as "no waiters")
    fn = prog.fn("_dispatch_once_gate_broadcast")
    rep.saw(fn)
    me = calls_named(fn, "_dispatch_lock_value_for_self")
    xc = calls_named(fn, "_dispatch_once_mark_done") + [i for i in fn.all_insts() if i.op == "atomicrmw" and i.d.get("rmw") == "xchg"]
    slow = calls_named(fn, "_dispatch_gate_broadcast_slow")
    if len(me) != 1 or len(xc) != 1 or not slow:
        rep.unknown(rid, "anchor vanished in _dispatch_once_gate_broadcast (self=%d exchange=%d slow=%d)" % (len(me), len(xc), len(slow)))
    else:
        lk = consts.get(["DLOCK_WAITERS_BIT", "DLOCK_FAILED_TRYLOCK_BIT"], unit="shims/lock")
        SELF = 0x1234 << 2
        res = {}
        for nm in ("DLOCK_WAITERS_BIT", "DLOCK_FAILED_TRYLOCK_BIT"):
            res[nm] = concrete_run(fn, {me[0].id: SELF, xc[0].id: SELF | lk[nm]}, slow)
        res["exact"] = concrete_run(fn, {me[0].id: SELF, xc[0].id: SELF}, slow)
        rep.require(rid, res["DLOCK_WAITERS_BIT"] is True and res["DLOCK_FAILED_TRYLOCK_BIT"] is True and res["exact"] is not None, slow[0].loc, fn.name,
                    "once-broadcast-skipped-with-waiters",
                    "_dispatch_once_gate_broadcast does not reach _dispatch_gate_broadcast_slow when the gate held the owner's value plus the waiters bit "
                    "(concrete evaluation %s): callers already parked in the kernel are never woken although the gate is DONE" % res, sample={"concrete": res})
    # waiter
    rule_recheck_after_wait(rep, rid, prog, "_dispatch_once_wait", "dgo_once", ("_dispatch_futex_wait", "_dispatch_unfair_lock_wait"), need_acquire=False)
    fn = prog.fn("_dispatch_once_wait")
    ex = trans.Extractor(prog)
    gus = [t for t in ex.transitions(fn, F) if isinstance(t, trans.GiveUp)]
    res = paths.walk(fn, entry_point(fn), lambda i: False)
    exits = [r for r in res if r[0] == "exit"]
    okx = bool(exits)
    for kind, inst, cx, path in exits:
        # on an exit path some comparison old_v == DONE must be known true
        good = False
        for iid, tv in cx.truth.items():
            ii = fn.insts[iid]
            if ii.op == "icmp" and ii.d["pred"] in ("eq", "ne") and any(o[0] == "c" and o[1] == DONE for o in ii.ops) and tv == (ii.d["pred"] == "eq"):
                good = True
        if not good:
            okx = False
    rep.require(rid, okx, fn.file, fn.name, "once-wait-returns-before-done",
                "_dispatch_once_wait has a return path on which the gate value was not observed equal to DLOCK_ONCE_DONE: a caller returns from "
                "dispatch_once while the initialiser may still be running", sample={"exit_paths": len(exits)})


def rule_OD4(rep, prog, k):
    rid = rep.rule("C09-OD4", "a waiter goes to sleep comparing the gate with the value IT published: the compare value handed to the futex wait in "
                   "_dispatch_once_wait is the value of this thread's own compare-exchange (what it observed, with the waiters bit) - never a fresh read of the "
                   "gate: if the initialiser completed in between, a re-read yields DONE and the waiter sleeps on DONE after the only wake-up has gone", floor=1)
    fn = prog.fn("_dispatch_once_wait")
    rep.saw(fn)
    waits = calls_named(fn, ("_dispatch_futex_wait", "_dispatch_unfair_lock_wait"))
    cxs = [c for c in fn.all_insts() if c.op == "cmpxchg" and "dgo_once" in prog.fields(c)]
    if not waits or not cxs:
        rep.unknown(rid, "anchor vanished in _dispatch_once_wait (waits=%d, compare-exchanges=%d)" % (len(waits), len(cxs)))
        return
    for w in waits:
        seen, work, fresh, own = set(), [w.ops[1]], [], False
        while work:
            o = work.pop()
            i = fn.inst(o) if o[0] == "i" else None
            if i is None or i.id in seen:
                continue
            seen.add(i.id)
            if i.op == "load" and "dgo_once" in prog.fields(i):
                # the initial read that seeds the compare-exchange loop is fine; a read made AFTER the compare-exchange is a fresh one
                if any(fn.inst_reaches(c, i, avoid_insts=[w]) for c in cxs):
                    fresh.append(i)
                continue
            if any(tuple(o[:2]) == tuple(c.ops[2][:2]) or tuple(o[:2]) == tuple(c.ops[1][:2]) for c in cxs):
                own = True
            if i.op in ("trunc", "zext", "or", "and", "select", "bitcast"):
                work += [x for x in (i.ops[1:] if i.op == "select" else i.ops) if isinstance(x, (list, tuple)) and x and x[0] == "i"]
            elif i.op == "phi":
                work += [v for v, frm in i.ops]
            elif i.op == "extractvalue":
                own = own or fn.inst(i.ops[0]) in cxs
        rep.require(rid, own and not fresh, w.loc, fn.name, "once-wait-sleeps-on-reread-value",
                    "_dispatch_once_wait hands the futex wait a compare value that %s: the waiter must sleep on exactly the word it installed / observed with its "
                    "compare-exchange, so that any later change of the gate (DONE) makes the kernel refuse to sleep"
                    % ("is re-read from the gate after the compare-exchange (at %s)" % fresh[0].loc if fresh else "does not come from its compare-exchange"),
                    sample={"wait": w.loc})


def rule_HDR(rep, srcdir):
    rid = rep.rule("C09-HDR3", "public inline fast paths (_dispatch_once, _dispatch_once_f in dispatch/once.h): dispatch_once[_f] is skipped only when the "
                   "loaded predicate equals ~0", floor=2)
    facts = build.facts_for_snippet("once_client", CLIENT, srcdir=srcdir, mode="none")
    m = ir.Program({"client": facts})
    for name, slow in (("_dispatch_once", "dispatch_once"), ("_dispatch_once_f", "dispatch_once_f")):
        fn = m.fn(name, required=False)
        if fn is None:
            rep.unknown(rid, "inline %s not emitted by the client probe (DISPATCH_ONCE_INLINE_FASTPATH off?)" % name)
            continue
        res = paths.walk(fn, entry_point(fn), lambda i: False, avoid=lambda i: i.op == "call" and i.callee == slow)
        slowcalls = calls_named(fn, slow)
        # only the load(s) the decision is based on: those dominating the slow call (the trailing
        # DISPATCH_COMPILER_CAN_ASSUME re-load is not evidence)
        loads = [i for i in fn.all_insts() if i.op == "load" and i.d.get("ty") == "i64" and slowcalls and all(fn.dominates(i, c) for c in slowcalls)]
        bad = []
        for kind, inst, cx, path in res:
            if kind != "exit":
                continue
            if not any(cx.consts.get(l.id) == ALL1 for l in loads):
                bad.append(path)
        rep.require(rid, not bad and bool(loads), "dispatch/once.h", name, "inline-fastpath-skips-slow:%s" % name,
                    "%s (dispatch/once.h) returns without calling %s on a path where *predicate was not established to be ~0: a caller racing "
                    "with the initialiser returns early" % (name, slow), sample={"fn": name, "paths": len(res)})


def rule_OD5(rep, prog):
    rid = rep.rule("C09-OD5", "the lock value a thread writes into a once gate (and every other owner word) is never the uninitialised 0: the cached thread id of the "
                   "thread-specific data is read only behind the lazy initialiser (_dispatch_get_tsd_base / libdispatch_tsd_init) - a raw pthread whose first libdispatch "
                   "call is dispatch_once would otherwise `take` the gate with owner 0, i.e. leave it open, and a second caller runs the initialiser again", floor=1)
    ALLOWED = ("_dispatch_get_tsd_base", "libdispatch_tsd_init", "_libdispatch_tsd_cleanup", "_dispatch_thread_setspecific", "_dispatch_thread_getspecific")
    n = raw = 0
    for fn in sorted(prog.all_functions(), key=lambda f: f.name):
        for l in fn.all_insts():
            if l.op != "load" or not l.d.get("ptr") or tuple(l.d["ptr"]["base"][:2]) != ("g", "__dispatch_tsd") or "tid" not in prog.fields(l):
                continue
            n += 1
            rep.saw(fn)
            ok = fn.name in ALLOWED
            rep.require(rid, ok, l.loc, fn.name, "thread-id-read-without-lazy-init:%s" % fn.name,
                        "%s reads the cached thread id straight from the thread-specific data, bypassing the lazy initialiser: on a thread that has not yet run it the id "
                        "is 0, so the owner value it stores into a dispatch_once gate (or a queue / unfair lock) is the `unlocked` value" % fn.name, sample={"site": l.loc})
    if n < 1:
        rep.unknown(rid, "no read of the cached thread id found at all (renamed?)")


def run(rep, tier="quick", srcdir=None, only=None):
    prog, units = load(UNITS, tier, srcdir)
    rep.units = units + ["<client probe of dispatch/once.h>"]
    k = consts.get(["DLOCK_ONCE_DONE", "DLOCK_ONCE_UNLOCKED", "DLOCK_WAITERS_BIT"], srcdir=srcdir)
    ex = trans.Extractor(prog, tier)
    want = lambda r: only is None or r in only
    if want("C09-TR1"):
        rule_TR1(rep, prog, ex, k)
    if want("C09-MP2"):
        rule_MP2(rep, prog, k)
    if want("C09-OD4"):
        rule_OD4(rep, prog, k)
    if want("C09-OD5"):
        rule_OD5(rep, prog)
    if want("C09-HDR3"):
        rule_HDR(rep, srcdir)
    if want("C09-FK"):
        rule_futex_key(rep, "C09", prog)


MANIFEST = {
    "technique": "who-may-write census + transition shape rules on the gate word + control-dependence / must-pass rules (LLVM IR), incl. a compiled client probe of the public inline fast path",
    "level": "every writer of the once gate is classified and shape-checked, the initialiser is shown to run only on the unique try-enter success "
             "edge and before the broadcast, waiters are shown to return only on DONE with a re-read after each kernel wait, and the header fast "
             "path skips the call only for ~0; uniqueness of the CAS winner is atomicity of cmpxchg (trusted)",
    "note": "x86-64 configuration (DISPATCH_ONCE_INLINE_FASTPATH); futex wake/wait contract and cmpxchg atomicity are trusted",
}
