"""C11 - timers and dispatch_after never fire early and always fire.

Decided (necessary conditions): nothing is delivered before target <= now on the timer's own clock; missed-interval
accounting only runs under now >= target (no unsigned wrap); the kernel timer of each dispatch clock uses the POSIX clock the
reader of that clock uses, with absolute programming; a reconfiguration always discards data accumulated under the old
settings; the heap comparisons use one key per heap and both child-existence tests use the heap size.
Not decided: the heap invariant over all insert/remove sequences ("eventually fires for every population") and kernel accuracy."""
from dqsa import paths, consts
from .common import *
from .sync_common import entry_point
from .C03 import root_ptr
from .C10 import roots_of

UNITS = ["event/event", "event/event_epoll", "source", "time"]


def rule_MP1(rep, prog):
    rid = rep.rule("C11-MP1", "never early: in _dispatch_timers_run every delivery (merge / missed computation / AFTER fire) is dominated by the false edge of "
                   "target > now; every call of _dispatch_timer_unote_compute_missed(dt, now, ..) is dominated by now >= target for the same `now`", floor=3)
    fn = prog.fn("_dispatch_timers_run")
    rep.saw(fn)
    nowc = calls_named(fn, ("_dispatch_time_now_cached", "_dispatch_time_now"))
    tl = [i for i in fn.all_insts() if i.op == "load" and "target" in prog.fields(i)]
    tests = [i for i in fn.all_insts() if i.op == "icmp" and i.d["pred"] in ("ugt", "ule", "ult", "uge") and
             any(fn.inst(o) in tl for o in i.ops) and any(fn.inst(o) in nowc for o in i.ops)]
    deliver = icalls_slot(prog, fn, "dst_merge_evt") + calls_named(fn, ("_dispatch_timer_unote_compute_missed", "_dispatch_timer_unote_configure", "_dispatch_timer_unote_disarm"))
    if not tests or not deliver:
        rep.unknown(rid, "anchor vanished in _dispatch_timers_run (tests=%d deliveries=%d)" % (len(tests), len(deliver)))
    else:
        ok = True
        for d in deliver:
            good = False
            for t in tests:
                # which operand is target?
                tgt_first = fn.inst(t.ops[0]) in tl
                early_when_true = (t.d["pred"] in ("ugt", "uge") and tgt_first and t.d["pred"] == "ugt") or (t.d["pred"] in ("ult",) and not tgt_first)
                for br, st, sf in paths.branch_edges(fn, t):
                    fire_edge = sf if early_when_true else st
                    other = st if early_when_true else sf
                    if fn.block_dominates(fire_edge, d.block.id) and not fn.block_dominates(other, d.block.id) and fire_edge != other:
                        good = True
            ok = ok and good
        rep.require(rid, ok, tests[0].loc, fn.name, "delivery-before-target",
                    "_dispatch_timers_run delivers (or re-arms) a timer on a path not dominated by the 'target <= now' edge of the due test: a timer could fire "
                    "before its start time", sample={"due_tests": len(tests), "deliveries": len(deliver)})
        # the clock used for `now` is the clock of the timer index being run
        for c in nowc:
            a = fn.inst(c.ops[0])
            okc = a is not None   # DISPATCH_TIMER_CLOCK(tidx) is computed from the tidx argument
            r = roots_of(fn, c.ops[0])
            def from_arg(op, d=0):
                if op[0] == "a":
                    return op[1] == 1
                i = fn.inst(op)
                if i is None or d > 6:
                    return False
                return any(from_arg(o, d + 1) for o in (i.ops if i.op != "phi" else [v for v, _ in i.ops]) if o[0] in ("i", "a"))
            rep.require(rid, from_arg(c.ops[0]), c.loc, fn.name, "now-on-wrong-clock",
                        "_dispatch_timers_run reads `now` from a clock that is not derived from the timer index being run", sample={"now": c.callee})
    # compute_missed guard everywhere
    n = 0
    for f2 in prog.all_functions():
        for c in f2.calls("_dispatch_timer_unote_compute_missed"):
            n += 1
            rep.saw(f2)
            now = roots_of(f2, c.ops[1])
            good = False
            for t in f2.all_insts():
                if t.op != "icmp" or t.d["pred"] not in ("uge", "ugt", "ult", "ule"):
                    continue
                a, b = roots_of(f2, t.ops[0]), roots_of(f2, t.ops[1])
                la, lb = f2.inst(t.ops[0]), f2.inst(t.ops[1])
                a_is_now, b_is_now = bool(a & now), bool(b & now)
                a_tgt = la is not None and la.op == "load" and "target" in prog.fields(la)
                b_tgt = lb is not None and lb.op == "load" and "target" in prog.fields(lb)
                if not ((a_is_now and b_tgt) or (b_is_now and a_tgt)):
                    continue
                # edge on which now >= target
                if a_is_now:
                    ge_true = t.d["pred"] in ("uge",)
                    ge_false = t.d["pred"] in ("ult",)
                else:
                    ge_true = t.d["pred"] in ("ule",)
                    ge_false = t.d["pred"] in ("ugt",)
                for br, st, sf in paths.branch_edges(f2, t):
                    edge = st if ge_true else (sf if ge_false else None)
                    other = sf if ge_true else st
                    if edge is not None and f2.block_dominates(edge, c.block.id) and not f2.block_dominates(other, c.block.id):
                        good = True
            rep.require(rid, good, c.loc, f2.name, "missed-count-without-due-check:%s" % f2.name,
                        "%s calls _dispatch_timer_unote_compute_missed(dt, now) without being dominated by now >= dt->target for that now: the unsigned "
                        "subtraction wraps, dispatch_source_get_data reports ~2^64/interval fires and the timer's phase shifts" % f2.name,
                        sample={"in": f2.name, "call": c.loc})
    if n < 2:
        rep.unknown(rid, "expected >= 2 calls of _dispatch_timer_unote_compute_missed, found %d" % n)


def rule_TB2(rep, prog):
    rid = rep.rule("C11-TB2", "clock agreement: for each dispatch clock the timerfd is created on the POSIX clock that the clock's reader passes to "
                   "clock_gettime, and it is programmed with TFD_TIMER_ABSTIME", floor=4)
    k = consts.get(["DISPATCH_CLOCK_UPTIME", "DISPATCH_CLOCK_MONOTONIC", "DISPATCH_CLOCK_WALL", "TFD_TIMER_ABSTIME"], unit="event/event_epoll", includes=("sys/timerfd.h",))
    readers = {"DISPATCH_CLOCK_UPTIME": "_dispatch_uptime", "DISPATCH_CLOCK_MONOTONIC": "_dispatch_monotonic_time", "DISPATCH_CLOCK_WALL": "_dispatch_get_nanoseconds"}
    # reader -> clockid
    rid_clock = {}
    for cname, rname in readers.items():
        f = prog.fn(rname)
        rep.saw(f)
        cg = calls_named(f, "clock_gettime")
        ids = {arg_const(f, c, 0) for c in cg}
        if len(ids) != 1 or None in ids:
            rep.unknown(rid, "%s does not call clock_gettime with one constant clock id (%s)" % (rname, ids))
            continue
        rid_clock[cname] = ids.pop()
    # _dispatch_time_now dispatches each clock to its reader
    f = prog.fn("_dispatch_time_now", required=False)
    if f is not None:
        rep.saw(f)
        sw = [i for i in f.all_insts() if i.op == "switch"]
        okd = bool(sw)
        for s_ in sw:
            for cv, tgt in s_.d["cases"]:
                names = [n for n, v in k.items() if n.startswith("DISPATCH_CLOCK") and v == cv]
                calls_in = [i.callee for i in f.blocks[tgt].insts if i.op == "call"]
                if names and readers[names[0]] not in calls_in:
                    okd = False
        rep.require(rid, okd, f.file, f.name, "time-now-dispatch", "_dispatch_time_now must read each dispatch clock through that clock's reader", sample={"switches": len(sw)})
    f = prog.fn("_dispatch_timeout_program")
    rep.saw(f)
    tc = calls_named(f, "timerfd_create")
    if not tc:
        rep.unknown(rid, "timerfd_create not found")
    def eval_case(fn, op, cv, depth=0):
        """value of op when the discriminating variable equals cv (select chains, or phi fed by a switch)"""
        if op[0] == "c":
            return op[1]
        i = fn.inst(op)
        if i is None or depth > 8:
            return None
        if i.op == "select":
            c = fn.inst(i.ops[0])
            if c is not None and c.op == "icmp" and c.d["pred"] in ("eq", "ne"):
                for a, b in ((c.ops[0], c.ops[1]), (c.ops[1], c.ops[0])):
                    if b[0] == "c":
                        t = (b[1] == cv) == (c.d["pred"] == "eq")
                        return eval_case(fn, i.ops[1] if t else i.ops[2], cv, depth + 1)
            return None
        if i.op == "phi":
            sw = [x for x in fn.all_insts() if x.op == "switch"]
            for v, frm in i.ops:
                for s_ in sw:
                    for cval, tgt in s_.d["cases"]:
                        if tgt == frm and cval == cv:
                            return eval_case(fn, v, cv, depth + 1)
            for v, frm in i.ops:
                for s_ in sw:
                    if s_.d["default"] == frm and cv not in [cval for cval, _ in s_.d["cases"]]:
                        return eval_case(fn, v, cv, depth + 1)
            return None
        if i.op in ("zext", "sext", "trunc"):
            return eval_case(fn, i.ops[0], cv, depth + 1)
        return None
    for c in tc:
        for cname, rname in readers.items():
            cv = k[cname]
            got = eval_case(f, c.ops[0], cv)
            rep.require(rid, got is not None and got == rid_clock.get(cname), c.loc, f.name, "timerfd-clock-mismatch:%s" % cname,
                        "_dispatch_timeout_program creates the timerfd of %s on POSIX clock %s but %s reads clock %s: deadlines computed on one clock are "
                        "programmed on another and fire early or late" % (cname, got, rname, rid_clock.get(cname)),
                        sample={"clock": cname, "timerfd_clockid": got, "reader_clockid": rid_clock.get(cname)})
    st = calls_named(f, "timerfd_settime")
    rep.require(rid, bool(st) and all(arg_const(f, c, 1) == k["TFD_TIMER_ABSTIME"] for c in st), st[0].loc if st else f.file, f.name, "timerfd-not-absolute",
                "timerfd_settime must be called with TFD_TIMER_ABSTIME (targets are absolute times)", sample={"calls": len(st)})


def rule_MP4(rep, prog):
    rid = rep.rule("C11-MP4", "dispatch_source_set_timer publishes the new configuration (release) and wakes with MAKE_DIRTY; applying a configuration always "
                   "clears ds_pending_data (fires accumulated under the old settings are dropped) on every path", floor=2)
    fn = prog.fn("_dispatch_timer_unote_configure")
    rep.saw(fn)
    x = [i for i in fn.all_insts() if i.op == "atomicrmw" and "dt_pending_config" in prog.fields(i)]
    clr = [i for i in fn.all_insts() if i.op == "store" and "ds_pending_data" in prog.fields(i) and i.ops[0][0] == "c" and i.ops[0][1] == 0]
    ok = bool(x) and bool(clr) and all(fn.must_pass(a, clr)[0] for a in x)
    rep.require(rid, ok, x[0].loc if x else fn.file, fn.name, "configure-keeps-pending-data",
                "_dispatch_timer_unote_configure can return without storing 0 to ds_pending_data: a count accumulated under the old timer settings survives "
                "dispatch_source_set_timer and the handler runs immediately / before the new start time", sample={"xchg": len(x), "clears": len(clr)})
    fn = prog.fn("dispatch_source_set_timer")
    rep.saw(fn)
    x = [i for i in fn.all_insts() if i.op == "atomicrmw" and "dt_pending_config" in prog.fields(i)]
    wk = icalls_slot(prog, fn, "dq_wakeup") + calls_named(fn, ("_dispatch_source_wakeup", "_dispatch_queue_wakeup"))
    MD = consts.get(["DISPATCH_WAKEUP_MAKE_DIRTY"])["DISPATCH_WAKEUP_MAKE_DIRTY"]
    ok = bool(x) and all(ord_has_release(a.d["ord"]) for a in x) and bool(wk) and all((arg_const(fn, w, 2) or 0) & MD for w in wk) and all(fn.must_pass(a, wk)[0] for a in x)
    rep.require(rid, ok, fn.file, fn.name, "set-timer-publish",
                "dispatch_source_set_timer must exchange dt_pending_config with release and then wake the source with MAKE_DIRTY on every path",
                sample={"xchg": [a.d["ord"] for a in x], "wakeups": len(wk)})


def rule_SB5(rep, prog):
    rid = rep.rule("C11-SB5", "timer heap re-sift: every key comparison indexes heap_key[] with the same heap id on both sides; the left- and right-child existence "
                   "tests both compare against the heap size itself", floor=4)
    fn = prog.fn("_dispatch_timer_heap_resift")
    rep.saw(fn)
    cnt = [i for i in fn.all_insts() if i.op == "load" and "dth_count" in prog.fields(i)]
    keycmp = []
    for i in fn.all_insts():
        if i.op == "icmp":
            a, b = fn.inst(i.ops[0]), fn.inst(i.ops[1])
            if a is not None and b is not None and a.op == "load" and b.op == "load" and "heap_key" in prog.fields(a) and "heap_key" in prog.fields(b):
                keycmp.append((i, a, b))
    if len(keycmp) < 3:
        rep.unknown(rid, "expected 3 heap key comparisons in _dispatch_timer_heap_resift, found %d" % len(keycmp))
    for i, a, b in keycmp:
        va, vb = a.d["ptr"].get("vidx"), b.d["ptr"].get("vidx")
        same = va is not None and vb is not None and [roots_of(fn, v) for v in va] == [roots_of(fn, v) for v in vb]
        rep.require(rid, same, i.loc, fn.name, "heap-key-index-mismatch",
                    "_dispatch_timer_heap_resift compares heap keys of different heaps (target vs deadline) with each other", sample={"cmp": i.loc, "pred": i.d["pred"]})
    bounds = [i for i in fn.all_insts() if i.op == "icmp" and i.d["pred"] in ("ult", "uge") and any(fn.inst(o) in cnt for o in i.ops)]
    derived = [i for i in fn.all_insts() if i.op == "icmp" and i.d["pred"] in ("ult", "uge", "ule", "ugt") and i not in bounds and
               any((roots_of(fn, o) & {("i", c.id) for c in cnt}) or (fn.inst(o) is not None and fn.inst(o).op in ("add", "sub") and any(fn.inst(x) in cnt for x in fn.inst(o).ops)) for o in i.ops)]
    rep.require(rid, len(bounds) >= 2 and not derived, bounds[0].loc if bounds else fn.file, fn.name, "child-bound-not-heap-size",
                "_dispatch_timer_heap_resift must test both children against dth_count itself (found %d direct tests, %d against a derived bound): a child "
                "that is the last heap node is otherwise ignored and an earlier timer is buried under a later one" % (len(bounds), len(derived)),
                sample={"direct_bounds": len(bounds), "derived_bounds": len(derived)})
    preds = sorted(i.d["pred"] for i, a, b in keycmp)
    rep.require(rid, preds == ["ugt", "ule", "ule"], fn.file, fn.name, "heap-compare-shape",
                "_dispatch_timer_heap_resift: expected parent<=node (stop sifting up), left>right (pick right child), node<=child (stop sifting down); found %s" % preds,
                sample={"preds": preds})


HEAP_MUT = ("_dispatch_timer_heap_insert", "_dispatch_timer_heap_update", "_dispatch_timer_heap_remove")


def rule_MP6(rep, prog):
    rid = rep.rule("C11-MP6", "always fires: every mutation of a timer heap (insert / key update / remove) is followed on every path to the function's return by "
                   "_dispatch_timers_heap_dirty on the same heap array, so the manager re-evaluates the minimum and re-programs the kernel timer", floor=3)
    n = 0
    for fn in prog.all_functions():
        if fn.name in HEAP_MUT:
            continue
        muts = [c for c in fn.all_insts() if c.op == "call" and c.callee in HEAP_MUT]
        if not muts:
            continue
        rep.saw(fn)
        dirty = calls_named(fn, "_dispatch_timers_heap_dirty")
        dstores = [i for i in fn.all_insts() if i.op == "store" and "dth_dirty_bits" in prog.fields(i)]
        for m in muts:
            n += 1
            base = root_ptr(fn, m.ops[0])
            marks = [d for d in dirty if root_ptr(fn, d.ops[0]) == base] + [d for d in dstores if root_ptr(fn, d.d["ptr"]["base"]) == base]
            ok = bool(marks) and fn.must_pass(m, marks)[0]
            rep.require(rid, ok, m.loc, fn.name, "heap-mutation-without-dirty:%s" % m.callee,
                        "%s changes a timer heap through %s but a path to its return does not mark the heaps dirty: the kernel timer stays programmed for the OLD "
                        "minimum and a timer moved earlier (or newly armed) does not fire on time" % (fn.name, m.callee), sample={"fn": fn.name, "mutation": m.callee})
    if n < 3:
        rep.unknown(rid, "fewer than 3 heap mutation sites found (%d)" % n)


def armed_tests(fn, k_armed):
    out = []
    for i in fn.all_insts():
        if i.op == "icmp" and i.d["pred"] in ("ne", "eq") and i.ops[1][0] == "c" and i.ops[1][1] == 0:
            a = fn.inst(i.ops[0])
            if a is not None and a.op == "and" and a.ops[1][0] == "c" and a.ops[1][1] == k_armed:
                src = fn.inst(a.ops[0])
                if src is not None and src.op == "call" and "unote_state" in (src.callee or ""):
                    out.append((i, src, i.d["pred"] == "ne"))
    return out


def rule_MP7(rep, prog):
    rid = rep.rule("C11-MP7", "follows only the new settings: in _dispatch_timer_unote_resume an armed timer reaches the in-place heap update only after "
                   "du_ident == new heap index was established on that path; otherwise (clock / QoS class changed) it is first removed from the OLD heap", floor=1)
    fn = prog.fn("_dispatch_timer_unote_resume")
    rep.saw(fn)
    k = consts.get(["DU_STATE_ARMED"], unit="event/event")
    arm = calls_named(fn, "_dispatch_timer_unote_arm")
    dis = calls_named(fn, "_dispatch_timer_unote_disarm")
    at = armed_tests(fn, k["DU_STATE_ARMED"])
    if len(arm) != 1 or not dis or not at:
        rep.unknown(rid, "anchor vanished in _dispatch_timer_unote_resume (arm=%d disarm=%d armed tests=%d)" % (len(arm), len(dis), len(at)))
        return
    arm = arm[0]
    tidx = arm.ops[2]
    idcmp = []
    for i in fn.all_insts():
        if i.op == "icmp" and i.d["pred"] in ("ne", "eq"):
            for a, b in ((0, 1), (1, 0)):
                l = fn.inst(i.ops[a])
                if l is not None and l.op == "load" and "du_ident" in prog.fields(l) and list(i.ops[b]) == list(tidx):
                    idcmp.append((i, i.d["pred"] == "eq"))
    entry = fn.blocks[0].insts[0]
    bad = None
    npaths = 0
    for pol in (True, False):
        ctx = paths.PathCtx(fn)
        for t, src, p in at:
            ctx.truth[t.id] = (pol == p)
        for kind, inst, cx, path in paths.walk(fn, entry, lambda i: i is arm, avoid=lambda i: i in dis, ctx=ctx):
            if kind != "hit":
                continue
            npaths += 1
            if not pol:
                continue          # not armed: inserted into the heap of the new index
            if not any(cx.truth.get(c.id) == eqpol for c, eqpol in idcmp):
                bad = path
    rep.require(rid, bad is None and npaths >= 2, arm.loc, fn.name, "armed-update-on-wrong-heap",
                "_dispatch_timer_unote_resume lets a timer that is still armed in heap du_ident reach _dispatch_timer_heap_update on the heap of the NEW index without "
                "having compared the two (path %s): the update sifts the other clock's heap with this timer's stale slot numbers and a bystander timer there is "
                "dropped, while this timer stays keyed on the old clock" % (bad,), sample={"paths": npaths, "ident_tests": len(idcmp)})


def rule_MP8(rep, prog):
    rid = rep.rule("C11-MP8", "the timer heaps are manager-owned: _dispatch_source_invoke2 unregisters a source off the manager queue only under "
                   "du_is_timer && !armed (nothing left in a heap), and _dispatch_source_wakeup routes the cancelled source to its target queue under the same test", floor=2)
    k = consts.get(["DU_STATE_ARMED", "DU_STATE_NEEDS_DELETE"], unit="event/event")
    fn = prog.fn("_dispatch_source_invoke2")
    rep.saw(fn)
    unreg = calls_named(fn, "_dispatch_source_refs_unregister")
    if not unreg:
        rep.unknown(rid, "no _dispatch_source_refs_unregister call in _dispatch_source_invoke2")
        return
    at = armed_tests(fn, k["DU_STATE_ARMED"])
    def is_dkq(op):
        if op[0] == "g":
            return op[1] == "_dispatch_mgr_q"
        i = fn.inst(op) if op[0] == "i" else None
        return i is not None and i.op == "phi" and any(o[0][0] == "g" and o[0][1] == "_dispatch_mgr_q" for o in i.ops)
    on_kq = [c for c in fn.all_insts() if c.op == "icmp" and c.d["pred"] in ("eq", "ne") and (is_dkq(c.ops[0]) or is_dkq(c.ops[1]))]
    if not on_kq:
        rep.unknown(rid, "anchor vanished in _dispatch_source_invoke2 (armed tests=%d, dq==dkq tests=%d)" % (len(at), len(on_kq)))
        return
    idom, _ = fn.idom()
    for u in unreg:
        # local case analysis: assume the timer IS armed (or the source is not a timer); then every path from two dominators up must establish dq == dkq
        dc = paths.dom_ctx(fn, u)
        disarmed_here = False
        for cid, tv in dc.truth.items():
            c = fn.insts[cid]
            if c.op == "icmp" and c.d["pred"] in ("eq", "ne") and tv == (c.d["pred"] == "ne") and c.ops[1][0] == "c" and c.ops[1][1] == 0:
                a = fn.inst(c.ops[0])
                if a is not None and a.op == "and" and a.ops[1][0] == "c" and a.ops[1][1] == k["DU_STATE_NEEDS_DELETE"]:
                    src = fn.inst(a.ops[0])
                    if src is not None and src.op == "call" and "unote_state" in (src.callee or ""):
                        disarmed_here = True
        if disarmed_here:
            # deferred-delete acknowledgement: NEEDS_DELETE is a state of fd/signal unotes whose kernel event was one-shot; no timer function sets it
            setters = [c.fn.name for f2 in prog.all_functions() for c in f2.all_insts() if c.op == "call" and "unote_state_set" in (c.callee or "")
                       and len(c.ops) > 1 and c.ops[1][0] == "c" and (c.ops[1][1] & k["DU_STATE_NEEDS_DELETE"]) and "timer" in f2.name]
            rep.require(rid, not setters, u.loc, fn.name, "needs-delete-on-timer",
                        "the deferred-delete unregistration in _dispatch_source_invoke2 runs on any queue; that is only safe while no timer code sets NEEDS_DELETE (%s does)" % setters,
                        sample={"site": u.loc, "dominated_by": "NEEDS_DELETE test; no timer function sets that bit"})
            continue
        sb = u.block.id
        for _ in range(2):
            sb = idom.get(sb, sb)
        start = fn.blocks[sb].insts[0]
        ctx = paths.dom_ctx(fn, start)
        for t, src, pol in at:
            ctx.truth[t.id] = pol
        bad = None
        np_ = 0
        for kind, inst, c2, path in paths.walk(fn, start, lambda i: i is u, ctx=ctx):
            if kind != "hit":
                continue
            np_ += 1
            if not any(c2.truth.get(c.id) == (c.d["pred"] == "eq") for c in on_kq):
                bad = path
        rep.require(rid, bad is None and np_ >= 1, u.loc, fn.name, "unregister-armed-timer-off-manager",
                    "_dispatch_source_invoke2 can reach the unregistration (path %s) on a queue other than the manager's while the timer is still armed: the worker "
                    "thread removes it from the unlocked timer heap concurrently with the manager thread arming / firing other timers on the same clock" % (bad,),
                    sample={"armed_tests": len(at), "paths": np_})
    fn = prog.fn("_dispatch_source_wakeup")
    rep.saw(fn)
    at = armed_tests(fn, k["DU_STATE_ARMED"])
    rep.require(rid, bool(at), fn.blocks[0].insts[0].loc, fn.name, "wakeup-no-armed-test",
                "_dispatch_source_wakeup no longer tests the armed state before sending a cancelled timer to its target queue for unregistration",
                sample={"armed_tests": len(at)})


def rule_MP9(rep, prog):
    rid = rep.rule("C11-MP9", "follows only the new settings: once _dispatch_timers_run has applied a pending configuration to the timer it was looking at, it does "
                   "not deliver for that timer before it has re-evaluated the due test against the NEW target", floor=1)
    fn = prog.fn("_dispatch_timers_run")
    rep.saw(fn)
    nowc = calls_named(fn, ("_dispatch_time_now_cached", "_dispatch_time_now"))
    tl = [i for i in fn.all_insts() if i.op == "load" and "target" in prog.fields(i)]
    tests = [i for i in fn.all_insts() if i.op == "icmp" and i.d["pred"] in ("ugt", "ule", "ult", "uge") and
             any(fn.inst(o) in tl for o in i.ops) and any(fn.inst(o) in nowc for o in i.ops)]
    conf = calls_named(fn, "_dispatch_timer_unote_configure")
    deliver = icalls_slot(prog, fn, "dst_merge_evt") + calls_named(fn, ("_dispatch_timer_unote_compute_missed",))
    if not tests or not conf or not deliver:
        rep.unknown(rid, "anchor vanished in _dispatch_timers_run (due tests=%d configure=%d deliveries=%d)" % (len(tests), len(conf), len(deliver)))
        return
    for c in conf:
        bad = [d for d in deliver if fn.inst_reaches(c, d, avoid_insts=tests)]
        rep.require(rid, not bad, c.loc, fn.name, "delivery-after-reconfigure-without-due-test",
                    "_dispatch_timers_run applies a pending dispatch_source_set_timer configuration and goes on to deliver (%s) without re-checking target <= now: "
                    "the handler runs before the new start time with a missed-count computed from now < target (a wrapped, enormous count)"
                    % (bad[0].loc if bad else ""), sample={"configure": c.loc})


def rule_OD12(rep, prog):
    rid = rep.rule("C11-OD12", "a pending dispatch_source_set_timer configuration is applied BEFORE anything merged under the old settings is delivered: in "
                   "_dispatch_source_invoke2 no path on which the source was found to need configuration (and not cancelled) reaches the event-handler delivery "
                   "without passing _dispatch_timer_unote_configure (which discards the stale pending data) - it returns to the manager queue instead", floor=1)
    fn = prog.fn("_dispatch_source_invoke2")
    rep.saw(fn)
    ncs = calls_named(fn, "_dispatch_source_refs_needs_configuration")
    if not ncs:
        ncs = [t for t in fn.all_insts() if t.op == "icmp" and t.d["pred"] == "ne" and t.ops[1][0] == "n" and fn.inst(t.ops[0]) is not None
               and fn.inst(t.ops[0]).op == "load" and "dt_pending_config" in prog.fields(fn.inst(t.ops[0]))]
    conf = calls_named(fn, "_dispatch_timer_unote_configure")
    deliver = calls_named(fn, "_dispatch_source_latch_and_call")
    k = consts.get(["DSF_CANCELED"], unit="source")
    if not ncs or not conf or not deliver:
        rep.unknown(rid, "anchor vanished in _dispatch_source_invoke2 (needs-configuration tests=%d, configure calls=%d, deliveries=%d)" % (len(ncs), len(conf), len(deliver)))
        return
    def cancel_tests():
        out = []
        for t in fn.all_insts():
            if t.op == "icmp" and t.d["pred"] in ("eq", "ne") and t.ops[1][0] == "c" and t.ops[1][1] == 0:
                a = fn.inst(t.ops[0])
                if a is not None and a.op == "and" and a.ops[1][0] == "c" and (a.ops[1][1] & k["DSF_CANCELED"]):
                    out.append(t)
        return out
    cts = cancel_tests()
    for nc in ncs:
        ctx = paths.PathCtx(fn)
        ctx.truth[nc.id] = True
        bad = []
        for kind, inst, cx, path in paths.walk(fn, nc, lambda i: i in deliver, avoid=lambda i: i in conf, ctx=ctx):
            if kind != "hit":
                continue
            # the first cancellation test after the needs-configuration test decides whether the configuration may be skipped
            first = None
            for b in path:
                for i in fn.blocks[b].insts:
                    if i in cts and first is None and (b != nc.block.id or fn.blocks[b].insts.index(i) > fn.blocks[b].insts.index(nc)):
                        first = i
            cancelled = first is not None and cx.truth.get(first.id) == (first.d["pred"] == "ne")
            if not cancelled:
                bad.append(path)
        rep.require(rid, not bad, nc.loc, fn.name, "delivery-before-pending-configuration",
                    "_dispatch_source_invoke2 can deliver the event handler on a path where a pending timer configuration was seen (source not cancelled) and not yet "
                    "applied (path %s): a fire merged under the OLD settings - already queued behind a busy target queue when dispatch_source_set_timer was called - "
                    "runs the handler before the new start time" % (bad[0] if bad else None), sample={"test": nc.loc})


def rule_TB13(rep, prog):
    rid = rep.rule("C11-TB13", "_dispatch_timer_unote_configure REPLACES the clock of the timer: after it the clock field of du_timer_flags equals the configured "
                   "clock for every (old clock, new clock) pair and the other flag bits are unchanged", floor=9)
    from dqsa import consts as _c
    k = _c.get(["_DISPATCH_TIMER_CLOCK_MASK"], unit="event/event")
    CM = k["_DISPATCH_TIMER_CLOCK_MASK"]
    sh = (CM & -CM).bit_length() - 1
    fn = prog.fn("_dispatch_timer_unote_configure")
    rep.saw(fn)
    fl = [l for l in fn.all_insts() if l.op == "load" and "du_timer_flags" in prog.fields(l)]
    cl = [l for l in fn.all_insts() if l.op == "load" and "dtc_clock" in prog.fields(l)]
    sts = [st for st in fn.all_insts() if st.op == "store" and "du_timer_flags" in prog.fields(st)]
    if not fl or not cl or not sts:
        rep.unknown(rid, "anchor vanished in _dispatch_timer_unote_configure (flag loads=%d, clock loads=%d, flag stores=%d)" % (len(fl), len(cl), len(sts)))
        return
    for oldc in (0, 1, 2):
        for newc in (0, 1, 2):
            for other in (0x1, 0x2 | 0x10):
                other &= ~CM & 0xff
                f0 = other | (oldc << sh)
                env = {l.id: f0 for l in fl}
                env.update({l.id: newc for l in cl})
                final = [f0]
                def rec(i, env=env, final=final):
                    if i in sts:
                        v = ceval(fn, i.ops[0], {k_: v_ for k_, v_ in env.items() if not isinstance(v_, tuple)})
                        final.append(v)
                        if v is not None:
                            for l in fl:
                                if fn.inst_reaches(i, l):
                                    env[l.id] = v
                    return i.op == "call" and i.callee == "free"
                concrete_walk(fn, env, rec)
                v = final[-1]
                ok = v is not None and ((v & CM) >> sh) == newc and (v & ~CM & 0xff) == other
                rep.require(rid, ok, sts[0].loc, fn.name, "timer-clock-not-replaced:%d:%d" % (oldc, newc),
                            "_dispatch_timer_unote_configure leaves du_timer_flags = %s for a timer on clock %d (other bits %#x) re-set to clock %d: the clock field must "
                            "become %d and nothing else may change - with the old bits ORed in, a wall/monotonic timer re-set to an uptime start stays in its old heap, "
                            "its uptime target is compared with wall 'now' and it fires at once" % (hex(v) if v is not None else "?", oldc, other, newc, newc),
                            sample={"old_clock": oldc, "new_clock": newc})


def rule_TB14(rep, prog):
    rid = rep.rule("C11-TB14", "event-loop wiring of the kernel timers: the epoll ident a clock's timerfd is registered under (_dispatch_epoll_timeout[clock].det_ident) "
                   "is the switch case that merges THAT clock's timer event - otherwise the fired clock's 'armed' bookkeeping is never cleared, its timerfd is never "
                   "re-enabled and every later deadline on that clock is lost", floor=3)
    tbl = prog.global_("_dispatch_epoll_timeout")
    if not tbl or not tbl.get("init"):
        rep.unknown(rid, "anchor vanished: _dispatch_epoll_timeout table not found")
        return
    n = 0
    for fn in prog.all_functions():
        for c in calls_named(fn, "_dispatch_event_merge_timer"):
            if c.ops[0][0] != "c":
                continue
            clock = c.ops[0][1]
            # the switch case that leads (only) to this call's block
            idents = set()
            for sw in fn.all_insts():
                if sw.op == "switch":
                    for cv, tgt in sw.d.get("cases", []):
                        if tgt == c.block.id:
                            idents.add(cv)
            if not idents:
                continue
            n += 1
            rep.saw(fn)
            want = tbl["init"][clock][1] if clock < len(tbl["init"]) else None
            rep.require(rid, idents == {want}, c.loc, fn.name, "epoll-ident-clock-mismatch:%d" % clock,
                        "%s merges the timer event of clock %d for epoll ident(s) %s, but clock %d's timerfd is registered under ident %s: the clock whose timerfd fired is "
                        "not the one whose heap is re-evaluated / re-armed" % (fn.name, clock, sorted(idents), clock, want), sample={"clock": clock, "ident": want})
    if n < 3:
        rep.unknown(rid, "fewer than 3 timer-event cases found in the event loop (%d)" % n)


def rule_SB15(rep, prog):
    rid = rep.rule("C11-SB15", "sibling predicates agree on 'this timer still has a fire to wait for': the target-queue side (_dispatch_source_refs_needs_rearm) and "
                   "the manager side (_dispatch_timer_unote_needs_rearm) both test dt_timer.target < INT64_MAX - not the deadline, which saturates to INT64_MAX for a "
                   "large leeway although the target is finite (a one-shot timer with unbounded leeway would never be armed and never fire); an interval source's "
                   "first fire is the NEXT interval boundary after now", floor=3)
    I64MAX = (1 << 63) - 1
    n = 0
    for name in ("_dispatch_source_refs_needs_rearm", "_dispatch_timer_unote_needs_rearm"):
        fn = prog.fn(name)
        rep.saw(fn)
        ts = [t for t in fn.all_insts() if t.op == "icmp" and any(o[0] == "c" and o[1] == I64MAX for o in t.ops)]
        if not ts:
            rep.unknown(rid, "anchor vanished: %s compares nothing with INT64_MAX" % name)
            continue
        for t in ts:
            n += 1
            l = [fn.inst(o) for o in t.ops if o[0] == "i"]
            l = l[0] if l else None
            while l is not None and l.op in ("zext", "trunc", "sext", "bitcast"):
                l = fn.inst(l.ops[0])
            off = l.d["ptr"]["off"] if l is not None and l.op == "load" and l.d.get("ptr") else None
            fl = prog.fields(l) if l is not None and l.op == "load" else set()
            ok = "target" in fl and t.d["pred"] in ("ult", "slt", "ne")
            rep.require(rid, ok, t.loc, name, "needs-rearm-field:%s" % name,
                        "%s decides whether the timer still has to be armed by comparing %s (offset %s) with INT64_MAX: it must be the timer's target (the first member of "
                        "dt_timer) on both sides" % (name, sorted(fl), off), sample={"fn": name, "field": sorted(fl)})
    fn = prog.fn("_dispatch_interval_config_create")
    rep.saw(fn)
    up = calls_named(fn, "_dispatch_uptime")
    rems = [r for r in fn.all_insts() if r.op == "urem"]
    okb = False
    for r in rems:
        dv = fn.inst(r.ops[0])
        if dv is not None and dv.op == "add" and any(fn.inst(o) in up for o in dv.ops) and any(tuple(o[:2]) == tuple(r.ops[1][:2]) for o in dv.ops):
            okb = True
    n += 1
    rep.require(rid, okb and bool(up), rems[0].loc if rems else fn.file, fn.name, "interval-first-fire-not-next-boundary",
                "_dispatch_interval_config_create does not align the first fire to (now + interval) rounded down to a multiple of the interval: rounding `now` itself "
                "down yields a boundary already past - the handler runs at once, before its start time, and the accumulated fire count stays one too high",
                sample={"urem": len(rems)})
    if n < 3:
        rep.unknown(rid, "fewer than 3 obligations found (%d)" % n)


def rule_SB16(rep, prog):
    rid = rep.rule("C11-SB16", "`now` start times: dispatch_source_set_timer resolves a start of `now` on ANY clock to a reading of that clock - the test that triggers the "
                   "clock reading is made on the value DECODED by _dispatch_time_to_clock_and_value (0 on every clock), not on the raw dispatch_time_t (whose `now` "
                   "encodings differ per clock)", floor=2)
    fn = prog.fn("_dispatch_timer_config_create")
    rep.saw(fn)
    dec = calls_named(fn, "_dispatch_time_to_clock_and_value")
    if not dec:
        rep.unknown(rid, "_dispatch_timer_config_create: decoding of the start time not found")
        return
    vslot = root_ptr(fn, dec[0].ops[2])
    reads = [c for c in fn.all_insts() if c.op == "call" and c.callee in ("_dispatch_uptime", "_dispatch_monotonic_time", "_dispatch_get_nanoseconds", "_dispatch_time_now")]
    if len(reads) < 2:
        rep.unknown(rid, "_dispatch_timer_config_create: fewer than 2 clock readings for a `now` start found (%d)" % len(reads))
        return
    for c in reads:
        dx = paths.dom_ctx(fn, c)
        ok = False
        raw = None
        for iid, tv in dx.truth.items():
            t = fn.insts[iid]
            if t.op != "icmp" or t.d["pred"] not in ("eq", "ne") or tv != (t.d["pred"] == "eq"):
                continue
            for a, b in ((t.ops[0], t.ops[1]), (t.ops[1], t.ops[0])):
                if b[0] == "c" and b[1] == 0:
                    l = fn.inst(a)
                    if l is not None and l.op == "load" and root_ptr(fn, l.d["ptr"]["base"]) == vslot and fn.inst_reaches(dec[0], l):
                        ok = True
                    elif tuple(a[:2]) == ("a", 0):
                        raw = t
        rep.require(rid, ok, c.loc, fn.name, "now-test-not-on-decoded-value:%s" % c.callee,
                    "_dispatch_timer_config_create reads the clock (%s) for a `now` start without having tested the DECODED start value against 0%s: "
                    "DISPATCH_MONOTONICTIME_NOW / DISPATCH_WALLTIME_NOW decode to 0 on their clocks but are not 0 as raw values, so such a timer is configured with "
                    "target 0 (boot / the epoch) - its first fire reports every interval since then and the schedule is aligned to the wrong origin"
                    % (c.callee, " (the raw start argument is tested instead)" if raw is not None else ""), sample={"read": c.loc})


def rule_AI17(rep, prog):
    from .C13 import linform
    rid = rep.rule("C11-AI17", "fire counts are accumulated once: _dispatch_timer_unote_compute_missed(dt, now, prev) returns prev + the missed intervals, and no caller adds "
                   "the count it passed in (or anything else) to that result again", floor=3)
    cm = prog.fn("_dispatch_timer_unote_compute_missed")
    rep.saw(cm)
    rets = [i for i in cm.all_insts() if i.op == "ret" and i.ops]
    def leaves(v, depth=0):
        i = cm.inst(v)
        if i is not None and i.op == "phi" and depth < 4:
            return [x for w, frm in i.ops for x in leaves(w, depth + 1)]
        return [v]
    ok = bool(rets) and all(linform(cm, v).get(("a", 2)) == 1 for r in rets for v in leaves(r.ops[0]))
    rep.require(rid, ok, (rets[0].loc if rets else "?"), cm.name, "compute-missed-drops-prev",
                "_dispatch_timer_unote_compute_missed does not return prev + missed: fires counted before the timer was disarmed are lost (or counted twice)")
    n = 0
    for fn in prog.all_functions():
        for c in calls_named(fn, cm.name):
            n += 1
            rep.saw(fn)
            bad = None
            for u in fn.all_insts():
                if c.ops[2][0] == "c" and c.ops[2][1] == 0:
                    break  # nothing was passed in: the caller may do its own accumulation
                if u.op not in ("add", "sub"):
                    continue
                lf = linform(fn, u if False else ("i", u.id))
                if lf.get(("i", c.id)) and any(k_ != ("i", c.id) and k_ != 1 and v for k_, v in lf.items()):
                    bad = u
            rep.require(rid, bad is None, (bad.loc if bad is not None else c.loc), fn.name, "missed-count-added-again:%s" % fn.name,
                        "%s adds another count to the result of _dispatch_timer_unote_compute_missed, which already contains the count passed to it: fires that the "
                        "manager recorded before disarming the timer are reported twice - the handler sees more fires than interval boundaries have passed" % fn.name,
                        sample={"call": c.loc})
    if n < 2:
        rep.unknown(rid, "fewer than 2 callers of _dispatch_timer_unote_compute_missed found (%d)" % n)


def rule_MP18(rep, prog):
    rid = rep.rule("C11-MP18", "a new timer configuration is applied to the heaps by the manager thread only, except for a timer that is out of the heaps: in source.c every "
                   "_dispatch_timer_unote_configure is reached either after establishing that the current queue is the kernel-event (manager) queue, or under the "
                   "DISARMED marker of the value just latched (the manager took the timer out of the heap and handed it over) - otherwise the heap is updated off "
                   "the manager, nobody re-programs the kernel timer and the new, earlier deadline only takes effect when the OLD one fires", floor=2)
    k = consts.get(["DISPATCH_TIMER_DISARMED_MARKER"], unit="event/event")
    DM = k["DISPATCH_TIMER_DISARMED_MARKER"]
    n = 0
    for fn in prog.all_functions():
        if fn.file is None or not str(fn.file).endswith("source.c"):
            continue
        for c in calls_named(fn, "_dispatch_timer_unote_configure"):
            n += 1
            rep.saw(fn)
            def is_mgr(op):
                if op[0] == "g":
                    return op[1] == "_dispatch_mgr_q"
                i = fn.inst(op) if op[0] == "i" else None
                return i is not None and i.op == "phi" and any(o[0][0] == "g" and o[0][1] == "_dispatch_mgr_q" for o in i.ops)
            ok = False
            for iid, tv in paths.dom_ctx(fn, c).truth.items():
                t = fn.insts[iid]
                if t.op != "icmp" or t.d["pred"] not in ("eq", "ne"):
                    continue
                if (is_mgr(t.ops[0]) or is_mgr(t.ops[1])) and tv == (t.d["pred"] == "eq"):
                    ok = True
                if t.ops[1][0] == "c" and t.ops[1][1] == 0 and tv == (t.d["pred"] == "ne"):
                    a = fn.inst(t.ops[0])
                    if a is not None and a.op == "and" and a.ops[1][0] == "c" and a.ops[1][1] == DM:
                        src = fn.inst(a.ops[0])
                        seen_ = 0
                        while src is not None and src.op in ("zext", "trunc", "phi", "call") and seen_ < 6:
                            seen_ += 1
                            if src.op == "phi":
                                nxt = [fn.inst(v) for v, frm in src.ops if fn.inst(v) is not None]
                                src = nxt[0] if nxt else None
                            elif src.op == "call":
                                # _dispatch_source_timer_data(dr, prev) / helpers that return a value derived from the latched word: follow the argument
                                nxt = [fn.inst(o) for o in src.ops if fn.inst(o) is not None and fn.inst(o).op in ("atomicrmw", "load", "phi", "trunc", "zext")]
                                src = nxt[-1] if nxt else None
                            else:
                                src = fn.inst(src.ops[0])
                        if src is not None and src.op in ("atomicrmw", "load", "cmpxchg") and "ds_pending_data" in prog.fields(src):
                            ok = True
            rep.require(rid, ok, c.loc, fn.name, "timer-configured-off-manager:%s" % fn.name,
                        "%s applies a pending dispatch_source_set_timer configuration without being on the manager queue and without the DISARMED marker in the value "
                        "it latched: the timer may still be armed in the heap, the heap is modified concurrently with the manager thread, and since the pending "
                        "configuration has been consumed nothing sends the source to the manager to re-program the kernel timer - a timer re-armed from its own handler "
                        "with an earlier start keeps firing on the old schedule" % fn.name, sample={"site": c.loc, "fn": fn.name})
    if n < 2:
        rep.unknown(rid, "fewer than 2 calls of _dispatch_timer_unote_configure found in source.c (%d)" % n)


def rule_TB19(rep, prog, srcdir):
    rid = rep.rule("C11-TB19", "one kernel timer per timer heap: the number of heaps the generic timer code keeps (DISPATCH_TIMER_COUNT = QoS buckets x clocks, from "
                   "event_config.h) equals the number of kernel timers the event backend owns (the epoll backend's timerfd table, one per clock) - with more heaps "
                   "than kernel timers the heaps of one clock overwrite each other's deadline and a fired timer re-programs only one of them", floor=1)
    k = consts.get(["DISPATCH_TIMER_COUNT", "DISPATCH_CLOCK_COUNT", "DISPATCH_TIMER_QOS_COUNT"], srcdir=srcdir, unit="event/event")
    g = prog.global_("_dispatch_epoll_timeout")
    if g is None or not g.get("len"):
        rep.unknown(rid, "the epoll backend's kernel timer table (_dispatch_epoll_timeout) was not found")
        return
    rep.require(rid, g["len"] == k["DISPATCH_TIMER_COUNT"], "src/event/event_config.h", "_dispatch_epoll_timeout", "more-timer-heaps-than-kernel-timers",
                "the timer code keeps %d heaps (%d QoS bucket(s) x %d clocks) but the epoll backend has %d kernel timers: timers of the same clock in different "
                "buckets share one timerfd - the later-programmed bucket overwrites the earlier deadline (a timer fires late) and emptying one bucket deletes the "
                "timerfd the others still wait on (a timer never fires)" % (k["DISPATCH_TIMER_COUNT"], k["DISPATCH_TIMER_QOS_COUNT"], k["DISPATCH_CLOCK_COUNT"], g["len"]),
                sample={"heaps": k["DISPATCH_TIMER_COUNT"], "kernel_timers": g["len"]})


def rule_MP20(rep, prog):
    rid = rep.rule("C11-MP20", "ds_pending_data is shared between the manager (which records fires and markers) and the target-queue thread (which latches it with an exchange): "
                   "no function updates it with a plain store of a value computed from its own earlier load of the word - a latch that lands between the load and the "
                   "store is undone and the fire count is reported twice; updates that keep what is there use an atomic read-modify-write", floor=3)
    n = 0
    def roots(fn, op, depth=0, seen=None):
        seen = seen if seen is not None else set()
        out = set()
        if op[0] != "i" or depth > 8 or op[1] in seen:
            return out
        seen.add(op[1])
        i = fn.insts[op[1]]
        if i.op in ("load", "atomicrmw", "cmpxchg"):
            out.add(i)
            return out
        if i.op in ("call", "alloca"):
            return out
        ops = [v for v, frm in i.ops] if i.op == "phi" else i.ops
        for o in ops:
            if isinstance(o, (list, tuple)) and o and isinstance(o[0], str):
                out |= roots(fn, o, depth + 1, seen)
        return out
    for fn in sorted(prog.all_functions(), key=lambda f: f.name):
        for st in fn.all_insts():
            if st.op != "store" or "ds_pending_data" not in prog.fields(st):
                continue
            n += 1
            rep.saw(fn)
            stale = [l for l in roots(fn, st.ops[0]) if l.op == "load" and "ds_pending_data" in prog.fields(l)]
            rep.require(rid, not stale, st.loc, fn.name, "pending-data-load-then-store:%s" % fn.name,
                        "%s writes ds_pending_data with a value derived from its own earlier load of the word (at %s): the handler side's exchange can land in between, "
                        "and the store then puts the already latched count back - the timer's fires are reported twice" % (fn.name, stale[0].loc if stale else ""),
                        sample={"store": st.loc})
    if n < 3:
        rep.unknown(rid, "fewer than 3 plain stores to ds_pending_data found (%d)" % n)


def rule_TB10(rep, prog):
    rid = rep.rule("C11-TB10", "the kernel timer's bookkeeping mirrors the epoll operation just performed: after epoll_ctl(op) on a timerfd both det_registered and "
                   "det_armed are set, unconditionally, to (op != EPOLL_CTL_DEL); the next arm then chooses ADD / MOD correctly", floor=2)
    k = consts.get(["EPOLL_CTL_ADD", "EPOLL_CTL_DEL", "EPOLL_CTL_MOD"], unit="event/event_epoll", includes=("sys/epoll.h",))
    fn = prog.fn("_dispatch_timeout_program")
    rep.saw(fn)
    ctl = calls_named(fn, "epoll_ctl")
    if len(ctl) != 1:
        rep.unknown(rid, "expected one epoll_ctl in _dispatch_timeout_program, found %d" % len(ctl))
        return
    c = ctl[0]
    opi = fn.inst(c.ops[1])
    for field in ("det_registered", "det_armed"):
        sts = [st for st in fn.all_insts() if st.op == "store" and field in prog.fields(st) and fn.inst_reaches(c, st)]
        ok = bool(sts) and fn.must_pass(c, sts)[0] and opi is not None
        vals = {}
        if ok:
            for nm in ("EPOLL_CTL_ADD", "EPOLL_CTL_MOD", "EPOLL_CTL_DEL"):
                got = {ceval(fn, st.ops[0], {opi.id: k[nm]}) for st in sts}
                vals[nm] = sorted(got, key=str)
                if got != {int(nm != "EPOLL_CTL_DEL")}:
                    ok = False
        rep.require(rid, ok, c.loc, fn.name, "timerfd-bookkeeping:%s" % field,
                    "_dispatch_timeout_program does not set %s to (op != EPOLL_CTL_DEL) on every path after epoll_ctl (values per op: %s): after the timerfd was "
                    "removed from the epoll set (its clock's heap became empty) the next arm issues MOD on an fd that is not in the set, the error is only logged "
                    "and no timer on that clock ever fires again" % (field, vals), sample={"field": field, "values": str(vals)})


def rule_MP11(rep, prog):
    rid = rep.rule("C11-MP11", "always fires: when programming finds the heap's earliest timer already due (delay == 0) it marks the heaps dirty so that the drain "
                   "loop runs the timers again instead of leaving the kernel timer deleted", floor=1)
    fn = prog.fn("_dispatch_timers_program")
    rep.saw(fn)
    # the delay is the value handed to the kernel-timer arm (its 3rd argument); it comes from _dispatch_timers_get_delay or is computed in place
    arm = calls_named(fn, "_dispatch_event_loop_timer_arm")
    gd = arm
    dirty = calls_named(fn, "_dispatch_timers_heap_dirty") + [i for i in fn.all_insts() if i.op == "store" and "dth_dirty_bits" in prog.fields(i)]
    delays = {tuple(a_.ops[2][:2]) for a_ in arm if len(a_.ops) > 2}
    zero = [i for i in fn.all_insts() if i.op == "icmp" and i.d["pred"] in ("eq", "ne") and i.ops[1][0] == "c" and i.ops[1][1] == 0 and tuple(i.ops[0][:2]) in delays]
    if not arm or not zero:
        rep.unknown(rid, "anchor vanished in _dispatch_timers_program (timer arm calls=%d, delay==0 tests=%d)" % (len(arm), len(zero)))
        return
    bad = None
    n_due = 0
    for kind, inst, cx, path in paths.walk(fn, entry_point(fn), lambda i: False, avoid=lambda i: i in dirty):
        if kind == "exit" and any(cx.truth.get(z.id) == (z.d["pred"] == "eq") for z in zero):
            bad = path
    rep.require(rid, bad is None and bool(dirty), zero[0].loc, fn.name, "due-timer-found-while-programming-not-redriven",
                "_dispatch_timers_program returns on a path (%s) where the earliest timer was found already due (delay == 0) without marking the heaps dirty: the "
                "kernel timer is deleted, dth_needs_program is cleared and the due timer stays in the heap until unrelated timer activity happens" % (bad,),
                sample={"dirty_marks": len(dirty)})


def run(rep, tier="quick", srcdir=None, only=None):
    prog, units = load(UNITS, tier, srcdir)
    rep.units = units
    want = lambda r: only is None or r in only
    if want("C11-MP1"):
        rule_MP1(rep, prog)
    if want("C11-TB2"):
        rule_TB2(rep, prog)
    if want("C11-MP4"):
        rule_MP4(rep, prog)
    if want("C11-SB5"):
        rule_SB5(rep, prog)
    if want("C11-MP6"):
        rule_MP6(rep, prog)
    if want("C11-MP7"):
        rule_MP7(rep, prog)
    if want("C11-MP8"):
        rule_MP8(rep, prog)
    if want("C11-MP9"):
        rule_MP9(rep, prog)
    if want("C11-TB10"):
        rule_TB10(rep, prog)
    if want("C11-MP11"):
        rule_MP11(rep, prog)
    if want("C11-OD12"):
        rule_OD12(rep, prog)
    if want("C11-TB13"):
        rule_TB13(rep, prog)
    if want("C11-TB14"):
        rule_TB14(rep, prog)
    if want("C11-SB15"):
        rule_SB15(rep, prog)
    if want("C11-SB16"):
        rule_SB16(rep, prog)
    if want("C11-AI17"):
        rule_AI17(rep, prog)
    if want("C11-MP18"):
        rule_MP18(rep, prog)
    if want("C11-TB19"):
        rule_TB19(rep, prog, srcdir)
    if want("C11-MP20"):
        rule_MP20(rep, prog)
    if want("C12-P6"):
        # dispatch_after takes its `deadline already passed, submit now` shortcut from _dispatch_timeout: the remaining time must be computed on the clock of
        # the deadline, or a monotonic-clock deadline is compared with the wall clock and the block runs at once (shared with C12)
        from . import C12
        from dqsa import build as _b, ir as _ir
        C12.run_timeout(rep, _ir.Program(_b.facts_for(C12.UNITS, mode="all", srcdir=srcdir)))


MANIFEST = {
    "technique": "dominance / control-dependence rules with value identity, switch-table agreement across units, must-pass rules (LLVM IR) + concrete evaluation of the timer clock re-configuration over every (old clock, new clock) pair + linear-form rule on the missed-count accumulation, decoded-value test rule for `now` starts",
    "level": "necessary conditions only: due-test dominance of every delivery (never early), guarded missed-count arithmetic, per-clock agreement between the "
             "kernel timer and the clock reader, unconditional discard of stale pending data on reconfiguration, and local comparison discipline of the heap "
             "re-sift; 'every armed timer eventually fires for every heap population' needs an inductive heap invariant and is NOT decided",
    "note": "kernel timerfd accuracy trusted; the double-heap invariant over all insert/remove/update sequences is the declared residue",
}
