"""C17 - objects live while referenced or busy and are finalised exactly once.

Decided (the named reference pairings only): the +2 a queue takes when it becomes non-empty / suspended / re-driven is taken before
the hand-off and consumed exactly when promised (CONSUME_2 only under the condition that entitles to it); group enter/leave
retain/release pairing is keyed on the count field; the release chain (xref -> ref -> dispose -> finalizer on the target queue with
the context read before dispose); data sub-object ownership (shared with C13).
NOT decided: absence of use-after-free in general (whole-program ownership)."""
from dqsa import paths, trans
from .common import *
from .sync_common import entry_point
from .C03 import root_ptr
from . import C13

UNITS = ["object", "queue", "semaphore", "event/event", "event/event_epoll", "init", "data", "source"]


def strip_casts(fn, op):
    i = fn.inst(op)
    while i is not None and i.op in ("zext", "sext", "trunc", "bitcast"):
        op = i.ops[0]
        i = fn.inst(op)
    return op


def value_cases(fn, cx, op, depth=0):
    """[(constant, [(cond inst, truth), ...])] for an operand that is a constant or a select/phi tree of constants"""
    r = cx.resolve(op)
    if r[0] == "c":
        return [(r[1], [])]
    i = fn.inst(r)
    if i is None or depth > 4:
        return [(None, [])]
    if i.op == "select":
        c = fn.inst(i.ops[0])
        out = []
        for val, conds in value_cases(fn, cx, i.ops[1], depth + 1):
            out.append((val, conds + [(c, True)]))
        for val, conds in value_cases(fn, cx, i.ops[2], depth + 1):
            out.append((val, conds + [(c, False)]))
        return out
    if i.op in ("or",) and i.ops[1][0] == "c":
        return [((v | i.ops[1][1]) if v is not None else None, cs) for v, cs in value_cases(fn, cx, i.ops[0], depth + 1)]
    return [(None, [])]


def rule_OD1(rep, prog, q):
    rid = rep.rule("C17-OD1", "a push that makes a queue non-empty (or needs an override) takes +2 on the queue before the item is linked, and the wakeup it "
                   "issues carries CONSUME_2 exactly on those paths", floor=2)
    for name in ("_dispatch_lane_push", "_dispatch_workloop_push"):
        fn = prog.fn(name)
        rep.saw(fn)
        wk = icalls_slot(prog, fn, "dq_wakeup") + calls_named(fn, ("_dispatch_workloop_wakeup", "_dispatch_lane_wakeup", "_dispatch_queue_wakeup"))
        ret = calls_named(fn, ("_dispatch_retain_2_unsafe", "_dispatch_retain_2", "_dispatch_retain_n_unsafe"))
        if not wk or not ret:
            rep.unknown(rid, "anchor vanished in %s (wakeups=%d retains=%d)" % (name, len(wk), len(ret)))
            continue
        res = paths.walk(fn, entry_point(fn), lambda i: i in wk, bound=100000)
        ok = True
        n = 0
        for kind, inst, cx, path in res:
            if kind != "hit":
                continue
            n += 1
            fl = arg_const(fn, inst, 2, cx)
            insts = [i for b in path for i in fn.blocks[b].insts]
            retained = any(r in insts for r in ret)
            if fl is None or bool(fl & q.CONSUME_2) != retained:
                ok = False
        rep.require(rid, ok and n > 0, wk[0].loc, name, "consume2-without-retain2:%s" % name,
                    "%s issues a wakeup whose CONSUME_2 flag does not match whether +2 was taken on that path: the queue is over-released (freed while items are "
                    "pending) or leaked" % name, sample={"fn": name, "wakeup_paths": n})
        links = [s for s in fn.all_insts() if s.op == "store" and (prog.fields(s) & frozenset(["do_next", "dq_items_head", "dwl_heads"])) and s.ops[0][0] not in ("c", "n")]
        okl = all(not (fn.inst_reaches(l, r) and not fn.inst_reaches(r, l)) for l in links for r in ret)
        rep.require(rid, okl and bool(links), fn.file, name, "retain-after-link:%s" % name,
                    "%s must take the +2 before linking the item (a drainer can run and release the queue as soon as the item is visible)" % name,
                    sample={"links": len(links)})


def rule_MP2(rep, prog, q):
    rid = rep.rule("C17-MP2", "suspend takes +2 exactly when the queue was not suspended before; a resume-like step consumes the +2 (CONSUME_2 / release_2) only "
                   "when its own state transition left the queue unsuspended; group enter retains on the 0->1 transition of the COUNT field and the last leave "
                   "releases", floor=4)
    fn = prog.fn("_dispatch_lane_suspend")
    rep.saw(fn)
    ret = calls_named(fn, ("_dispatch_retain_2",))
    ok = bool(ret)
    for r in ret:
        cx = paths.dom_ctx(fn, r)
        good = False
        for iid, tv in cx.truth.items():
            ii = fn.insts[iid]
            if ii.op == "icmp" and ii.d["pred"] in ("uge", "ult") and ii.ops[1][0] == "c" and ii.ops[1][1] == q.NEEDS_ACTIVATION and tv == (ii.d["pred"] == "ult"):
                good = True
        ok = ok and good
    rep.require(rid, ok, fn.file, fn.name, "suspend-retain", "_dispatch_lane_suspend must retain_2 exactly when the old state was not suspended", sample={"retains": len(ret)})
    # the in-place barrier completion: CONSUME_2 only if the state after ITS resume is not suspended
    # (found by what it does - it drops a suspend count from dq_state with an atomic subtract and then wakes the queue - so that merging the single-caller
    # helper _dispatch_barrier_trysync_or_async_f_complete into its caller does not lose it)
    cands = [f for f in prog.all_functions()
             if any(i.op == "atomicrmw" and i.d["rmw"] == "sub" and (prog.fields(i) & DQ_STATE) and i.ops[-1][0] == "c" and i.ops[-1][1] == q.SUSPEND_INTERVAL
                    for i in f.all_insts()) and icalls_slot(prog, f, "dq_wakeup")]
    fn = cands[0] if cands else prog.fn("_dispatch_barrier_trysync_or_async_f_complete")
    rep.saw(fn)
    sub = [i for i in fn.all_insts() if i.op == "atomicrmw" and i.d["rmw"] == "sub" and (prog.fields(i) & DQ_STATE)]
    wk = icalls_slot(prog, fn, "dq_wakeup")
    if not sub or not wk:
        rep.unknown(rid, "anchor vanished: the in-place barrier completion (atomic subtract of SUSPEND_INTERVAL followed by a wakeup) was not found")
    else:
        res = paths.walk(fn, sub[0], lambda i: i in wk)
        ok = True
        for kind, inst, cx, path in res:
            if kind != "hit":
                continue
            for fl, conds in value_cases(fn, cx, inst.ops[2]):
                truths = dict(cx.truth)
                for c, tv in conds:
                    if c is not None:
                        truths[c.id] = tv
                unsusp = None
                for iid, tv in truths.items():
                    ii = fn.insts[iid]
                    if ii.op == "icmp" and ii.d["pred"] in ("uge", "ult") and ii.ops[1][0] == "c" and ii.ops[1][1] == q.NEEDS_ACTIVATION:
                        x = fn.inst(ii.ops[0])
                        if x is not None and (x is sub[0] or (x.op == "sub" and fn.inst(x.ops[0]) is sub[0])):
                            unsusp = tv == (ii.d["pred"] == "ult")
                if fl is None:
                    ok = False
                elif (fl & q.CONSUME_2) and unsusp is not True:
                    ok = False
                elif not (fl & q.CONSUME_2) and unsusp is True:
                    ok = False
        rep.require(rid, ok, sub[0].loc, fn.name, "trysync-complete-consume2",
                    "_dispatch_barrier_trysync_or_async_f_complete passes CONSUME_2 although its own resume may have left the queue suspended (a dispatch_suspend "
                    "that arrived during the barrier inherits those two references; consuming them here makes the later dispatch_resume over-release the queue)",
                    sample={"paths": len(res)})
    # group enter/leave
    k = consts.get(["DISPATCH_GROUP_VALUE_MASK"], unit="semaphore")
    fn = prog.fn("dispatch_group_enter")
    rep.saw(fn)
    rmw = [i for i in fn.all_insts() if i.op == "atomicrmw" and (prog.fields(i) & frozenset(["dg_bits", "dg_state"]))]
    ret = calls_named(fn, ("_dispatch_retain", "_os_object_retain_internal", "dispatch_retain"))
    ok = bool(rmw) and bool(ret)
    for r in ret:
        cx = paths.dom_ctx(fn, r)
        good = False
        for iid, tv in cx.truth.items():
            ii = fn.insts[iid]
            if ii.op == "icmp" and ii.d["pred"] in ("eq", "ne") and ii.ops[1][0] == "c" and ii.ops[1][1] == 0 and tv == (ii.d["pred"] == "eq"):
                x = fn.inst(strip_casts(fn, ii.ops[0]))
                if x is not None and x.op == "and" and fn.inst(strip_casts(fn, x.ops[0])) in rmw and x.ops[1][0] == "c" and x.ops[1][1] == (k["DISPATCH_GROUP_VALUE_MASK"] & 0xffffffff):
                    good = True
        ok = ok and good
    rep.require(rid, ok, fn.file, fn.name, "group-enter-retain-key",
                "dispatch_group_enter must take its self-retain when the old COUNT field (old_bits & VALUE_MASK) is zero; keying on the whole word skips the "
                "retain while a waiter/notify flag is set and the last leave then disposes a group that is still in use", sample={"retains": len(ret)})
    fn = prog.fn("_dispatch_group_wake")
    rep.saw(fn)
    rel = calls_named(fn, ("_dispatch_release_n", "_dispatch_release", "_dispatch_release_2"))
    rep.require(rid, bool(rel), fn.file, fn.name, "group-wake-release", "_dispatch_group_wake must drop the references taken by enter / notify", sample={"releases": len(rel)})


def rule_MP3(rep, prog):
    rid = rep.rule("C17-MP3", "release chain: dropping the last external reference disposes the xref side, dropping the last internal one calls dispose; "
                   "_dispatch_dispose reads target queue, finalizer and context BEFORE dx_dispose, submits the finalizer exactly once to the target queue "
                   "and then releases the target", floor=4)
    fn = prog.fn("_os_object_release")
    rep.saw(fn)
    xd = calls_named(fn, "_os_object_xref_dispose")
    sub = [i for i in fn.all_insts() if i.op == "atomicrmw" and "os_obj_xref_cnt" in prog.fields(i)]
    rep.require(rid, bool(xd) and bool(sub) and any(t.term.op == "unreachable" for t in fn.blocks), fn.file, fn.name, "xref-release-shape",
                "_os_object_release must decrement os_obj_xref_cnt, dispose at -1 and crash on over-release", sample={"dispose_calls": len(xd)})
    n = 0
    for f2 in prog.all_functions():
        for i in f2.all_insts():
            if i.op == "atomicrmw" and i.d["rmw"] == "sub" and "os_obj_ref_cnt" in prog.fields(i) and i.origin == "_os_object_release_internal_n_inline":
                n += 1
                disp = calls_named(f2, "_os_object_dispose")
                if not disp:
                    rep.violation(rid, i.loc, f2.name, "internal-release-no-dispose:%s" % f2.name, "%s drops internal references but never disposes" % f2.name)
    if n == 0:
        rep.unknown(rid, "no expansion of _os_object_release_internal_n_inline found")
    else:
        rep.ok(rid, "internal release", {"expansions": n})
    fn = prog.fn("_dispatch_dispose")
    rep.saw(fn)
    dd = icalls_slot(prog, fn, "do_dispose") + [c for c in fn.all_insts() if c.op == "call" and "icallee" in c.d and any("dispose" in s for s in callee_slot(prog, c))]
    fin = calls_named(fn, "dispatch_async_f")
    rel = calls_named(fn, ("_dispatch_release_tailcall", "_dispatch_release"))
    lds = [i for i in fn.all_insts() if i.op == "load" and (prog.fields(i) & frozenset(["do_ctxt", "do_targetq", "do_finalizer"])) and root_ptr(fn, i.d["ptr"]["base"]) == ("a", 0)]
    ok = len(dd) >= 1 and len(fin) == 1 and bool(rel) and bool(lds)
    late = [l for l in lds if dd and any(fn.inst_reaches(d, l) for d in dd)]
    rep.require(rid, ok and not late, fn.file, fn.name, "dispose-order",
                "_dispatch_dispose must read do_targetq / do_finalizer / do_ctxt before calling dx_dispose (afterwards only the memory is left), call the finalizer "
                "exactly once via dispatch_async_f on the target queue and then release the target (late loads: %s)" % [l.loc for l in late],
                sample={"dispose": len(dd), "finalizer_calls": len(fin), "field_loads_before": len(lds) - len(late)})
    if fin:
        f0 = fin[0]
        okq = root_ptr(fn, f0.ops[0])[0] == "i"
        rep.require(rid, okq and all(fn.inst_reaches(f0, r) or r is f0 for r in rel), f0.loc, fn.name, "finalizer-target",
                    "the finalizer must be submitted to the object's target queue before the target is released", sample={"finalizer": f0.loc})
    fn = prog.fn("_dispatch_lane_class_dispose")
    rep.saw(fn)
    rep.require(rid, any(b.term.op == "unreachable" for b in fn.blocks), fn.file, fn.name, "lane-dispose-checks",
                "_dispatch_lane_class_dispose must crash when the queue is disposed while locked / enqueued / non-empty", sample={})


# functions that own the +2 unconditionally by contract (no flags parameter decides it), one reason each
CC4_CONTRACT = {
    "_dispatch_queue_invoke_finish": "called by _dispatch_queue_class_invoke which hands over the +2 it got from the enqueue",
    "_dispatch_lane_class_barrier_complete": "callers pass CONSUME_2 whenever target != NONE (dispatch_assert in the function; _dispatch_queue_wakeup normalises flags by retaining first)",
}


def rule_CC4(rep, prog, q):
    rid = rep.rule("C17-CC4", "an enqueued queue holds +2: every call that pushes the function's own queue onto its target (dx_push(tq, dq) / "
                   "_dispatch_queue_push_queue) is reached only with CONSUME_2 known set in the caller's flags or after a retain_2 on that path", floor=3)
    n = 0
    for fn in prog.all_functions():
        pushes = []
        for c in fn.all_insts():
            if c.op != "call":
                continue
            if c.callee == "_dispatch_queue_push_queue" and len(c.ops) >= 2 and root_ptr(fn, c.ops[1]) == ("a", 0):
                pushes.append(c)
            elif "icallee" in c.d and "dq_push" in callee_slot(prog, c) and len(c.ops) >= 2 and root_ptr(fn, c.ops[1]) == ("a", 0):
                pushes.append(c)
        if not pushes or not any(k_ in (fn.params[0][1] if fn.params else "") for k_ in ("dispatch_queue_s", "dispatch_lane_s", "dispatch_workloop_s", "dispatch_source_s")):
            continue
        if fn.name in CC4_CONTRACT:
            continue
        # the wakeup-flags parameter: an i32 parameter tested against CONSUME_2
        ctests = []
        for i in fn.all_insts():
            if i.op == "icmp" and i.d["pred"] in ("ne", "eq") and i.ops[1][0] == "c" and i.ops[1][1] == 0:
                a = fn.inst(i.ops[0])
                if a is not None and a.op == "and" and a.ops[1][0] == "c" and a.ops[1][1] == q.CONSUME_2:
                    ctests.append((i, i.d["pred"] == "ne"))
        retains = calls_named(fn, ("_dispatch_retain_2", "_dispatch_retain_2_unsafe"))
        for c in pushes:
            n += 1
            rep.saw(fn)
            res = paths.walk(fn, entry_point(fn), lambda i: i is c, bound=200000)
            bad = None
            for kind, inst, cx, path in res:
                if kind != "hit":
                    continue
                consume = any(cx.truth.get(t.id) == pol for t, pol in ctests)
                insts = [i for b in path for i in fn.blocks[b].insts]
                retained = any(r in insts for r in retains)
                if not (consume or retained):
                    bad = path
            rep.require(rid, bad is None, c.loc, fn.name, "enqueue-without-plus2:%s" % fn.name,
                        "%s enqueues its queue on the target on a path where neither the caller's CONSUME_2 was established nor a retain_2 was taken: the drainer "
                        "drops +2 it never got, and the queue is finalised while the application (or a child queue) still references it (path %s)" % (fn.name, bad),
                        sample={"fn": fn.name, "push": c.loc})
    if n < 3:
        rep.unknown(rid, "fewer than 3 self-enqueue sites found (%d)" % n)


def rule_OD5(rep, prog, q):
    rid = rep.rule("C17-OD5", "consuming the caller's +2 on an object (wakeup / completion with CONSUME_2, *_release_2_tailcall) is the last use of that object AND of "
                   "pointers borrowed from its fields (e.g. its target chain) in the function", floor=6)
    n = 0
    for fn in prog.all_functions():
        for c in fn.all_insts():
            if c.op != "call":
                continue
            consuming = c.callee in ("_dispatch_release_2_tailcall", "_dispatch_release_tailcall")
            if not consuming and c.ops:
                for o in c.ops[1:]:
                    if o[0] == "c" and o[2] == 32 and (o[1] & q.CONSUME_2) and (c.callee or "").startswith(("_dispatch_lane_non_barrier_complete", "_dispatch_queue_wakeup",
                            "_dispatch_lane_wakeup", "_dispatch_lane_barrier_complete", "_dispatch_lane_class_barrier_complete", "_dispatch_workloop_wakeup")) or \
                       (o[0] == "c" and o[2] == 32 and (o[1] & q.CONSUME_2) and "icallee" in c.d and "dq_wakeup" in callee_slot(prog, c)):
                        consuming = True
            if not consuming or not c.ops:
                continue
            X = root_ptr(fn, c.ops[0])
            if X[0] not in ("i", "a"):
                continue
            n += 1
            rep.saw(fn)
            # pointers borrowed from X before the consume
            borrowed = {X}
            for l in fn.all_insts():
                if l.op == "load" and l.d.get("ty", "").endswith("*") and root_ptr(fn, l.d["ptr"]["base"]) == X and l.d["ptr"].get("off", 0) > 0 and not fn.inst_reaches(c, l):
                    borrowed.add(("i", l.id))
            # closure: phis merging a borrowed pointer (loop-carried walks of the target chain)
            grew = True
            while grew:
                grew = False
                for ph in fn.all_insts():
                    if ph.op == "phi" and ("i", ph.id) not in borrowed and any(o[0][0] in ("i", "a") and root_ptr(fn, o[0]) in borrowed for o in ph.ops):
                        borrowed.add(("i", ph.id))
                        grew = True
            bad = None
            for u in fn.all_insts():
                if u is c or not fn.inst_reaches(c, u) or fn.inst_reaches(u, c) and u.block is not c.block and fn.block_dominates(u.block.id, c.block.id):
                    continue
                if u.op in ("br", "ret", "phi", "icmp"):
                    continue
                ops = u.ops
                for o in ops:
                    r = root_ptr(fn, o) if o[0] in ("i", "a") else None
                    if r in borrowed and not (u.op == "call" and (u.callee or "").startswith("llvm.")):
                        # re-loading a field of X after the consume, or using a borrowed pointer
                        if fn.inst_reaches(c, u) and not (u.block is c.block and u.idx < c.idx):
                            bad = u
                            break
                if u.op == "load" and u.d.get("ptr") and root_ptr(fn, u.d["ptr"]["base"]) in borrowed and not (u.block is c.block and u.idx < c.idx):
                    bad = u
                if bad:
                    break
            # loops: a use that is reachable only via a back edge that also re-establishes ownership is out of scope; keep straight-line + forward uses
            rep.require(rid, bad is None, c.loc, fn.name, "use-after-consume:%s" % fn.name,
                        "%s keeps using %s (at %s) after the call at %s consumed its reference: the object - and everything it alone keeps alive, such as its "
                        "target queue chain - may already be disposed" % (fn.name, "the object or a pointer borrowed from it", bad.loc if bad else None, c.loc),
                        sample={"fn": fn.name, "consume": c.loc})
    if n < 6:
        rep.unknown(rid, "fewer than 6 consuming calls found (%d)" % n)


def rule_TM6(rep, prog):
    rid = rep.rule("C17-TM6", "timer heap ownership: (re)arming a timer takes the owner's +2 exactly when it was not armed BEFORE this reconfiguration (the armed "
                   "state is sampled before any disarm), and a timer that ends up disarmed gives it back", floor=2)
    fn = prog.fn("_dispatch_timer_unote_resume")
    rep.saw(fn)
    k = consts.get(["DU_STATE_ARMED"], unit="event/event")
    armed = []   # (icmp, state-reading call, polarity: icmp true <=> armed)
    for i in fn.all_insts():
        if i.op == "icmp" and i.d["pred"] in ("ne", "eq") and i.ops[1][0] == "c" and i.ops[1][1] == 0:
            a = fn.inst(i.ops[0])
            if a is not None and a.op == "and" and a.ops[1][0] == "c" and a.ops[1][1] == k["DU_STATE_ARMED"]:
                src = fn.inst(a.ops[0])
                if src is not None and src.op == "call" and "unote_state" in (src.callee or ""):
                    armed.append((i, src, i.d["pred"] == "ne"))
    for c in fn.all_insts():
        if c.op == "call" and c.callee and "_dispatch_unote_armed" in c.callee:
            armed.append((c, c, True))
    dis = calls_named(fn, "_dispatch_timer_unote_disarm")
    ret = calls_named(fn, "_dispatch_retain_unote_owner")
    rel = calls_named(fn, ("_dispatch_release_unote_owner_tailcall", "_dispatch_release_unote_owner"))
    if not armed or not ret or not rel:
        rep.unknown(rid, "anchor vanished in _dispatch_timer_unote_resume (armed tests=%d retain=%d release=%d)" % (len(armed), len(ret), len(rel)))
        return
    for r in ret + rel:
        cx = paths.dom_ctx(fn, r)
        want_armed = r in rel
        used = [(t, src, pol) for t, src, pol in armed if t.id in cx.truth]
        ok = bool(used) and all((cx.truth[t.id] == pol) == want_armed for t, src, pol in used) and \
            not any(fn.inst_reaches(d, src) for t, src, pol in used for d in dis)
        rep.require(rid, ok, r.loc, fn.name, "timer-owner-ref-keyed-on-stale-state:%s" % r.callee,
                    "_dispatch_timer_unote_resume %s the owner reference under an armed-state test that is %s: after the disarm that a heap change forces the "
                    "ARMED bit is clear, so an already armed timer takes a second +2 and its source is never disposed" % ("retains" if r in ret else "releases",
                    "sampled after a disarm" if used else "missing"), sample={"call": r.callee, "armed_tests": len(used)})


def rule_KA7(rep, prog, q):
    rid = rep.rule("C17-KA7", "keep-alive around client code: the run-loop entry point holds its own reference on the queue across the drain of one item (the item "
                   "may drop the owner's last reference; the hand-over of pending items must then wait until the item has returned)", floor=1)
    n = 0
    for fn in prog.all_functions():
        for c in calls_named(fn, "_dispatch_runloop_queue_drain_one"):
            if fn.name == "_dispatch_runloop_queue_drain_one":
                continue
            n += 1
            rep.saw(fn)
            obj = root_ptr(fn, c.ops[0])
            ret = [r for r in calls_named(fn, ("dispatch_retain", "_dispatch_retain", "_os_object_retain")) if root_ptr(fn, r.ops[0]) == obj and fn.dominates(r, c)]
            rel = [r for r in calls_named(fn, ("dispatch_release", "_dispatch_release", "_os_object_release", "_dispatch_release_tailcall")) if root_ptr(fn, r.ops[0]) == obj]
            ok = bool(ret) and bool(rel) and fn.must_pass(c, rel)[0]
            rep.require(rid, ok, c.loc, fn.name, "drain-without-own-reference:%s" % fn.name,
                        "%s drains an item of a run-loop queue without holding its own reference across the call: when the item releases the queue's last "
                        "reference the pending items are handed to worker threads at once, so the next items of this serial queue start while the current "
                        "one is still running (and the owner thread then uses a released queue)" % fn.name, sample={"fn": fn.name, "retains": len(ret), "releases": len(rel)})
    if n < 1:
        rep.unknown(rid, "no caller of _dispatch_runloop_queue_drain_one found")


def rule_OD10(rep, prog, q):
    rid = rep.rule("C17-OD10", "the reference a queue holds on its target queue is taken by the thread that names the new target, BEFORE the retarget can be deferred: "
                   "every hand-over of a queue to the deferred retarget function (_dispatch_lane_legacy_set_target_queue, run later as a barrier when the queue is "
                   "busy or suspended) is dominated by a retain of that same queue; the retarget function stores it and releases only the PREVIOUS target", floor=2)
    n = 0
    for fn in prog.all_functions():
        for c in fn.all_insts():
            if c.op != "call" or not any(o[0] == "f" and o[1] == "_dispatch_lane_legacy_set_target_queue" for o in c.ops):
                continue
            n += 1
            rep.saw(fn)
            fi = [k_ for k_, o in enumerate(c.ops) if o[0] == "f" and o[1] == "_dispatch_lane_legacy_set_target_queue"][0]
            ctxt = c.ops[fi - 1]
            X = root_ptr(fn, ctxt)
            rets = [r for r in fn.all_insts() if r.op == "call" and r.callee in ("_dispatch_retain", "dispatch_retain", "_os_object_retain_internal", "_dispatch_retain_2")
                    and root_ptr(fn, r.ops[0]) == X and fn.dominates(r, c)]
            rep.require(rid, bool(rets), c.loc, fn.name, "deferred-retarget-without-reference",
                        "%s hands the new target queue to the deferred retarget barrier (%s) without having retained it first: when the queue is busy or suspended the "
                        "barrier runs later - if the application drops its last reference on the new target in between, the target is finalised and freed while this "
                        "queue is about to point at it" % (fn.name, c.callee), sample={"call": c.loc})
    f2 = prog.fn("_dispatch_lane_legacy_set_target_queue")
    rep.saw(f2)
    st = [i for i in f2.all_insts() if i.op == "store" and "do_targetq" in prog.fields(i)]
    def is_new_target(op):
        r = root_ptr(f2, op)
        if r == ("a", 0):
            return True
        ci = f2.inst(r) if r[0] == "i" else None
        # the priority-inheritance helper hands back the target it was given (or the root queue standing in for it)
        return ci is not None and ci.op == "call" and ci.callee == "_dispatch_queue_priority_inherit_from_target" and root_ptr(f2, ci.ops[1]) == ("a", 0)
    ok = bool(st) and all(is_new_target(i.ops[0]) for i in st)
    rel = [r for r in f2.all_insts() if r.op == "call" and r.callee and "release" in r.callee]
    okr = bool(rel) and all(not is_new_target(r.ops[0]) for r in rel)
    n += 1
    rep.require(rid, ok and okr, f2.file + ":" + str(f2.d.get("line")), f2.name, "retarget-function-shape",
                "_dispatch_lane_legacy_set_target_queue must install its context argument as do_targetq and release the previous target (never the new one)",
                sample={"stores": len(st), "releases": len(rel)})
    if n < 2:
        rep.unknown(rid, "no hand-over to _dispatch_lane_legacy_set_target_queue found")


def rule_OD12(rep, prog, prog_io, prog_obj):
    rid = rep.rule("C17-OD12", "dropping references in the right step: (a) a retarget releases the PREVIOUS target it reads in the same serialised step in which it "
                   "installs the new one (not a value captured when the retarget was requested: two requests in a row would release the same queue twice and never "
                   "the intermediate one); (b) the last external release marks the queue RELEASED (_dispatch_queue_xref_dispose) BEFORE the type-specific hook "
                   "wakes the object - a source released without cancel is otherwise woken while the flag is still clear, finds nothing to do, and is never torn "
                   "down (its target queue is retained for ever)", floor=3)
    n = 0
    for pr in (prog, prog_io):
        for fn in pr.all_functions():
            sts = [st for st in fn.all_insts() if st.op == "store" and "do_targetq" in pr.fields(st) and st.ops[0][0] == "i"]
            if not sts:
                continue
            rels = [c for c in fn.all_insts() if c.op == "call" and c.callee in ("_dispatch_release", "_dispatch_release_tailcall", "dispatch_release")]
            for c in rels:
                r = root_ptr(fn, c.ops[0])
                ri = fn.inst(list(r)) if r[0] == "i" else None
                if ri is None or ri.op != "load" or "dispatch_queue_s" not in str(ri.d.get("ty", "")):
                    continue
                if any(root_ptr(fn, st.ops[0]) == r for st in sts):
                    continue          # the new target itself
                n += 1
                rep.saw(fn)
                ok = "do_targetq" in pr.fields(ri) and any(fn.dominates(ri, st) for st in sts)
                rep.require(rid, ok, c.loc, fn.name, "retarget-releases-stale-target:%s" % fn.name,
                            "%s installs a new do_targetq and releases a queue that is not the do_targetq value it read itself before the store (%s at %s): with the "
                            "previous target captured earlier, two retargets in a row release the same queue twice - it is finalised while the application still "
                            "holds it - and the intermediate target is never released" % (fn.name, ri.op, ri.loc), sample={"fn": fn.name, "release": c.loc})
    fx = prog_obj.fn("_dispatch_xref_dispose")
    rep.saw(fx)
    qx = calls_named(fx, "_dispatch_queue_xref_dispose")
    hooks = [c for c in fx.all_insts() if c.op == "call" and c.callee and c.callee.endswith("_xref_dispose") and c not in qx]
    if not qx or not hooks:
        rep.unknown(rid, "anchor vanished in _dispatch_xref_dispose (queue step=%d, type hooks=%d)" % (len(qx), len(hooks)))
    else:
        n += 1
        late = [h for h in hooks if any(fx.inst_reaches(h, q_) for q_ in qx)]
        rep.require(rid, not late, (late[0] if late else qx[0]).loc, fx.name, "xref-dispose-order",
                    "_dispatch_xref_dispose runs the type-specific hook %s before _dispatch_queue_xref_dispose has set DQF_RELEASED: the hook's wake-up is what starts "
                    "the tear-down of a source released without dispatch_source_cancel, and it only does so when it sees the flag" % (late[0].callee if late else ""),
                    sample={"hooks": len(hooks)})
    if n < 3:
        rep.unknown(rid, "fewer than 3 release-ordering sites found (%d)" % n)


def rule_OD11(rep, prog_io):
    """blocks that release a captured object: when the submitting function itself takes the reference the block will drop, it takes it before EVERY submission
    of such a block (all branches), so that the block never drops a reference its submitter did not add"""
    rid = rep.rule("C17-OD11", "dispatch I/O: a function that retains an object on behalf of completion blocks it submits (the block releases the captured object) "
                   "has taken that reference before every one of those submissions - on the early 'channel closed / stopped' branch as well as on the normal one; "
                   "otherwise the block drops a reference that belongs to the application and its data's destructor runs while the application still holds it", floor=15)
    prog = prog_io
    SUBMIT = ("dispatch_async", "dispatch_barrier_async", "dispatch_group_async", "dispatch_group_notify", "dispatch_sync")
    RET = ("dispatch_retain", "_dispatch_retain", "_dispatch_io_data_retain")
    REL = ("dispatch_release", "_dispatch_release", "_dispatch_io_data_release")
    n = 0
    for fn in prog.all_functions():
        for c in fn.all_insts():
            if c.op != "call" or c.callee not in SUBMIT:
                continue
            b = fn.inst(c.ops[-1])
            while b is not None and b.op == "bitcast":
                b = fn.inst(b.ops[0])
            if b is None or b.op != "alloca":
                continue
            fields, inv = {}, None
            for st in fn.all_insts():
                if st.op == "store" and st.d.get("ptr") and list(st.d["ptr"]["base"][:2]) == ["i", b.id]:
                    if st.ops[0][0] in ("f", "g") and "block_invoke" in str(st.ops[0][1]):
                        inv = st.ops[0][1]
                    fields[st.d["ptr"].get("off")] = st.ops[0]
            f2 = prog.fn(inv, required=False) if inv else None
            if f2 is None:
                continue
            for r in f2.all_insts():
                if r.op != "call" or r.callee not in REL:
                    continue
                a = f2.inst(r.ops[0])
                while a is not None and a.op == "bitcast":
                    a = f2.inst(a.ops[0])
                if a is None or a.op != "load" or not a.d.get("ptr") or list(a.d["ptr"]["base"][:2]) != ["a", 0]:
                    continue
                cap = fields.get(a.d["ptr"].get("off"))
                if cap is None:
                    continue
                X = root_ptr(fn, cap)
                rets = [x for x in fn.all_insts() if x.op == "call" and x.callee in RET and root_ptr(fn, x.ops[0]) == X]
                if not rets:
                    continue          # the reference is handed over by the caller / an enclosing block (ownership forwarded), not taken here
                n += 1
                rep.saw(fn)
                covered = any(fn.dominates(x, c) for x in rets)
                if not covered:
                    # a retain guarded by `if (X)` covers every path on which X is not NULL
                    bare = [r_ for r_ in paths.walk(fn, entry_point(fn), lambda i: i is c, avoid=lambda i: i in rets) if r_[0] == "hit"]
                    covered = all(tuple(X) in r_[2].isnull or r_[2].value(list(X)) == paths.NULL for r_ in bare)
                rep.require(rid, covered, c.loc, fn.name, "block-releases-unretained-capture:%s" % inv,
                            "%s submits %s, which releases a captured object, on a path where %s has not yet taken the reference it takes for that purpose elsewhere "
                            "(retain at %s does not dominate the submission): the block drops a reference nobody added - e.g. a dispatch_io_write on a channel stopped "
                            "in the meantime releases the application's own reference on its data" % (fn.name, inv, fn.name, rets[0].loc),
                            sample={"fn": fn.name, "block": inv})
    if n < 15:
        rep.unknown(rid, "fewer than 15 retain-then-submit sites found in io.c (%d)" % n)


def rule_OD16(rep, prog_io):
    """dual of OD11: a completion block that releases a captured object on one of its exits releases it (or forwards it to a nested block) on all of them"""
    rid = rep.rule("C17-OD16", "dispatch I/O: a block that owns a reference on a captured object (it releases the capture on some exit) gives it back on EVERY exit - by "
                   "releasing it or by handing it to a nested block that captures the same object; an early `refused` return that skips the release leaves the "
                   "captured channel / queue / data retained for ever (never finalised, its cleanup never runs)", floor=20)
    prog = prog_io
    SUBMIT = ("dispatch_async", "dispatch_barrier_async", "dispatch_group_async", "dispatch_group_notify", "dispatch_sync", "dispatch_async_f")
    REL = ("dispatch_release", "_dispatch_release", "_dispatch_io_data_release", "_dispatch_release_tailcall")
    n = 0
    for f2 in prog.all_functions():
        if "block_invoke" not in f2.name:
            continue
        def cap_off(op):
            a = f2.inst(op)
            while a is not None and a.op == "bitcast":
                a = f2.inst(a.ops[0])
            if a is None or a.op != "load" or not a.d.get("ptr") or list(a.d["ptr"]["base"][:2]) != ["a", 0]:
                return None
            return a.d["ptr"].get("off")
        rels = {}
        for r in f2.all_insts():
            if r.op == "call" and r.callee in REL and r.ops:
                off = cap_off(r.ops[0])
                if off is not None:
                    rels.setdefault(off, []).append(r)
        if not rels:
            continue
        # nested submissions that capture the same value
        fwd = {}
        for c in f2.all_insts():
            if c.op != "call" or c.callee not in SUBMIT:
                continue
            b = f2.inst(c.ops[-1])
            while b is not None and b.op == "bitcast":
                b = f2.inst(b.ops[0])
            if b is None or b.op != "alloca":
                continue
            for st in f2.all_insts():
                if st.op == "store" and st.d.get("ptr") and list(st.d["ptr"]["base"][:2]) == ["i", b.id]:
                    off = cap_off(st.ops[0])
                    if off is not None:
                        fwd.setdefault(off, []).append(c)
        first = next(iter(f2.all_insts()))
        rets = [i for i in f2.all_insts() if i.op == "ret"]
        for off, rl in sorted(rels.items()):
            n += 1
            rep.saw(f2)
            gives = rl + fwd.get(off, [])
            leak = [r for r in rets if first not in gives and f2.inst_reaches(first, r, avoid_insts=gives)]
            # an exit taken only when the capture is NULL owes nothing
            if leak:
                res = [x for x in paths.walk(f2, first, lambda i: False, avoid=lambda i: i in gives) if x[0] == "exit"]
                def cap_null(cx):
                    for iid, tv in cx.truth.items():
                        t = f2.insts[iid]
                        if t.op == "icmp" and t.d["pred"] in ("eq", "ne") and any(o[0] == "n" for o in t.ops) and any(cap_off(o) == off for o in t.ops if o[0] == "i"):
                            if tv == (t.d["pred"] == "eq"):
                                return True
                    return False
                leak = [x for x in res if not cap_null(x[2])]
            rep.require(rid, not leak, rl[0].loc, f2.name, "capture-not-released-on-every-exit:%s:%s" % (f2.name, off),
                        "%s releases the object it captured at offset %s of its block on some exits but can return without releasing it or passing it on: the reference "
                        "taken for the block by its submitter is never dropped, so the captured object (for dispatch_io_create_with_io: the wrapped channel) is never "
                        "disposed" % (f2.name, off), sample={"block": f2.name, "offset": off, "releases": len(rl)})
    if n < 20:
        rep.unknown(rid, "fewer than 20 (block, released capture) pairs found in io.c (%d)" % n)


def rule_OD18(rep, prog):
    rid = rep.rule("C17-OD18", "replacing an object's target queue gives the previous one back: a function that installs a target it has just retained into an EXISTING object "
                   "(not one it allocated / initialises) obtains the previous do_targetq in the same step (atomic exchange, or a load of the field before the store) and "
                   "releases it when it is not NULL - a plain store leaks the previous target, which is then never finalised", floor=1)
    REL = ("_dispatch_release", "dispatch_release", "_dispatch_release_tailcall", "_dispatch_release_2", "_dispatch_release_2_tailcall")
    ALLOC = ("_dispatch_object_alloc", "_dispatch_queue_alloc", "_dispatch_queue_init", "_dispatch_calloc", "calloc", "_os_object_alloc_realized")
    INIT_ONLY = {"_dispatch_data_init": "initialises a freshly allocated data object (its callers allocate it): there is no previous target to release"}
    n = 0
    for fn in sorted(prog.all_functions(), key=lambda f: f.name):
        for i in fn.all_insts():
            if i.op not in ("store", "atomicrmw") or "do_targetq" not in prog.fields(i):
                continue
            base = root_ptr(fn, i.d["ptr"]["base"])
            bi = fn.inst(list(base)) if base[0] == "i" else None
            if bi is not None and bi.op == "call" and bi.callee in ALLOC:
                continue
            v = i.ops[0] if i.op == "store" else i.ops[-1]
            if v[0] in ("n", "g", "c"):
                continue
            rets = [c for c in fn.all_insts() if c.op == "call" and c.callee in ("_dispatch_retain", "dispatch_retain") and root_ptr(fn, c.ops[0]) == root_ptr(fn, v)]
            if not rets or fn.name in INIT_ONLY:
                continue
            n += 1
            rep.saw(fn)
            if i.op == "atomicrmw":
                olds = [("i", i.id)]
            else:
                olds = [("i", l.id) for l in fn.all_insts() if l.op == "load" and "do_targetq" in prog.fields(l) and root_ptr(fn, l.d["ptr"]["base"]) == base and fn.dominates(l, i)]
            released = any(c.op == "call" and c.callee in REL and root_ptr(fn, c.ops[0]) in olds for c in fn.all_insts())
            rep.require(rid, released, i.loc, fn.name, "previous-target-not-released:%s" % fn.name,
                        "%s installs a new (retained) target queue into an existing object without releasing the previous one: retargeting a not yet activated source "
                        "or an initially inactive queue from queue A to queue B leaves A retained for ever - A's finalizer never runs after the application's last "
                        "release" % fn.name, sample={"site": i.loc, "form": i.op})
    if n < 1:
        rep.unknown(rid, "no in-place retarget (retain new target, install, release previous) found")


def rule_WM17(rep, prog):
    rid = rep.rule("C17-WM17", "a queue-specific value and its destructor are replaced together: in dispatch_queue_set_specific every store of the client's value into "
                   "dqs_ctxt is paired, on every path, with a store of the client's destructor (NULL included) into dqs_destructor of the same entry - a value "
                   "registered without a destructor must not inherit the destructor of the value it replaced", floor=2)
    fn = prog.fn("dispatch_queue_set_specific")
    rep.saw(fn)
    cst = [st for st in fn.all_insts() if st.op == "store" and "dqs_ctxt" in prog.fields(st) and st.ops[0][0] == "a"]
    dst = [st for st in fn.all_insts() if st.op == "store" and "dqs_destructor" in prog.fields(st) and st.ops[0][0] == "a"]
    if len(cst) < 2:
        rep.unknown(rid, "dispatch_queue_set_specific: fewer than 2 stores of the client's value found (%d)" % len(cst))
        return
    for st in cst:
        base = root_ptr(fn, st.d["ptr"]["base"])
        ok = any(root_ptr(fn, d_.d["ptr"]["base"]) == base and (d_.block is st.block or fn.postdominates(d_, st) or (fn.dominates(d_, st) and fn.postdominates(st, d_))) for d_ in dst)
        rep.require(rid, ok, st.loc, fn.name, "specific-value-replaced-without-its-destructor",
                    "dispatch_queue_set_specific stores a new value for a key without (on every path) storing the destructor given with it: replacing a value that had a "
                    "destructor by one registered with a NULL destructor keeps the old destructor, which later runs on a value the caller still owns",
                    sample={"store": st.loc})


def rule_OD19(rep, prog, q):
    rid = rep.rule("C17-OD19", "the +2 a block object holds on the queue it was submitted to is given back by whoever takes the queue out of dbpd_queue: every function that "
                   "exchanges dbpd_queue with NULL hands the old value to _dispatch_release_2* or to a wake-up that carries DISPATCH_WAKEUP_CONSUME_2 - otherwise the "
                   "queue keeps two internal references for ever and is never finalised after the last release", floor=3)
    n = 0
    for fn in sorted(prog.all_functions(), key=lambda f: f.name):
        for x in fn.all_insts():
            if x.op != "atomicrmw" or x.d.get("rmw") != "xchg" or "dbpd_queue" not in prog.fields(x) or not (x.ops[-1][0] in ("n", "c")):
                continue
            n += 1
            rep.saw(fn)
            old = ("i", x.id)
            def is_old(o):
                r = root_ptr(fn, o)
                if tuple(r[:2]) == old:
                    return True
                i = fn.inst(o)
                seen = 0
                while i is not None and i.op in ("bitcast", "inttoptr", "ptrtoint", "phi") and seen < 5:
                    seen += 1
                    if i.op == "phi":
                        return any(is_old(v) for v, frm in i.ops if v[0] == "i")
                    if tuple(i.ops[0][:2]) == old:
                        return True
                    i = fn.inst(i.ops[0])
                return False
            gives = []
            for c in fn.all_insts():
                if c.op != "call" or not c.ops or not is_old(c.ops[0]):
                    continue
                if c.callee in ("_dispatch_release_2", "_dispatch_release_2_tailcall", "_dispatch_release_2_no_dispose"):
                    gives.append(c)
                elif (not c.callee or c.callee.endswith("_wakeup")) and len(c.ops) >= 3:
                    fl = arg_const(fn, c, 2)
                    if fl is not None and fl & q.CONSUME_2:
                        gives.append(c)
            rep.require(rid, bool(gives), x.loc, fn.name, "block-queue-reference-not-given-back:%s" % fn.name,
                        "%s takes the queue out of the block object's dbpd_queue (and with it the two references dispatch_async put on the queue) but neither releases them "
                        "nor passes them to a wake-up with CONSUME_2: after dispatch_block_wait on a still pending block the queue is never finalised" % fn.name,
                        sample={"site": x.loc, "fn": fn.name})
    if n < 3:
        rep.unknown(rid, "fewer than 3 functions taking dbpd_queue found (%d)" % n)


def rule_OD13(rep, prog, q):
    rid = rep.rule("C17-OD13", "last external release of a runloop queue: the queue is unbound from its thread (_dispatch_queue_clear_bound_thread clears the drain owner) "
                   "BEFORE the hand-over wakeup - a wakeup that still sees an owner only marks the queue DIRTY and enqueues nothing, so the last internal release "
                   "would dispose of a queue that still has items", floor=1)
    fn = prog.fn("_dispatch_runloop_queue_xref_dispose")
    rep.saw(fn)
    wk = icalls_slot(prog, fn, "dq_wakeup") + calls_named(fn, ("_dispatch_runloop_queue_wakeup", "_dispatch_lane_wakeup", "_dispatch_queue_wakeup"))
    clr = calls_named(fn, "_dispatch_queue_clear_bound_thread") + \
          [i for i in fn.all_insts() if i.op == "atomicrmw" and i.d.get("rmw") == "and" and prog.fields(i) & DQ_STATE and i.ops[-1][0] == "c" and not (i.ops[-1][1] & q.OWNER)]
    if not wk:
        rep.unknown(rid, "_dispatch_runloop_queue_xref_dispose: hand-over wakeup not found")
        return
    for w in wk:
        rep.require(rid, any(fn.dominates(c, w) and c is not w for c in clr), w.loc, fn.name, "wakeup-before-unbind",
                    "_dispatch_runloop_queue_xref_dispose wakes the queue while it is still bound to (drain-locked by) its thread: the wakeup sets DIRTY only, nothing is "
                    "enqueued, and the queue is finalised with items still pending (they never run; `Release of a queue while items are enqueued`)",
                    sample={"wakeup": w.loc, "unbind": [c.loc for c in clr]})


def rule_SB14(rep, progs):
    rid = rep.rule("C17-SB14", "list walks that unlink, re-link or free the current node read its successor first (the TAILQ_FOREACH_SAFE discipline): in every loop whose "
                   "cursor advances through node->te_next, the load of te_next dominates every store to that node's link fields and every free() of the node - "
                   "otherwise the walk stops early (destructors / cleanups of the remaining entries never run, their memory leaks) or reads freed memory", floor=2)
    n = 0
    for prog in progs:
        for fn in prog.all_functions():
            for P in fn.all_insts():
                if P.op != "phi":
                    continue
                # successor loads feeding the cursor (possibly through another phi)
                loads, seen, work = [], set(), [v for v, frm in P.ops]
                while work:
                    v = work.pop()
                    if v[0] != "i" or v[1] in seen:
                        continue
                    seen.add(v[1])
                    i = fn.insts[v[1]]
                    if i.op == "phi" and len(seen) < 6:
                        work.extend(x for x, frm in i.ops)
                    elif i.op == "load" and i.d.get("ptr") and tuple(root_ptr(fn, i.d["ptr"]["base"])[:2]) == ("i", P.id) and "te_next" in prog.fields(i):
                        loads.append(i)
                if not loads:
                    continue
                kills = []
                for k_ in fn.all_insts():
                    if k_.op == "store" and k_.d.get("ptr") and tuple(root_ptr(fn, k_.d["ptr"]["base"])[:2]) == ("i", P.id) and prog.fields(k_) & {"te_next", "te_prev"}:
                        kills.append(k_)
                    elif k_.op == "call" and k_.callee in ("free", "_dispatch_continuation_free", "_dispatch_release", "dispatch_release") and \
                            any(tuple(root_ptr(fn, o)[:2]) == ("i", P.id) for o in k_.ops):
                        kills.append(k_)
                if not kills:
                    continue
                n += 1
                rep.saw(fn)
                bad = [k_ for k_ in kills if not any(fn.dominates(l, k_) for l in loads)]
                if bad:
                    # the -O0 shape of `(var) && ((tvar) = next, 1)` joins the null and non-null cursor before the body: decide by feasible paths from the cursor
                    hits = paths.walk(fn, P, lambda i: i in bad, avoid=lambda i: i in loads)
                    bad = [h[1] for h in hits if h[0] == "hit"]
                rep.require(rid, not bad, (bad[0].loc if bad else P.loc), fn.name, "successor-read-after-node-modified:%s" % fn.name,
                            "%s walks a list through node->te_next but reads the successor only after the node was re-linked into another list or freed: the walk "
                            "follows the new (NULL) link and stops after the first such entry - the remaining entries are never processed (for queue-specific data: "
                            "their destructors never run and the nodes leak) - or it reads the link out of freed memory" % fn.name,
                            sample={"fn": fn.name, "kills": [k_.loc for k_ in bad[:3]]})
    if n < 2:
        rep.unknown(rid, "fewer than 2 unlinking list walks found (%d)" % n)


def rule_OD15(rep, prog):
    rid = rep.rule("C17-OD15", "a source that gave up its registration reference (DSF_DELETED, _dispatch_source_refs_finalize_unregistration) can never be installed "
                   "afterwards: every finalisation happens with ds_is_installed already true - set on the way (activation of a cancelled source, failed "
                   "registration) or implied by an unregistration / a kernel event of the registered unote - so _dispatch_source_install (guarded by "
                   "!ds_is_installed) cannot register the unote of a source nobody keeps alive for it", floor=4)
    n = 0
    EVENT_SIDE = {"_dispatch_source_merge_evt": "called for an event of a unote that was registered, which only an installed source has"}
    for fn in prog.all_functions():
        for c in calls_named(fn, "_dispatch_source_refs_finalize_unregistration"):
            n += 1
            rep.saw(fn)
            sets = [st for st in fn.all_insts() if st.op == "store" and "ds_is_installed" in prog.fields(st) and fn.inst(st.ops[0]) is not None
                    and fn.inst(st.ops[0]).op == "or" and fn.inst(st.ops[0]).ops[1][0] == "c" and fn.inst(st.ops[0]).ops[1][1] & 1]
            unreg = calls_named(fn, "_dispatch_unote_unregister")
            ok = any(fn.dominates(x, c) for x in sets + unreg) or fn.name in EVENT_SIDE
            rep.require(rid, ok, c.loc, fn.name, "finalized-but-not-marked-installed:%s" % fn.name,
                        "%s finalises the source's unregistration (DSF_DELETED set, the registration reference released) without ds_is_installed being set: the next "
                        "invoke still sees `not installed`, goes to the manager and registers the unote with the kernel after the reference that keeps the source alive "
                        "for a registered unote is gone - nothing ever unregisters it, and an event after the last release touches freed memory" % fn.name,
                        sample={"site": c.loc})
    if n < 4:
        rep.unknown(rid, "fewer than 4 calls of _dispatch_source_refs_finalize_unregistration found (%d)" % n)


def rule_WR8(rep, prog, q):
    rid = rep.rule("C17-WR8", "the queue recorded in a block object's private data carries +2 exactly while it is recorded: dbpd_queue is installed only by a "
                   "compare-exchange from NULL whose success edge retains that queue (+2), and taken back only by an exchange with NULL (whose result is released)", floor=4)
    n = 0
    for fn in prog.all_functions():
        for i in fn.all_insts():
            if i.op not in ("store", "atomicrmw", "cmpxchg") or "dbpd_queue" not in prog.fields(i):
                continue
            n += 1
            rep.saw(fn)
            if i.op == "cmpxchg":
                ok = i.ops[1][0] == "n" or (i.ops[1][0] == "c" and i.ops[1][1] == 0)
                newq = root_ptr(fn, i.ops[2])
                ret = [r for r in calls_named(fn, "_dispatch_retain_2") if root_ptr(fn, r.ops[0]) == newq and fn.inst_reaches(i, r)]
                ok = ok and bool(ret)
                why = "a compare-exchange that does not start from NULL or is not followed by _dispatch_retain_2 of the installed queue"
            elif i.op == "atomicrmw":
                ok = i.d.get("rmw") == "xchg" and (i.ops[1][0] == "n" or (i.ops[1][0] == "c" and i.ops[1][1] == 0))
                why = "an exchange that installs a non-NULL queue (it overwrites a queue that still owns its +2 and records one that never got it)"
            else:
                ok = i.ops[0][0] == "n" or (i.ops[0][0] == "c" and i.ops[0][1] == 0) or fn.name in ("_dispatch_block_create_with_voucher_and_priority", "_dispatch_block_create", "_dispatch_block_special_invoke")
                why = "a plain store"
            rep.require(rid, ok, i.loc, i.origin, "block-queue-record-unbalanced:%s" % i.origin,
                        "%s writes dbpd_queue with %s: a block object submitted to a second queue while still pending on the first releases two references "
                        "on a queue that were never taken (over-release) and strands the first queue's +2" % (i.origin, why), sample={"fn": i.origin, "op": i.op})
    if n < 4:
        rep.unknown(rid, "fewer than 4 writers of dbpd_queue found (%d)" % n)


def rule_MP9(rep, prog, q):
    rid = rep.rule("C17-MP9", "an event delivered to a source consumes one owner reference (dux_merge_evt releases it): every delivery from the epoll backend is "
                   "preceded, on every path, by _dispatch_retain_unote_owner of the same unote - in the delivering function or in each of its callers", floor=4)
    n = 0
    funcs = [f for f in prog.all_functions() if f.file.endswith("event_epoll.c") or f.module.unit == "event/event_epoll"]
    for fn in funcs:
        for c in icalls_slot(prog, fn, "dst_merge_evt"):
            n += 1
            rep.saw(fn)
            du = root_ptr(fn, c.ops[0])
            rets = [r for r in calls_named(fn, "_dispatch_retain_unote_owner") if fn.dominates(r, c) and (root_ptr(fn, r.ops[0]) == du or du[0] != "a")]
            ok = bool(rets)
            if not ok and du[0] == "a":
                # the reference may be taken by the callers of this helper: then by every one of them
                callers = [(f2, cc) for f2 in prog.all_functions() for cc in f2.calls(fn.name)]
                ok = bool(callers) and all(any(f2.dominates(r, cc) and root_ptr(f2, r.ops[0]) == root_ptr(f2, cc.ops[du[1]])
                                               for r in calls_named(f2, "_dispatch_retain_unote_owner")) for f2, cc in callers)
            rep.require(rid, ok, c.loc, fn.name, "event-delivered-without-owner-reference:%s" % fn.name,
                        "%s delivers an event (dux_merge_evt, which consumes one owner reference) on a path where no _dispatch_retain_unote_owner was taken "
                        "for it: the source loses two internal references while the application still holds it (e.g. a hang-up on a write source)" % fn.name,
                        sample={"fn": fn.name, "delivery": c.loc})
    if n < 4:
        rep.unknown(rid, "fewer than 4 event deliveries found in the epoll backend (%d)" % n)


def run(rep, tier="quick", srcdir=None, only=None):
    prog, units = load(UNITS, tier, srcdir)
    rep.units = units
    q = Q(srcdir)
    want = lambda r: only is None or r in only
    if want("C17-OD1"):
        rule_OD1(rep, prog, q)
    if want("C17-MP2"):
        rule_MP2(rep, prog, q)
    if want("C17-MP3"):
        rule_MP3(rep, prog)
    if want("C17-CC4"):
        rule_CC4(rep, prog, q)
    if want("C17-OD5"):
        rule_OD5(rep, prog, q)
    if want("C17-TM6"):
        rule_TM6(rep, prog)
    if want("C17-KA7"):
        rule_KA7(rep, prog, q)
    if want("C17-WR8"):
        rule_WR8(rep, prog, q)
    if want("C17-MP9"):
        rule_MP9(rep, prog, q)
    if want("C17-OD10"):
        rule_OD10(rep, prog, q)
    if want("C17-OD13"):
        rule_OD13(rep, prog, q)
    if want("C17-OD15"):
        rule_OD15(rep, prog)
    if want("C17-OD18"):
        rule_OD18(rep, prog)
    if want("C17-OD19"):
        rule_OD19(rep, prog, q)
    if want("C17-WM17"):
        rule_WM17(rep, prog)
    if want("C07-MP6"):
        # the reference a pending notification holds on its queue is dropped only after the block has been handed to that queue (shared with C07)
        from . import C07
        from dqsa import consts as _consts
        g7 = _consts.get(["DISPATCH_GROUP_VALUE_INTERVAL", "DISPATCH_GROUP_VALUE_MASK", "DISPATCH_GROUP_VALUE_1", "DISPATCH_GROUP_HAS_NOTIFS",
                          "DISPATCH_GROUP_HAS_WAITERS", "ETIMEDOUT"], srcdir=srcdir, unit="semaphore")
        C07.rule_MP6(rep, prog, g7)
    if want("C17-OD11") or want("C17-OD12") or want("C17-SB14") or want("C17-OD16"):
        pio, _u = load(["io"], tier, srcdir)
        if want("C17-OD11"):
            rule_OD11(rep, pio)
        if want("C17-OD12"):
            rule_OD12(rep, prog, pio, prog)
        if want("C17-SB14"):
            rule_SB14(rep, [prog] if tier == "thorough" else [prog, pio])
        if want("C17-OD16"):
            rule_OD16(rep, pio)
    if want("C13-OD2"):
        C13.rule_OD2(rep, prog)      # data objects: returned / stored sub-objects are retained (destructors run exactly once)
    if want("C13-WM3"):
        C13.rule_WM3(rep, prog)


MANIFEST = {
    "technique": "path-sensitive reference-pairing rules (retain before publish, CONSUME_2 iff entitled), dominating-condition rules and ordering rules over the LLVM IR + block-capture ownership rule on io.c (a completion block that releases a capture was given that reference before every submission) + feasible-path successor-before-unlink rule on list walks, typestate rule installed-before-finalised on sources, unbind-before-wakeup ordering on runloop queues",
    "level": "the named pairings only: +2 on first push / suspend and its consumption, the entitlement condition of every CONSUME_2 in the in-place barrier "
             "completion, group self-retain keyed on the count field, the release chain and finalizer ordering in _dispatch_dispose, data sub-object ownership. "
             "General absence of use-after-free (whole-program ownership) is NOT decided",
    "note": "io channels, mach and voucher objects are not covered; relies on C01 for wakeups with CONSUME_2 actually being consumed by the drainer",
}
