"""C17 - objects live while referenced or busy and are finalised exactly once.

Decided (the named reference pairings only): the +2 a queue takes when it becomes non-empty / suspended / re-driven is taken before
the hand-off and consumed exactly when promised (CONSUME_2 only under the condition that entitles to it); group enter/leave
retain/release pairing is keyed on the count field; the release chain (xref -> ref -> dispose -> finalizer on the target queue with
the context read before dispose); data sub-object ownership (shared with C13).
NOT decided: absence of use-after-free in general (whole-program ownership)."""
from dqsa import paths, trans
from .common import *
from .sync_common import entry_point
from .C03 import root_ptr
from . import C13

UNITS = ["object", "queue", "semaphore", "event/event", "init", "data", "source"]


def strip_casts(fn, op):
    i = fn.inst(op)
    while i is not None and i.op in ("zext", "sext", "trunc", "bitcast"):
        op = i.ops[0]
        i = fn.inst(op)
    return op


def value_cases(fn, cx, op, depth=0):
    """[(constant, [(cond inst, truth), ...])] for an operand that is a constant or a select/phi tree of constants"""
    r = cx.resolve(op)
    if r[0] == "c":
        return [(r[1], [])]
    i = fn.inst(r)
    if i is None or depth > 4:
        return [(None, [])]
    if i.op == "select":
        c = fn.inst(i.ops[0])
        out = []
        for val, conds in value_cases(fn, cx, i.ops[1], depth + 1):
            out.append((val, conds + [(c, True)]))
        for val, conds in value_cases(fn, cx, i.ops[2], depth + 1):
            out.append((val, conds + [(c, False)]))
        return out
    if i.op in ("or",) and i.ops[1][0] == "c":
        return [((v | i.ops[1][1]) if v is not None else None, cs) for v, cs in value_cases(fn, cx, i.ops[0], depth + 1)]
    return [(None, [])]


def rule_OD1(rep, prog, q):
    rid = rep.rule("C17-OD1", "a push that makes a queue non-empty (or needs an override) takes +2 on the queue before the item is linked, and the wakeup it "
                   "issues carries CONSUME_2 exactly on those paths", floor=2)
    for name in ("_dispatch_lane_push", "_dispatch_workloop_push"):
        fn = prog.fn(name)
        rep.saw(fn)
        wk = icalls_slot(prog, fn, "dq_wakeup") + calls_named(fn, ("_dispatch_workloop_wakeup", "_dispatch_lane_wakeup", "_dispatch_queue_wakeup"))
        ret = calls_named(fn, ("_dispatch_retain_2_unsafe", "_dispatch_retain_2", "_dispatch_retain_n_unsafe"))
        if not wk or not ret:
            rep.unknown(rid, "anchor vanished in %s (wakeups=%d retains=%d)" % (name, len(wk), len(ret)))
            continue
        res = paths.walk(fn, entry_point(fn), lambda i: i in wk, bound=100000)
        ok = True
        n = 0
        for kind, inst, cx, path in res:
            if kind != "hit":
                continue
            n += 1
            fl = arg_const(fn, inst, 2, cx)
            insts = [i for b in path for i in fn.blocks[b].insts]
            retained = any(r in insts for r in ret)
            if fl is None or bool(fl & q.CONSUME_2) != retained:
                ok = False
        rep.require(rid, ok and n > 0, wk[0].loc, name, "consume2-without-retain2:%s" % name,
                    "%s issues a wakeup whose CONSUME_2 flag does not match whether +2 was taken on that path: the queue is over-released (freed while items are "
                    "pending) or leaked" % name, sample={"fn": name, "wakeup_paths": n})
        links = [s for s in fn.all_insts() if s.op == "store" and (prog.fields(s) & frozenset(["do_next", "dq_items_head", "dwl_heads"])) and s.ops[0][0] not in ("c", "n")]
        okl = all(not (fn.inst_reaches(l, r) and not fn.inst_reaches(r, l)) for l in links for r in ret)
        rep.require(rid, okl and bool(links), fn.file, name, "retain-after-link:%s" % name,
                    "%s must take the +2 before linking the item (a drainer can run and release the queue as soon as the item is visible)" % name,
                    sample={"links": len(links)})


def rule_MP2(rep, prog, q):
    rid = rep.rule("C17-MP2", "suspend takes +2 exactly when the queue was not suspended before; a resume-like step consumes the +2 (CONSUME_2 / release_2) only "
                   "when its own state transition left the queue unsuspended; group enter retains on the 0->1 transition of the COUNT field and the last leave "
                   "releases", floor=4)
    fn = prog.fn("_dispatch_lane_suspend")
    rep.saw(fn)
    ret = calls_named(fn, ("_dispatch_retain_2",))
    ok = bool(ret)
    for r in ret:
        cx = paths.dom_ctx(fn, r)
        good = False
        for iid, tv in cx.truth.items():
            ii = fn.insts[iid]
            if ii.op == "icmp" and ii.d["pred"] in ("uge", "ult") and ii.ops[1][0] == "c" and ii.ops[1][1] == q.NEEDS_ACTIVATION and tv == (ii.d["pred"] == "ult"):
                good = True
        ok = ok and good
    rep.require(rid, ok, fn.file, fn.name, "suspend-retain", "_dispatch_lane_suspend must retain_2 exactly when the old state was not suspended", sample={"retains": len(ret)})
    # the in-place barrier completion: CONSUME_2 only if the state after ITS resume is not suspended
    fn = prog.fn("_dispatch_barrier_trysync_or_async_f_complete")
    rep.saw(fn)
    sub = [i for i in fn.all_insts() if i.op == "atomicrmw" and i.d["rmw"] == "sub" and (prog.fields(i) & DQ_STATE)]
    wk = icalls_slot(prog, fn, "dq_wakeup")
    if not sub or not wk:
        rep.unknown(rid, "anchor vanished in _dispatch_barrier_trysync_or_async_f_complete")
    else:
        res = paths.walk(fn, sub[0], lambda i: i in wk)
        ok = True
        for kind, inst, cx, path in res:
            if kind != "hit":
                continue
            for fl, conds in value_cases(fn, cx, inst.ops[2]):
                truths = dict(cx.truth)
                for c, tv in conds:
                    if c is not None:
                        truths[c.id] = tv
                unsusp = None
                for iid, tv in truths.items():
                    ii = fn.insts[iid]
                    if ii.op == "icmp" and ii.d["pred"] in ("uge", "ult") and ii.ops[1][0] == "c" and ii.ops[1][1] == q.NEEDS_ACTIVATION:
                        x = fn.inst(ii.ops[0])
                        if x is not None and (x is sub[0] or (x.op == "sub" and fn.inst(x.ops[0]) is sub[0])):
                            unsusp = tv == (ii.d["pred"] == "ult")
                if fl is None:
                    ok = False
                elif (fl & q.CONSUME_2) and unsusp is not True:
                    ok = False
                elif not (fl & q.CONSUME_2) and unsusp is True:
                    ok = False
        rep.require(rid, ok, sub[0].loc, fn.name, "trysync-complete-consume2",
                    "_dispatch_barrier_trysync_or_async_f_complete passes CONSUME_2 although its own resume may have left the queue suspended (a dispatch_suspend "
                    "that arrived during the barrier inherits those two references; consuming them here makes the later dispatch_resume over-release the queue)",
                    sample={"paths": len(res)})
    # group enter/leave
    k = consts.get(["DISPATCH_GROUP_VALUE_MASK"], unit="semaphore")
    fn = prog.fn("dispatch_group_enter")
    rep.saw(fn)
    rmw = [i for i in fn.all_insts() if i.op == "atomicrmw" and (prog.fields(i) & frozenset(["dg_bits", "dg_state"]))]
    ret = calls_named(fn, ("_dispatch_retain", "_os_object_retain_internal", "dispatch_retain"))
    ok = bool(rmw) and bool(ret)
    for r in ret:
        cx = paths.dom_ctx(fn, r)
        good = False
        for iid, tv in cx.truth.items():
            ii = fn.insts[iid]
            if ii.op == "icmp" and ii.d["pred"] in ("eq", "ne") and ii.ops[1][0] == "c" and ii.ops[1][1] == 0 and tv == (ii.d["pred"] == "eq"):
                x = fn.inst(strip_casts(fn, ii.ops[0]))
                if x is not None and x.op == "and" and fn.inst(strip_casts(fn, x.ops[0])) in rmw and x.ops[1][0] == "c" and x.ops[1][1] == (k["DISPATCH_GROUP_VALUE_MASK"] & 0xffffffff):
                    good = True
        ok = ok and good
    rep.require(rid, ok, fn.file, fn.name, "group-enter-retain-key",
                "dispatch_group_enter must take its self-retain when the old COUNT field (old_bits & VALUE_MASK) is zero; keying on the whole word skips the "
                "retain while a waiter/notify flag is set and the last leave then disposes a group that is still in use", sample={"retains": len(ret)})
    fn = prog.fn("_dispatch_group_wake")
    rep.saw(fn)
    rel = calls_named(fn, ("_dispatch_release_n", "_dispatch_release", "_dispatch_release_2"))
    rep.require(rid, bool(rel), fn.file, fn.name, "group-wake-release", "_dispatch_group_wake must drop the references taken by enter / notify", sample={"releases": len(rel)})


def rule_MP3(rep, prog):
    rid = rep.rule("C17-MP3", "release chain: dropping the last external reference disposes the xref side, dropping the last internal one calls dispose; "
                   "_dispatch_dispose reads target queue, finalizer and context BEFORE dx_dispose, submits the finalizer exactly once to the target queue "
                   "and then releases the target", floor=4)
    fn = prog.fn("_os_object_release")
    rep.saw(fn)
    xd = calls_named(fn, "_os_object_xref_dispose")
    sub = [i for i in fn.all_insts() if i.op == "atomicrmw" and "os_obj_xref_cnt" in prog.fields(i)]
    rep.require(rid, bool(xd) and bool(sub) and any(t.term.op == "unreachable" for t in fn.blocks), fn.file, fn.name, "xref-release-shape",
                "_os_object_release must decrement os_obj_xref_cnt, dispose at -1 and crash on over-release", sample={"dispose_calls": len(xd)})
    n = 0
    for f2 in prog.all_functions():
        for i in f2.all_insts():
            if i.op == "atomicrmw" and i.d["rmw"] == "sub" and "os_obj_ref_cnt" in prog.fields(i) and i.origin == "_os_object_release_internal_n_inline":
                n += 1
                disp = calls_named(f2, "_os_object_dispose")
                if not disp:
                    rep.violation(rid, i.loc, f2.name, "internal-release-no-dispose:%s" % f2.name, "%s drops internal references but never disposes" % f2.name)
    if n == 0:
        rep.unknown(rid, "no expansion of _os_object_release_internal_n_inline found")
    else:
        rep.ok(rid, "internal release", {"expansions": n})
    fn = prog.fn("_dispatch_dispose")
    rep.saw(fn)
    dd = icalls_slot(prog, fn, "do_dispose") + [c for c in fn.all_insts() if c.op == "call" and "icallee" in c.d and any("dispose" in s for s in callee_slot(prog, c))]
    fin = calls_named(fn, "dispatch_async_f")
    rel = calls_named(fn, ("_dispatch_release_tailcall", "_dispatch_release"))
    lds = [i for i in fn.all_insts() if i.op == "load" and (prog.fields(i) & frozenset(["do_ctxt", "do_targetq", "do_finalizer"])) and root_ptr(fn, i.d["ptr"]["base"]) == ("a", 0)]
    ok = len(dd) >= 1 and len(fin) == 1 and bool(rel) and bool(lds)
    late = [l for l in lds if dd and any(fn.inst_reaches(d, l) for d in dd)]
    rep.require(rid, ok and not late, fn.file, fn.name, "dispose-order",
                "_dispatch_dispose must read do_targetq / do_finalizer / do_ctxt before calling dx_dispose (afterwards only the memory is left), call the finalizer "
                "exactly once via dispatch_async_f on the target queue and then release the target (late loads: %s)" % [l.loc for l in late],
                sample={"dispose": len(dd), "finalizer_calls": len(fin), "field_loads_before": len(lds) - len(late)})
    if fin:
        f0 = fin[0]
        okq = root_ptr(fn, f0.ops[0])[0] == "i"
        rep.require(rid, okq and all(fn.inst_reaches(f0, r) or r is f0 for r in rel), f0.loc, fn.name, "finalizer-target",
                    "the finalizer must be submitted to the object's target queue before the target is released", sample={"finalizer": f0.loc})
    fn = prog.fn("_dispatch_lane_class_dispose")
    rep.saw(fn)
    rep.require(rid, any(b.term.op == "unreachable" for b in fn.blocks), fn.file, fn.name, "lane-dispose-checks",
                "_dispatch_lane_class_dispose must crash when the queue is disposed while locked / enqueued / non-empty", sample={})


def run(rep, tier="quick", srcdir=None, only=None):
    prog, units = load(UNITS, tier, srcdir)
    rep.units = units
    q = Q(srcdir)
    want = lambda r: only is None or r in only
    if want("C17-OD1"):
        rule_OD1(rep, prog, q)
    if want("C17-MP2"):
        rule_MP2(rep, prog, q)
    if want("C17-MP3"):
        rule_MP3(rep, prog)
    if want("C13-OD2"):
        C13.rule_OD2(rep, prog)      # data objects: returned / stored sub-objects are retained (destructors run exactly once)
    if want("C13-WM3"):
        C13.rule_WM3(rep, prog)


MANIFEST = {
    "technique": "path-sensitive reference-pairing rules (retain before publish, CONSUME_2 iff entitled), dominating-condition rules and ordering rules over the LLVM IR",
    "level": "the named pairings only: +2 on first push / suspend and its consumption, the entitlement condition of every CONSUME_2 in the in-place barrier "
             "completion, group self-retain keyed on the count field, the release chain and finalizer ordering in _dispatch_dispose, data sub-object ownership. "
             "General absence of use-after-free (whole-program ownership) is NOT decided",
    "note": "io channels, mach and voucher objects are not covered; relies on C01 for wakeups with CONSUME_2 actually being consumed by the drainer",
}
