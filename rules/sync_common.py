"""rules shared by the blocking primitives (groups, semaphores, once, thread events)"""
from dqsa import paths
from dqsa.timeai import Interp, lin_eq, SMIN, SMAX
from .common import *

INT_MAX = 0x7fffffff


def entry_point(fn):
    class _S:
        pass
    s = _S()
    s.block = fn.blocks[0]
    s.idx = -1
    s.loc = fn.file + ":" + str(fn.d.get("line"))
    return s


def rule_wake_all(rep, rid, prog, fname, wake_callees=("_dispatch_futex_wake",)):
    """a broadcast wakes every waiter: the count passed to the futex wake is INT_MAX"""
    fn = prog.fn(fname)
    rep.saw(fn)
    cs = calls_named(fn, wake_callees)
    if not cs:
        rep.unknown(rid, "no futex wake call in %s" % fname)
        return
    for c in cs:
        n = arg_const(fn, c, 1)
        rep.require(rid, n == INT_MAX, c.loc, fname, "broadcast-wakes-%s:%s" % (n, fname),
                    "%s wakes %s waiter(s) instead of all (INT_MAX): with several blocked callers all but the first stay parked forever" % (fname, n),
                    sample={"fn": fname, "wake_count": n})
        # ... and the count reaches the kernel as given: every wrapper between the broadcast and the futex system call passes it on unmodified
        g = prog.fn(c.callee, required=False)
        if g is not None:
            bad = _count_modified(prog, g, 1, ())
            if bad == "lost":
                rep.unknown(rid, "%s: the wake count parameter of %s does not reach the system call" % (fname, c.callee))
            else:
                rep.require(rid, bad is None, (bad[1].loc if bad else c.loc), (bad[0].name if bad else g.name), "wake-count-altered-on-the-way:%s" % fname,
                            "the number of waiters to wake that %s passes (all of them) is altered in %s before it reaches the futex system call (%s): when more "
                            "callers are parked on the word than the altered count, the rest are never woken" % (fname, bad[0].name if bad else "", bad[1].op if bad else ""),
                            sample={"fn": fname})


def _count_modified(prog, g, k, seen):
    """follow parameter k of wrapper g to the count argument of the futex system call; returns None if it arrives unmodified, (function, instruction) of the
    first computation applied to it, or "lost" if it never arrives"""
    if g.name in seen:
        return None
    def origin(o):
        i = g.inst(o)
        while i is not None and i.op in ("trunc", "zext", "sext", "bitcast"):
            o = i.ops[0]
            i = g.inst(o)
        return tuple(o[:2]), i
    def depends(o, depth=0):
        t, i = origin(o)
        if t == ("a", k):
            return True
        if i is None or depth > 6 or i.op in ("load", "call", "alloca"):
            return False
        ops = [v for v, frm in i.ops] if i.op == "phi" else i.ops
        return any(depends(x, depth + 1) for x in ops if isinstance(x, (list, tuple)) and x and isinstance(x[0], str) and x[0] in ("i", "a"))
    arrived = False
    for c in g.all_insts():
        if c.op != "call" or not c.callee:
            continue
        for j, a in enumerate(c.ops):
            if not depends(a):
                continue
            t, i = origin(a)
            if t != ("a", k):
                return (g, i if i is not None else c)
            if c.callee == "syscall":
                arrived = True
                continue
            h = prog.fn(c.callee, required=False)
            if h is None:
                continue
            r = _count_modified(prog, h, j, seen + (g.name,))
            if r == "lost":
                continue
            if r is not None:
                return r
            arrived = True
    return None if arrived else "lost"


def rule_recheck_after_wait(rep, rid, prog, fname, field, waits, need_acquire=True, reload_ops=("load", "cmpxchg", "atomicrmw"), reload_calls=()):
    """every path from the kernel wait to a return passes through a fresh atomic read of `field`"""
    fn = prog.fn(fname)
    rep.saw(fn)
    wcalls = calls_named(fn, waits)
    if not wcalls:
        rep.unknown(rid, "no blocking call (%s) in %s" % (waits, fname))
        return
    def reread(i):
        if i.op == "call" and i.callee in reload_calls:
            return True
        if i.op not in reload_ops or field not in prog.fields(i):
            return False
        if i.op == "load":
            o = i.d.get("ord", "na")
            return o != "na" and (ord_has_acquire(o) or not need_acquire)
        return True
    if not any(field in prog.fields(i) for i in fn.all_insts() if i.op in ("load", "store", "cmpxchg", "atomicrmw")) and not reload_calls:
        rep.unknown(rid, "anchor vanished: %s never touches a field named %s (renamed?)" % (fname, field))
        return
    for w in wcalls:
        res = paths.walk(fn, w, lambda i: False, avoid=reread)
        exits = [r for r in res if r[0] == "exit"]
        rep.require(rid, not exits, w.loc, fname, "return-from-wait-without-recheck:%s" % fname,
                    "%s can return after the kernel wait (%s) without re-reading %s%s: a spurious, stale or interrupted wake-up "
                    "releases the caller before the awaited event" % (fname, w.callee, field, " with acquire" if need_acquire else ""),
                    sample={"fn": fname, "wait": w.callee, "paths": len(res)}, details={"path": exits[0][3] if exits else None})


def interp_events(fn, calls=None):
    itp = Interp(fn, {}, calls=calls or {})
    rets = itp.run()
    return itp, rets


def value_with_lin(st, lin):
    for k, v in st.env.items():
        if v.lin is not None and lin_eq(v.lin, lin):
            return v
    return None


FUTEX_PAIRS = (("_dispatch_once_wait", "_dispatch_gate_broadcast_slow"), ("_dispatch_wait_on_address", "_dispatch_wake_by_address"),
               ("_dispatch_thread_event_wait_slow", "_dispatch_thread_event_signal_slow"), ("_dispatch_unfair_lock_lock_slow", "_dispatch_unfair_lock_unlock_slow"),
               ("_dispatch_gate_wait_slow", "_dispatch_gate_broadcast_slow"))


def rule_futex_key(rep, rid_prefix, prog, pairs=FUTEX_PAIRS):
    """waiter / waker agreement on the futex key class: a FUTEX_WAIT on a shared key is never found by a FUTEX_WAKE on a private key"""
    from dqsa import consts
    rid = rep.rule(rid_prefix + "-FK", "sleep/wake pairing: the blocking side and the waking side of each primitive pass the same futex opflags (private vs shared key); "
                   "the kernel matches waiters and wakers by key, a mismatch makes every wake-up find nobody", floor=10)
    k = consts.get(["FUTEX_PRIVATE_FLAG"], unit="shims/lock", includes=("linux/futex.h",))
    def sys_ops(fn, env, depth=0):
        """values of the futex op word (operation | opflags) that reach the kernel from calls made in fn, with fn's arguments bound by env: followed through
        the library's futex wrappers by constant propagation of the call arguments"""
        out = []
        if fn is None or depth > 5:
            return [None]
        for c in fn.all_insts():
            if c.op != "call" or not c.callee or c.callee.startswith("llvm."):
                continue
            if c.callee == "syscall":
                out.append(ceval(fn, c.ops[2], env) if len(c.ops) > 2 else None)
            elif "futex" in c.callee:
                g = prog.fn(c.callee, required=False)
                if g is None:
                    out.append(None)
                    continue
                env2 = {}
                for n_, o in enumerate(c.ops):
                    v = ceval(fn, o, env)
                    if v is not None:
                        env2[("a", n_)] = v
                out += sys_ops(g, env2, depth + 1)
        return out
    def flags(fname):
        fn = prog.fn(fname, required=False)
        if fn is None:
            return None, []
        rep.saw(fn)
        out = []
        for c in fn.all_insts():
            if c.op == "call" and "futex" in (c.callee or "") and not (c.callee or "").startswith("llvm."):
                g = prog.fn(c.callee, required=False)
                env2 = {}
                for n_, o in enumerate(c.ops):
                    v = ceval(fn, o, {})
                    if v is not None:
                        env2[("a", n_)] = v
                vals = sys_ops(g, env2) if g is not None else [None]
                for v in vals or [None]:
                    out.append((c, None if v is None else (v & k["FUTEX_PRIVATE_FLAG"])))
        return fn, out
    n = 0
    for w, s_ in pairs:
        fw, a = flags(w)
        fs, b = flags(s_)
        if not a or not b:
            continue
        n += 1
        va, vb = {v for _, v in a}, {v for _, v in b}
        ok = len(va) == 1 and va == vb and None not in va and va == {k["FUTEX_PRIVATE_FLAG"]}
        rep.require(rid, ok, a[0][0].loc, w, "futex-key-mismatch:%s/%s" % (w, s_),
                    "%s blocks with futex opflags %s while %s wakes with %s: different key classes, the wake-up never finds the sleeper and it sleeps forever although "
                    "the awaited state was reached" % (w, sorted(map(str, va)), s_, sorted(map(str, vb))), sample={"wait": w, "wake": s_, "opflags": sorted(map(str, va | vb))})
    if n < 4:
        rep.unknown(rid, "fewer than 4 futex wait/wake pairs found (%d)" % n)
    # the blocking helper hands the kernel the caller's word address and the caller's compare value on EVERY attempt, the retry after EINTR included: the
    # caller decided to sleep because it read that value; if the word has moved on since (the wake-up happened while a signal handler ran) the kernel must
    # refuse to sleep (EAGAIN). Re-reading the word inside the helper makes the retry sleep on the already-final value: no further wake-up will come
    fb = prog.fn("_futex_blocking_op", required=False)
    if fb is None:
        rep.unknown(rid, "anchor vanished: _futex_blocking_op not found")
        return
    rep.saw(fb)
    sys_ = [c for c in fb.all_insts() if c.op == "call" and c.callee in ("_dispatch_futex", "syscall")]
    if not sys_:
        rep.unknown(rid, "anchor vanished: _futex_blocking_op makes no futex system call")
    # errno classification of a failed wait: "the word no longer holds the expected value" (EAGAIN == EWOULDBLOCK) and ETIMEDOUT go back to the caller -
    # the caller re-reads the word / gives up; retrying EAGAIN inside the helper waits again on the stale value against a word that has reached its final
    # value: the waiter spins in the kernel for ever although the awaited event (once DONE, lock released, group emptied) has happened
    ke = consts.get(["EAGAIN", "EWOULDBLOCK", "ETIMEDOUT", "EINTR"], unit="shims/lock", includes=("errno.h",))
    errl = [l for l in fb.all_insts() if l.op == "load" and fb.inst(l.d["ptr"]["base"]) is not None and fb.inst(l.d["ptr"]["base"]).op == "call"
            and fb.inst(l.d["ptr"]["base"]).callee == "__errno_location"] if sys_ else []
    if sys_ and not errl:
        rep.unknown(rid, "anchor vanished: _futex_blocking_op does not read errno")
    for nm in ("EAGAIN", "EWOULDBLOCK", "ETIMEDOUT"):
        if not errl:
            break
        for tmo in (0, 0x1000):
            env = {c.id: 0xffffffff for c in sys_}
            env.update({l.id: ke[nm] for l in errl})
            env[("a", 3)] = tmo
            count = [0]
            def stop(i, count=count):
                if i in sys_:
                    count[0] += 1
                    return count[0] > 1
                return i.op == "ret"
            hit, env = concrete_walk_any(fb, env, stop)
            retried = hit is not None and hit in sys_
            rep.require(rid, not retried and hit is not None, sys_[0].loc, fb.name, "futex-errno-retried:%s:%d" % (nm, 1 if tmo else 0),
                        "_futex_blocking_op %s when the futex call fails with %s (%s timeout): that errno must be handed back to the caller - %s"
                        % ("waits again" if retried else "does not return", nm, "with a" if tmo else "without",
                           "EAGAIN / EWOULDBLOCK means the word no longer holds the value the caller read, so waiting again on that value can never be satisfied "
                           "once the word has reached its final value (dispatch_once DONE, lock released): the caller never returns" if nm != "ETIMEDOUT" else
                           "the timeout has expired"), sample={"errno": nm, "timeout": bool(tmo)})
    for c in sys_:
        ops = c.ops if c.callee == "_dispatch_futex" else c.ops[1:]
        ok = len(ops) >= 3 and list(ops[0][:2]) == ["a", 0] and list(ops[2][:2]) == ["a", 2]
        rep.require(rid, ok, c.loc, fb.name, "futex-wait-value-not-callers",
                    "_futex_blocking_op passes the kernel a word address / compare value that is not its caller's on every attempt (found %s, %s): a wait retried after "
                    "EINTR with a re-read value sleeps on the value the word has NOW - if the awaited store and its wake-up happened while the signal handler ran, "
                    "nobody will ever wake this thread and the dispatch_once / lock / group waiter never returns" % (ops[0] if ops else None, ops[2] if len(ops) > 2 else None),
                    sample={"call": c.loc})


def rule_cas_progress(rep, rid, prog, fields=None, floor_name=None):
    """every compare-exchange that is retried in a loop retries with a refreshed expected value: the expected operand is (through phis / selects) the value
    the failed compare-exchange returned, or a fresh load of the word made inside the loop. A retry with the stale expected value can never succeed once the
    word has changed: the thread spins forever (and whatever it was about to publish / wake is lost)."""
    n = 0
    for fn in prog.all_functions():
        for cx in fn.all_insts():
            if cx.op != "cmpxchg" or (fields is not None and not (prog.fields(cx) & fields)):
                continue
            if not fn.inst_reaches(cx, cx):
                continue
            E = fn.inst(cx.ops[1])
            if E is None:
                continue          # constant expected value (e.g. NULL -> x): nothing to refresh
            if E.op != "phi" and fn.inst_reaches(cx, E):
                continue          # recomputed (re-loaded) each time round
            n += 1
            rep.saw(fn)
            ok = False
            if E.op != "phi":
                # computed once before the loop and never refreshed: the retry compares against a value that is known to be stale
                rep.require(rid, False, cx.loc, cx.origin, "cas-retried-with-stale-expected:%s" % cx.origin,
                            "%s retries a failed compare-exchange on %s with an expected value computed once before the loop (the non-'v' form / a dropped reload): "
                            "once another thread has changed the word the loop can never succeed - the thread spins forever and the wake-up / hand-off it was "
                            "about to perform never happens" % (cx.origin, "/".join(sorted(prog.fields(cx))) or "a shared word"), sample={"fn": cx.origin, "at": cx.loc})
                continue
            if not fn.inst_reaches(cx, E):
                n -= 1
                continue
            seen, work = set(), [v for v, frm in E.ops]
            while work:
                o = work.pop()
                i = fn.inst(o)
                if i is None or i.id in seen:
                    continue
                seen.add(i.id)
                if i.op == "extractvalue" and fn.inst(i.ops[0]) is not None and fn.inst(i.ops[0]).op == "cmpxchg" and i.d.get("idx") == [0]:
                    ok = True
                elif i.op == "load" and i.d.get("ptr") and fn.inst_reaches(cx, i) and (fields is None or (prog.fields(i) & prog.fields(cx))):
                    ok = True
                elif i.op == "phi" and i is not E:
                    work += [v for v, frm in i.ops]
                elif i.op in ("select",):
                    work += list(i.ops[1:])
                elif i.op in ("bitcast", "inttoptr", "ptrtoint", "trunc", "zext"):
                    work.append(i.ops[0])
            rep.require(rid, ok, cx.loc, cx.origin, "cas-retried-with-stale-expected:%s" % cx.origin,
                        "%s retries a failed compare-exchange on %s without refreshing the expected value (the non-'v' form / a dropped reload): once another thread "
                        "has changed the word the loop can never succeed - the thread spins forever and the wake-up / hand-off it was about to perform never "
                        "happens" % (cx.origin, "/".join(sorted(prog.fields(cx))) or "a shared word"), sample={"fn": cx.origin, "at": cx.loc})
    return n


def rule_cas_memoryless(rep, rid, prog, fields=None, exceptions=None):
    """a compare-exchange retry loop carries nothing but the freshly observed word from a failed attempt into the next one: every OTHER value merged at
    the loop head (flags, counts, decisions computed from the state read by the failed attempt) must be recomputed from scratch by the attempt that finally
    succeeds. A loop-head phi whose value coming round the back edge depends on its own previous value remembers a decision taken for a state that was never
    committed. Returns the number of retry loops inspected."""
    exceptions = exceptions or {}
    n = 0
    for fn in prog.all_functions():
        done = set()
        for cx in fn.all_insts():
            if cx.op != "cmpxchg" or (fields is not None and not (prog.fields(cx) & fields)):
                continue
            if not fn.inst_reaches(cx, cx):
                continue
            E = fn.inst(cx.ops[1])
            if E is None or E.op != "phi" or not fn.inst_reaches(cx, E):
                continue
            n += 1
            rep.saw(fn)
            H = E.block
            bad = []
            for p in H.insts:
                if p.op != "phi" or p is E or p.id in done:
                    continue
                done.add(p.id)
                back = [v for v, frm in p.ops if fn.inst_reaches(cx, fn.blocks[frm].term) or fn.blocks[frm] is cx.block]
                if any(v[0] == "u" for v, frm in p.ops):
                    continue      # not initialised before the loop: a variable assigned and read within one attempt, not a memory
                # does a back-edge value depend on p itself?
                seen, work, selfdep = set(), list(back), False
                while work:
                    o = work.pop()
                    if o[0] != "i":
                        continue
                    if o[1] == p.id:
                        selfdep = True
                        break
                    i = fn.insts.get(o[1]) if isinstance(fn.insts, dict) else fn.inst(o)
                    if i is None or i.id in seen:
                        continue
                    seen.add(i.id)
                    if i.op == "phi":
                        work += [v for v, frm in i.ops]
                    elif i.op in ("select", "and", "or", "xor", "add", "sub", "zext", "trunc", "sext", "bitcast", "icmp", "shl", "lshr", "mul"):
                        work += [o2 for o2 in i.ops if isinstance(o2, (list, tuple)) and o2 and o2[0] == "i"]
                if selfdep:
                    bad.append(p)
            key = (cx.origin, "/".join(sorted(prog.fields(cx))))
            if bad and any(cx.origin == e for e in exceptions):
                rep.ok(rid, "cas-retry-carries-state:%s" % cx.origin, {"fn": cx.origin, "exception": exceptions[cx.origin]})
                continue
            rep.require(rid, not bad, cx.loc, cx.origin, "cas-retry-carries-state:%s" % cx.origin,
                        "%s: the retry loop around the compare-exchange on %s carries a value (%s) from a failed attempt into the next one besides the re-read word: "
                        "a flag / decision taken for a state that was never committed survives into the attempt that succeeds on a DIFFERENT state (e.g. 'still "
                        "suspended, nothing to wake' remembered by the attempt that removes the last suspension: the queue is never re-driven)"
                        % (cx.origin, "/".join(sorted(prog.fields(cx))) or "a shared word", ", ".join("%%%d at %s" % (b.id, b.loc) for b in bad)),
                        sample={"fn": cx.origin, "at": cx.loc})
    return n


def rule_snapshot_walk_waits(rep, rid, prog, fname, what):
    """walking a captured MPSC snapshot: the successor of a node that is not the captured tail is read through a wait for the concurrent enqueuer (a NULL
    do_next there means 'not linked yet', not 'end of list')"""
    fn = prog.fn(fname)
    rep.saw(fn)
    nxt = [l for l in fn.all_insts() if l.op == "load" and "do_next" in prog.fields(l)]
    waits = calls_named(fn, "_dispatch_wait_for_enqueuer")
    if not nxt:
        rep.unknown(rid, "no do_next load in %s" % fname)
    for l in nxt:
        ok = False
        for u in fn.users(l):
            us = fn.users(u) if u.op in ("inttoptr", "bitcast") else [u]
            for t in us:
                if t.op == "icmp" and t.d["pred"] in ("eq", "ne") and any(o[0] == "n" or (o[0] == "c" and o[1] == 0) for o in t.ops):
                    for br, st, sf in paths.branch_edges(fn, t):
                        tgt = st if t.d["pred"] == "eq" else sf
                        if any(wc.block.id == tgt or wc.block.id in fn.reach_from_block(tgt, avoid=frozenset([l.block.id])) for wc in waits):
                            ok = True
        rep.require(rid, ok, l.loc, fn.name, "snapshot-walk-stops-at-unlinked-node:%s" % fname,
                    "%s reads the successor of a node of its captured snapshot without waiting when it is still NULL: a node whose enqueuer has already swapped "
                    "itself in as tail but not yet linked it ends the walk early, and %s" % (fname, what), sample={"load": l.loc, "waits": len(waits)})
