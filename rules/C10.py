"""C10 - dispatch_apply invokes every index exactly once and then returns.

Decided: every index handed to the client callout is the result of the atomic fetch-add on da_index and below the
iteration count; completion signalling / waiting; the zero-iteration early return; the serial fallback iterates 0..n-1; the
width bookkeeping of the redirect path (what is reserved on each level is what is given back and what the helper count is
reduced by). Exactly-once per index then rests on fetch-add uniqueness (trusted)."""
from dqsa import trans, paths
from .common import *
from .sync_common import entry_point
from .C03 import root_ptr

UNITS = ["apply", "queue"]


def roots_of(fn, op, seen=None):
    seen = seen if seen is not None else set()
    i = fn.inst(op)
    if i is None:
        return {tuple(op[:2])}
    if i.id in seen:
        return set()
    seen.add(i.id)
    if i.op == "phi":
        r = set()
        for v, frm in i.ops:
            r |= roots_of(fn, v, seen)
        return r
    if i.op in ("zext", "sext", "trunc", "bitcast"):
        return roots_of(fn, i.ops[0], seen)
    return {("i", i.id)}


def rule_OD1(rep, prog):
    rid = rep.rule("C10-OD1", "every index passed to the work function is the value returned by the atomic fetch-add(da_index, 1) and was compared "
                   "below da_iterations on the path; the serial fallback starts at 0 and increments by one under the same bound", floor=3)
    fn = prog.fn("_dispatch_apply_invoke2")
    rep.saw(fn)
    claims = [i for i in fn.all_insts() if i.op == "atomicrmw" and "da_index" in prog.fields(i)]
    okc = bool(claims) and all(c.d["rmw"] == "add" and c.ops[1][0] == "c" and c.ops[1][1] == 1 for c in claims)
    rep.require(rid, okc, claims[0].loc if claims else fn.file, fn.name, "index-claim-not-fetch-add",
                "_dispatch_apply_invoke2 must claim indices with an atomic fetch-add of 1 on da_index (a load+store lets two helpers run the same index)",
                sample={"claims": [(c.d["rmw"], c.d["ord"]) for c in claims]})
    rep.require(rid, any(ord_has_acquire(c.d["ord"]) for c in claims), claims[0].loc if claims else fn.file, fn.name, "first-claim-order",
                "the first index claim must be acquire (it observes the da_* fields published by the submitter)", sample={"orders": [c.d["ord"] for c in claims]})
    cos = calls_named(fn, "_dispatch_client_callout2")
    iters = [i for i in fn.all_insts() if i.op == "load" and "da_iterations" in prog.fields(i)]
    if not cos or not iters:
        rep.unknown(rid, "anchor vanished in _dispatch_apply_invoke2")
    for co in cos:
        rs = roots_of(fn, co.ops[1])
        rep.require(rid, rs <= {("i", c.id) for c in claims}, co.loc, fn.name, "callout-index-not-claimed",
                    "_dispatch_apply_invoke2 passes an index to the work function that is not the result of the atomic claim (sources %s)" % sorted(rs),
                    sample={"index_sources": len(rs)})
    # bound check: from each claim, any path to the callout must have established idx < iter for that claim
    for c in claims:
        res = paths.walk(fn, c, lambda i: i in cos or i in claims)
        for kind, inst, cx, path in res:
            if kind != "hit" or inst in claims:
                continue
            ok = False
            for iid, tv in cx.truth.items():
                ii = fn.insts[iid]
                if ii.op != "icmp" or ii.d["pred"] not in ("ult", "uge", "ugt", "ule"):
                    continue
                a, b = roots_of(fn, ii.ops[0]), roots_of(fn, ii.ops[1])
                it = {("i", x.id) for x in iters}
                if ("i", c.id) in a and (b & it):
                    ok = ok or (ii.d["pred"] == "ult" and tv) or (ii.d["pred"] == "uge" and not tv)
                if ("i", c.id) in b and (a & it):
                    ok = ok or (ii.d["pred"] == "ugt" and tv) or (ii.d["pred"] == "ule" and not tv)
            rep.require(rid, ok, inst.loc, fn.name, "callout-index-unbounded",
                        "_dispatch_apply_invoke2 reaches the work function with a claimed index that was not established to be < da_iterations on this path "
                        "(an extra index n could be run)", sample={"claim": c.loc, "path": path})
    fn = prog.fn("_dispatch_apply_serial")
    rep.saw(fn)
    cos = calls_named(fn, "_dispatch_client_callout2")
    for co in cos:
        i = fn.inst(co.ops[1])
        ok = False
        if i is not None and i.op == "phi":
            vals = [v for v, frm in i.ops]
            zero = any(v[0] == "c" and v[1] == 0 for v in vals)
            inc = any(fn.inst(v) is not None and fn.inst(v).op == "add" and fn.inst(fn.inst(v).ops[0]) is i and fn.inst(v).ops[1][0] == "c" and fn.inst(v).ops[1][1] == 1 for v in vals)
            ok = zero and inc and len(vals) == 2
        rep.require(rid, ok, co.loc, fn.name, "serial-index-sequence",
                    "_dispatch_apply_serial must run indices 0, 1, 2, ... (index phi must be {0, idx+1})", sample={"callout": co.loc})


def rule_MP2(rep, prog):
    rid = rep.rule("C10-MP2", "completion: the helper that brings da_todo to zero signals the event (release); the invoking thread waits for it before "
                   "returning; zero iterations return before anything is allocated or run; the last reference frees", floor=4)
    fn = prog.fn("_dispatch_apply_invoke2")
    rep.saw(fn)
    sub = [i for i in fn.all_insts() if i.op == "atomicrmw" and "da_todo" in prog.fields(i)]
    sig = calls_named(fn, "_dispatch_thread_event_signal")
    ok = len(sub) == 1 and sub[0].d["rmw"] == "sub" and ord_has_release(sub[0].d["ord"]) and bool(sig)
    if ok:
        # signal iff new value == 0: the sub returns old; new = old - done; test eq 0
        res = paths.walk(fn, sub[0], lambda i: i in sig)
        hit = [r for r in res if r[0] == "hit"]
        ok = bool(hit)
        for kind, inst, cx, path in hit:
            good = False
            for iid, tv in cx.truth.items():
                ii = fn.insts[iid]
                if ii.op == "icmp" and ii.d["pred"] in ("eq", "ne") and any(o[0] == "c" and o[1] == 0 for o in ii.ops) and tv == (ii.d["pred"] == "eq"):
                    x = fn.inst(ii.ops[0])
                    if x is not None and x.op == "sub" and fn.inst(x.ops[0]) is sub[0]:
                        good = True
                    if x is sub[0]:
                        good = False
            ok = ok and good
    rep.require(rid, ok, sub[0].loc if sub else fn.file, fn.name, "todo-signal",
                "_dispatch_apply_invoke2 must subtract its done count from da_todo with release and signal the event exactly when the remaining count is 0",
                sample={"sub": [(s.d["rmw"], s.d["ord"]) for s in sub], "signals": len(sig)})
    # the WAIT flag (a macro local to apply.c) is the single invoke-flag bit under which _dispatch_apply_invoke2 waits for the completion event; the caller that
    # submits the apply (directly or through the _dispatch_apply_invoke_and_wait trampoline) must pass it
    wait = calls_named(fn, "_dispatch_thread_event_wait")
    W = None
    for w_ in wait:
        for iid, tv in paths.dom_ctx(fn, w_).truth.items():
            ii = fn.insts[iid]
            if ii.op == "icmp" and ii.d["pred"] in ("eq", "ne") and ii.ops[1][0] == "c" and ii.ops[1][1] == 0 and tv == (ii.d["pred"] == "ne"):
                a_ = fn.inst(ii.ops[0])
                if a_ is not None and a_.op == "and" and a_.ops[1][0] == "c" and tuple(a_.ops[0][:2]) == ("a", 1):
                    W = a_.ops[1][1]
    passers = [(g, c) for g in prog.all_functions() for c in calls_named(g, "_dispatch_apply_invoke2")
               if g is not fn and (arg_const(g, c, 1) or 0) & (W or 0)]
    if W and not passers:
        rep.violation(rid, fn.file, fn.name, "nobody-passes-invoke-wait",
                      "no caller of _dispatch_apply_invoke2 passes the flag under which it waits for the completion event: the thread that called dispatch_apply "
                      "returns as soon as its own share of the iterations is done, before the helpers have finished theirs")
        return
    if not W or not passers:
        rep.unknown(rid, "cannot determine DISPATCH_APPLY_INVOKE_WAIT (flag guarding the completion wait in _dispatch_apply_invoke2: %s; callers passing it: %d)" % (W, len(passers)))
        return
    waiters = {g.name for g, c in passers}
    wt = [i for i in fn.all_insts() if i.op == "icmp" and i.d["pred"] in ("ne", "eq") and i.ops[1][0] == "c" and i.ops[1][1] == 0 and
          fn.inst(i.ops[0]) is not None and fn.inst(i.ops[0]).op == "and" and fn.inst(i.ops[0]).ops[1][0] == "c" and fn.inst(i.ops[0]).ops[1][1] == W]
    res = paths.walk(fn, entry_point(fn), lambda i: False, avoid=lambda i: i in wait)
    bad = []
    for kind, inst, cx, path in res:
        if kind != "exit":
            continue
        # exits without the wait are fine only when the WAIT flag is known clear
        if not any(cx.truth.get(t.id) == (t.d["pred"] == "eq") for t in wt):
            bad.append(path)
    rep.require(rid, bool(wait) and bool(wt) and not bad, fn.file, fn.name, "invoke-wait-skipped",
                "_dispatch_apply_invoke2 can return with DISPATCH_APPLY_INVOKE_WAIT set without having waited for the completion event: dispatch_apply "
                "would return before all iterations finished (path %s)" % (bad[0] if bad else None), sample={"waits": len(wait), "exit_paths": len(res)})
    dec = [i for i in fn.all_insts() if i.op == "atomicrmw" and "da_thr_cnt" in prog.fields(i)]
    fr = calls_named(fn, "_dispatch_continuation_free")
    rep.require(rid, len(dec) >= 1 and all(d_.d["rmw"] == "sub" and ord_has_release(d_.d["ord"]) and any(fn.inst_reaches(d_, f_) for f_ in fr) for d_ in dec), fn.file, fn.name, "thr-cnt-free",
                "the apply context must be freed by whoever drops da_thr_cnt to zero (release)", sample={"dec": len(dec), "free": len(fr)})
    fn = prog.fn("dispatch_apply_f")
    rep.saw(fn)
    ctx = paths.PathCtx(fn)
    ctx.isnull.add(("a", 0))
    res = paths.walk(fn, entry_point(fn), lambda i: i.op == "call" and any(k in (i.callee or "indirect") for k in ("alloc", "apply", "sync", "callout", "async", "indirect")), ctx=ctx)
    hits = [r for r in res if r[0] == "hit"]
    rep.require(rid, not hits, fn.file + ":" + str(fn.d.get("line")), fn.name, "zero-iterations-not-early",
                "dispatch_apply_f(0, ...) reaches %s: with zero iterations nothing may be allocated or invoked (the serial fallback would run index 0 once)"
                % (hits[0][1].callee if hits else None), sample={"paths": len(res)})
    # every non-trivial return goes through the invoke-and-wait or a dispatch_sync_f / barrier sync of the serial body
    ends = [i for i in fn.all_insts() if i.op == "call" and i.callee in waiters | {"_dispatch_apply_f", "_dispatch_apply_invoke_and_wait", "dispatch_sync_f", "dispatch_barrier_sync_f", "_dispatch_apply_serial", "dispatch_async_and_wait_f", "_dispatch_barrier_sync_f", "_dispatch_sync_f"}]
    ctx2 = paths.PathCtx(fn)
    ctx2.nonnull.add(("a", 0))
    res = paths.walk(fn, entry_point(fn), lambda i: False, avoid=lambda i: i in ends, ctx=ctx2)
    ex_ = [r for r in res if r[0] == "exit"]
    rep.require(rid, bool(ends) and not ex_, fn.file, fn.name, "apply-returns-without-running",
                "dispatch_apply_f can return for n > 0 without going through a synchronous execution of the iterations", sample={"sync_ends": len(ends)})


def rule_MP3(rep, prog):
    from .C13 import linform
    rid = rep.rule("C10-MP3", "apply on a custom queue: the excess (requested - granted) width is what is relinquished on the upper levels AND what the helper "
                   "count da_thr_cnt is reduced by; the loop-carried width is the granted one; the final relinquish gives back that width", floor=4)
    fn = prog.fn("_dispatch_apply_redirect")
    rep.saw(fn)
    res_ = calls_named(fn, "_dispatch_queue_try_reserve_apply_width")
    rel = calls_named(fn, "_dispatch_queue_relinquish_width")
    if len(res_) != 1 or len(rel) < 2:
        rep.unknown(rid, "anchor vanished in _dispatch_apply_redirect (reserve=%d relinquish=%d)" % (len(res_), len(rel)))
        return
    r = res_[0]
    want = fn.inst(r.ops[1])          # da_width requested (loop phi)
    first = [c for c in rel if fn.dominates(r, c) and c.block is not None and fn.inst_reaches(c, r)]   # inside the loop
    last = [c for c in rel if c not in first]
    okx = bool(first)
    excess = None
    for c in first:
        e = fn.inst(c.ops[2])
        good = e is not None and e.op == "sub" and fn.inst(e.ops[0]) is want and fn.inst(e.ops[1]) is r
        if good:
            excess = e
        okx = okx and good
    rep.require(rid, okx, first[0].loc if first else fn.file, fn.name, "excess-relinquish-amount",
                "_dispatch_apply_redirect must give back exactly (requested - granted) width to the levels above when a level grants less: otherwise width "
                "stays reserved on the upper queues forever and later barriers never run", sample={"relinquish_in_loop": len(first)})
    st = [i for i in fn.all_insts() if i.op == "store" and "da_thr_cnt" in prog.fields(i)]
    okt = False
    for s_ in st:
        v = fn.inst(s_.ops[0])
        if v is not None and v.op == "sub" and excess is not None and fn.inst(v.ops[1]) is excess:
            ld = fn.inst(v.ops[0])
            if ld is not None and ld.op == "load" and "da_thr_cnt" in prog.fields(ld):
                okt = True
    rep.require(rid, okt, st[0].loc if st else fn.file, fn.name, "helper-count-not-reduced",
                "_dispatch_apply_redirect must reduce da_thr_cnt by the excess when a level grants fewer slots: otherwise more helpers are pushed than width "
                "was reserved for and the queue's width limit is exceeded", sample={"stores_to_da_thr_cnt": len(st)})
    # loop-carried width == granted on the reduced path; final relinquish uses the loop-carried width
    okl = False
    for b in fn.blocks:
        for ph in b.insts:
            if ph.op != "phi":
                break
            vals = [fn.inst(v) for v, frm in ph.ops]
            if r in vals and want in vals:
                carried = ph
                # this phi must flow back into `want`
                if any(fn.inst(v) is ph for v, frm in want.ops) if want is not None and want.op == "phi" else False:
                    okl = all(fn.inst(c.ops[2]) is ph for c in last) and bool(last)
    rep.require(rid, okl, fn.file, fn.name, "final-relinquish-amount",
                "_dispatch_apply_redirect: the width carried to the next level and relinquished at the end must be the granted width", sample={"final_relinquish": len(last)})
    # the width is reserved on EVERY level of the chain in turn: the queue handed to the reservation is the loop-carried level (starts at the queue the apply was
    # submitted to, advanced by do_targetq each round), not a loop-invariant queue - otherwise the lower levels are never asked (a serial queue below no
    # longer forces the serial fall-back: the iterations run in parallel on a hierarchy that ends in a serial queue) and the final relinquish takes width from
    # levels that never granted any
    lv = fn.inst(r.ops[0])
    while lv is not None and lv.op == "bitcast":
        lv = fn.inst(lv.ops[0])
    okv = lv is not None and lv.op == "phi" and fn.inst_reaches(r, lv)
    if okv:
        adv = False
        for v, frm in lv.ops:
            vi = fn.inst(v)
            while vi is not None and vi.op == "bitcast":
                vi = fn.inst(vi.ops[0])
            if vi is not None and vi.op == "load" and "do_targetq" in prog.fields(vi):
                b_ = vi.d["ptr"]["base"]
                bi = fn.inst(b_) if b_[0] == "i" else None
                while bi is not None and bi.op == "bitcast":
                    bi = fn.inst(bi.ops[0])
                adv = adv or (bi is lv)
        okv = adv
    rep.require(rid, okv, r.loc, fn.name, "reservation-level-not-walked",
                "_dispatch_apply_redirect reserves the apply width on a queue that is not the level the walk down the target chain has reached (loop-carried, advanced "
                "by do_targetq): with two or more non-root levels the lower ones are never asked for width, so a serial queue in the chain no longer forces the "
                "serial fall-back and the iterations overlap on it", sample={"reserve": r.loc})
    # what is asked of each level is the number of HELPER slots: da_thr_cnt - 1 (the calling thread already holds its own slot through dispatch_sync_f)
    if want is not None and want.op == "phi":
        for v, frm in want.ops:
            if fn.dominates(want, fn.blocks[frm].term):
                continue
            lf = linform(fn, v)
            loads = [a for a, co in lf.items() if isinstance(a, tuple) and a[0] == "i" and fn.insts[a[1]].op == "load" and "da_thr_cnt" in prog.fields(fn.insts[a[1]]) and co == 1]
            c0 = lf.get(1, 0)
            if c0 >= 1 << 31:
                c0 -= 1 << 32
            rep.require(rid, len(loads) == 1 and len(lf) == 2 and c0 == -1, want.loc, fn.name, "apply-width-request-not-helpers",
                        "_dispatch_apply_redirect starts by asking the queues for %s slots instead of da_thr_cnt - 1: when a level grants exactly one slot fewer than "
                        "asked the helper count drops to zero without the serial fall-back being taken - an empty helper list is pushed onto the root queue, no index "
                        "runs and dispatch_apply never returns" % {str(k_): v_ for k_, v_ in lf.items()}, sample={"request": "da_thr_cnt - 1"})
    af = calls_named(fn, "_dispatch_apply_f")
    ok2 = bool(af) and all(fn.must_pass(c, last)[0] for c in af)
    rep.require(rid, ok2, fn.file, fn.name, "relinquish-after-apply", "the reserved width must be relinquished after _dispatch_apply_f returns on every path", sample={"apply_f": len(af)})


def rule_AI5(rep, prog):
    rid = rep.rule("C10-AI5", "width reservation arithmetic: _dispatch_queue_try_reserve_apply_width on a queue of width w with k slots in use grants exactly "
                   "min(requested, w - k) - never a negative amount - and adds that many WIDTH_INTERVALs to dq_state (concrete evaluation over a grid of w, k, requests)",
                   floor=12)
    from dqsa import consts
    k = consts.get(["DISPATCH_QUEUE_WIDTH_FULL", "DISPATCH_QUEUE_WIDTH_INTERVAL", "DISPATCH_QUEUE_WIDTH_FULL_BIT", "DISPATCH_QUEUE_WIDTH_SHIFT"], unit="queue")
    FULL, IV, FB, SH = k["DISPATCH_QUEUE_WIDTH_FULL"], k["DISPATCH_QUEUE_WIDTH_INTERVAL"], k["DISPATCH_QUEUE_WIDTH_FULL_BIT"], k["DISPATCH_QUEUE_WIDTH_SHIFT"]
    fn = prog.fn("_dispatch_queue_try_reserve_apply_width")
    rep.saw(fn)
    wl = [l for l in fn.all_insts() if l.op == "load" and "dq_width" in prog.fields(l)]
    sl = [l for l in fn.all_insts() if l.op == "load" and "dq_state" in prog.fields(l)]
    cx = [c for c in fn.all_insts() if c.op == "cmpxchg" and "dq_state" in prog.fields(c)]
    if not sl or len(cx) != 1:
        rep.unknown(rid, "anchor vanished in _dispatch_queue_try_reserve_apply_width (dq_width loads=%d, dq_state loads=%d, cmpxchg=%d)" % (len(wl), len(sl), len(cx)))
        return
    M32 = (1 << 32) - 1
    # (1, 0): a serial queue in the chain never grants width, whatever its state word says - a thread-bound queue (the main queue serviced by a run loop) is
    # serial but never drain-locked, so its state shows one free slot
    for w, kuse in ((2, 1), (2, 0), (3, 1), (8, 3), (8, 8), (4, 4), (1, 0)):
        for da in (1, 5):
            S = ((FULL - w + kuse) << SH) | 0x1
            if kuse >= w:
                S = ((FULL - w + kuse) << SH) | 0x1          # width field reaches FULL: the FULL bit is part of the field encoding
            env = {l.id: w for l in wl}
            env.update({l.id: S for l in sl})
            env[("a", 1)] = da
            succ = [u for u in fn.users(cx[0]) if u.op == "extractvalue" and u.d.get("idx") == [1]]
            env.update({u.id: 1 for u in succ})
            env.update({u.id: S for u in fn.users(cx[0]) if u.op == "extractvalue" and u.d.get("idx") == [0]})
            news = []
            def stop(i, news=news, env=env):
                if i is cx[0]:
                    news.append(ceval(fn, i.ops[2], {k_: v_ for k_, v_ in env.items() if not isinstance(v_, tuple)}))
                return i.op == "ret"
            r, env = concrete_walk(fn, env, stop)
            v = ceval(fn, r.ops[0], {k_: v_ for k_, v_ in env.items() if not isinstance(v_, tuple)}) if r is not None and r.ops else None
            want = max(0, min(da, w - kuse)) if w > 1 else 0
            got = None if v is None else (v - (1 << 32) if v >> 31 else v)
            okn = (not news and want == 0) or (news and news[-1] is not None and news[-1] == S + want * IV)
            rep.require(rid, got == want and okn, fn.file + ":" + str(fn.d.get("line")), fn.name, "apply-width-grant:%d:%d:%d" % (w, kuse, da),
                        "_dispatch_queue_try_reserve_apply_width on a queue of width %d with %d slot(s) in use, asked for %d, grants %s (state %s), expected %d: a "
                        "negative or oversized grant corrupts the width field - the redirect then runs with a wrong helper count (an empty helper list is pushed to the "
                        "root queue and dispatch_apply never returns) or exceeds the queue's width" % (w, kuse, da, got, hex(news[-1]) if news and news[-1] is not None else None, want),
                        sample={"width": w, "in_use": kuse, "asked": da, "granted": want})


def rule_SB4(rep, prog):
    rid = rep.rule("C10-SB4", "dispatch_apply on a custom queue submits itself as a NON-barrier item (dispatch_sync_f, never a barrier variant - an apply issued from an "
                   "item already running on that concurrent queue would wait for itself); DISPATCH_APPLY_AUTO resolves the caller's hierarchy down to its root "
                   "queue by a loop over do_targetq", floor=3)
    fn = prog.fn("dispatch_apply_f")
    rep.saw(fn)
    def fn_roots(op, depth=0):
        if op[0] == "f":
            return {op[1]}
        i = fn.inst(op) if op[0] == "i" else None
        if i is None or depth > 6:
            return {None}
        if i.op == "phi":
            return set().union(*[fn_roots(v, depth + 1) for v, frm in i.ops])
        if i.op == "select":
            return fn_roots(i.ops[1], depth + 1) | fn_roots(i.ops[2], depth + 1)
        if i.op == "bitcast":
            return fn_roots(i.ops[0], depth + 1)
        return {None}
    subs, targets = [], set()
    for c in fn.all_insts():
        if c.op == "call" and c.callee:
            for o in c.ops:
                r = fn_roots(o) if o[0] in ("f", "i") else {None}
                if r and r <= {"_dispatch_apply_serial", "_dispatch_apply_redirect"}:
                    subs.append(c)
                    targets |= r
    if targets != {"_dispatch_apply_serial", "_dispatch_apply_redirect"}:
        rep.unknown(rid, "expected dispatch_apply_f to delegate to the custom queue with _dispatch_apply_serial and _dispatch_apply_redirect (found %s)" % sorted(targets))
    for c in subs:
        rep.require(rid, c.callee == "dispatch_sync_f", c.loc, fn.name, "apply-submitted-as-barrier",
                    "dispatch_apply_f submits the apply to its queue through %s instead of dispatch_sync_f: as a barrier it has to wait for every running item of "
                    "the queue - including the item that issued it, which already holds one unit of the queue's width: no iteration runs and the call never "
                    "returns" % c.callee, sample={"via": c.callee, "at": c.loc})
    # ... and the iterations run only as an item OF the queue: once the apply object is set up, every way out goes through dispatch_sync_f on the queue or
    # (root queues) _dispatch_apply_f; the worker functions are never called directly - a direct call runs the iterations beside the queue: they hold none of
    # its width, so they overlap a running barrier and a later barrier does not wait for them
    direct = [c for c in fn.all_insts() if c.op == "call" and c.callee in ("_dispatch_apply_serial", "_dispatch_apply_redirect", "_dispatch_apply_invoke",
                                                                           "_dispatch_apply_redirect_invoke")]
    setup = [st for st in fn.all_insts() if st.op == "store" and prog.fields(st) & {"da_todo", "da_iterations"}]
    if not setup:
        rep.unknown(rid, "anchor vanished: dispatch_apply_f does not initialise da_todo / da_iterations")
    for c in direct:
        rep.violation(rid, c.loc, fn.name, "apply-runs-beside-the-queue:%s" % c.callee,
                      "dispatch_apply_f calls %s directly instead of submitting it to the queue with dispatch_sync_f: the iterations run without being an item of "
                      "the queue (no width reserved), so on a concurrent queue they overlap a running barrier and a barrier submitted meanwhile does not wait for "
                      "them" % c.callee)
    for st in setup[:1]:
        good, bad = fn.must_pass(st, [c for c in fn.all_insts() if c.op == "call" and c.callee in ("dispatch_sync_f", "_dispatch_apply_f")])
        rep.require(rid, good, st.loc, fn.name, "apply-not-submitted",
                    "dispatch_apply_f can return after setting up the apply without passing dispatch_sync_f(dq, ...) or _dispatch_apply_f (%s)" % (bad,),
                    sample={"setup": st.loc})
    fn = prog.fn("_dispatch_apply_root_queue")
    rep.saw(fn)
    lds = [l for l in fn.all_insts() if l.op == "load" and "do_targetq" in prog.fields(l)]
    rep.require(rid, bool(lds) and any(fn.inst_reaches(l, l) for l in lds), fn.file + ":" + str(fn.d.get("line")), fn.name, "apply-auto-root-walk-not-a-loop",
                "_dispatch_apply_root_queue no longer walks do_targetq in a loop: from a queue two or more levels above its root DISPATCH_APPLY_AUTO stops at an "
                "intermediate queue of the caller's own hierarchy; if that queue is serial the caller already owns it and the apply traps instead of running",
                sample={"target_loads": len(lds)})


def rule_OD6(rep, prog):
    rid = rep.rule("C10-OD6", "the completion event is initialised before anybody can signal or wait on it: on every way to the point where the helpers of an apply are "
                   "pushed to the root queue (_dispatch_apply_f, reached from dispatch_apply_f and from _dispatch_apply_redirect) da_event has been initialised - by "
                   "the function that pushes, or by every one of its callers", floor=1)
    def is_init(fn, i):
        if i.op == "call" and i.callee == "_dispatch_thread_event_init":
            return True
        return i.op == "store" and prog.fields(i) & {"da_event", "dte_value"} and i.ops[0][0] == "c" and i.ops[0][1] == 0
    def covered(fn, at, seen):
        """every path from the entry of fn to `at` initialises the event, or every caller of fn does before calling it"""
        inits = [i for i in fn.all_insts() if is_init(fn, i)]
        if any(fn.dominates(i, at) for i in inits):
            return True, None
        if fn.name in seen:
            return True, None
        callers = [(g, c) for g in prog.all_functions() for c in calls_named(g, fn.name)]
        callers += [(g, st) for g in prog.all_functions() for st in g.all_insts() if st.op in ("store", "call") and any(o[0] == "f" and o[1] == fn.name for o in st.ops)
                    and not (st.op == "call" and st.callee == fn.name)]
        if not callers:
            return False, (fn, at)
        for g, c in callers:
            ok, why = covered(g, c, seen + (fn.name,))
            if not ok:
                return False, why
        return True, None
    n = 0
    for fn in prog.all_functions():
        for c in calls_named(fn, ("_dispatch_root_queue_push_inline", "_dispatch_root_queue_push")):
            if not any(prog.fields(l) & {"da_thr_cnt", "da_event", "da_dc"} for l in fn.all_insts() if l.op in ("load", "store", "getelementptr")):
                continue
            n += 1
            rep.saw(fn)
            ok, why = covered(fn, c, ())
            rep.require(rid, ok, c.loc, fn.name, "helpers-pushed-before-event-init",
                        "the helpers of a dispatch_apply are pushed in %s on a path (through %s) where da_event was never initialised: the apply context lives in a "
                        "recycled continuation, so the event word holds whatever the previous user left there - a stale `signalled` value makes the caller return "
                        "while helpers are still inside invocations, other values hang or trap" % (fn.name, why[0].name if why else "?"),
                        sample={"push": c.loc})
    if n < 1:
        rep.unknown(rid, "no push of apply helpers found")


def rule_MP7(rep, prog):
    rid = rep.rule("C10-MP7", "dispatch_apply on a custom queue gives back every helper width it reserved on the way down: once a level of the target chain grants fewer slots "
                   "than asked for (requested > granted), every way on from there - continuing with the granted width, or falling back to the serial loop when "
                   "nothing was granted - first relinquishes the surplus on the levels above; phantom non-barrier items left behind stall every later barrier", floor=1)
    fn = prog.fn("_dispatch_apply_redirect")
    rep.saw(fn)
    res_ = calls_named(fn, "_dispatch_queue_try_reserve_apply_width")
    rel = calls_named(fn, "_dispatch_queue_relinquish_width")
    if not res_ or not rel:
        rep.unknown(rid, "_dispatch_apply_redirect: reservation / relinquish not found")
        return
    n = 0
    for r in res_:
        for t in fn.all_insts():
            if t.op != "icmp" or t.d["pred"] not in ("sgt", "ugt", "slt", "ult") or ("i", r.id) not in (tuple(t.ops[0][:2]), tuple(t.ops[1][:2])):
                continue
            br = t.block.term
            if br.op != "br" or not br.ops or tuple(br.ops[0][:2]) != ("i", t.id):
                continue
            granted_is_rhs = tuple(t.ops[1][:2]) == ("i", r.id)
            short_true = (t.d["pred"] in ("sgt", "ugt")) == granted_is_rhs      # branch true <=> requested > granted
            tgt = fn.blocks[br.d["succs"][0 if short_true else 1]]
            n += 1
            class _S: pass
            s0 = _S(); s0.block = tgt; s0.idx = -1; s0.loc = t.loc
            first_rel = [c for c in rel if fn.block_dominates(tgt.id, c.block.id)]
            leaks = [x for x in paths.walk(fn, s0, lambda i: i.op == "call" and i.callee in ("_dispatch_apply_serial", "_dispatch_apply_f"), avoid=lambda i: i in first_rel)
                     if x[0] in ("hit", "exit")]
            rep.require(rid, not leaks, t.loc, fn.name, "surplus-width-not-relinquished",
                        "_dispatch_apply_redirect, after a level granted less width than requested, can go on (%s) without relinquishing the surplus reserved on the levels "
                        "above: each such apply leaves phantom non-barrier items on the upper queue and a later barrier on it waits for ever"
                        % (leaks[0][1].callee if leaks and leaks[0][0] == "hit" else "return"), sample={"test": t.loc})
    if n < 1:
        rep.unknown(rid, "_dispatch_apply_redirect: the requested > granted test was not found")


def run(rep, tier="quick", srcdir=None, only=None):
    prog, units = load(UNITS, tier, srcdir)
    rep.units = units
    want = lambda r: only is None or r in only
    if want("C10-OD1"):
        rule_OD1(rep, prog)
    if want("C10-MP2"):
        rule_MP2(rep, prog)
    if want("C10-MP3"):
        rule_MP3(rep, prog)
    if want("C10-SB4"):
        rule_SB4(rep, prog)
    if want("C10-AI5"):
        rule_AI5(rep, prog)
    if want("C10-OD6"):
        rule_OD6(rep, prog)
    if want("C10-MP7"):
        rule_MP7(rep, prog)
    if want("C05-WR3") or want("C05-OD2"):
        # dispatch_apply returns only after every invocation finished: the caller's wait on da_event (a thread event) re-validates the word after every
        # wake-up, and an apply submitted through dispatch_sync_f is run exactly once - by the caller, or remotely with dsc_func cleared (shared with C05)
        from . import C05
        from dqsa import build, ir
        if want("C05-WR3"):
            C05.rule_WR3(rep, ir.Program(build.facts_for(["shims/lock"], srcdir=srcdir)))
        if want("C05-OD2"):
            C05.rule_OD2(rep, prog, None)
    if want("C18-MP4"):
        # the invocations behave as items OF the submitting queue: helper threads run through the redirect invoke that installs that queue's
        # thread frame (shared with C18)
        from . import C18
        C18.rule_MP4(rep, prog)


MANIFEST = {
    "technique": "value-identity / dominance / path-sensitive must-pass rules over the LLVM IR of apply.c",
    "level": "the index-claim discipline (every callout index is a bounded atomic fetch-add result), the completion hand-shake, the zero-iteration "
             "return and the width bookkeeping of the redirect path are decided structurally for all helper interleavings and iteration counts; "
             "exactly-once per index rests on the uniqueness of fetch-add results (trusted)",
    "note": "non-barrier semantics on the custom queue are C04's obligations; thread-pool liveness is not decided",
}
