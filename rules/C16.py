"""C16 - cancelling a source stops its handler and runs the cancel handler once.

Decided: the shape of the cancel transition and its wakeup; that the event handler is latched only under a cancellation check
made AFTER the last client callout / unregistration step of the invoke; that the cancel handler runs only with the source
cancelled AND unregistered, takes its handler once; that re-arming requires "not cancelled"; the epoll unregister order; that
cancel_and_wait drives an inactive source. Manager-thread races are covered only through this flag/guard structure."""
from dqsa import paths, trans
from .common import *
from .sync_common import entry_point
from .C03 import root_ptr

UNITS = ["source", "event/event", "event/event_epoll", "queue"]


def flag_tests(fn, flag_calls, mask_bits):
    """icmp instructions testing (flags & M) ==/!= 0 with M containing all of mask_bits, over results of flag_calls.
    returns list of (icmp, call, polarity_set) where polarity_set True means icmp true <=> some bit set"""
    out = []
    for i in fn.all_insts():
        if i.op != "icmp" or i.d["pred"] not in ("eq", "ne") or not (i.ops[1][0] == "c" and i.ops[1][1] == 0):
            continue
        a = fn.inst(i.ops[0])
        if a is None or a.op != "and" or a.ops[1][0] != "c" or (a.ops[1][1] & mask_bits) != mask_bits:
            continue
        src = fn.inst(a.ops[0])
        seen = 0
        while src is not None and src.op in ("zext", "trunc", "phi") and seen < 4:
            seen += 1
            if src.op == "phi":
                break
            src = fn.inst(src.ops[0])
        out.append((i, src, i.d["pred"] == "ne"))
    return out


def rule_TR1(rep, prog, k):
    rid = rep.rule("C16-TR1", "dispatch_source_cancel: retain, set DSF_CANCELED with an atomic fetch-or, and wake with MAKE_DIRTY|CONSUME_2 exactly when the bit "
                   "was newly set (otherwise drop the references) - evaluated concretely for every combination of DELETED / RELEASED / CANCEL_WAITER in the "
                   "original flags", floor=10)
    fn = prog.fn("dispatch_source_cancel")
    rep.saw(fn)
    setc = [c for c in calls_named(fn, "_dispatch_queue_atomic_flags_set_orig")] + \
           [i for i in fn.all_insts() if i.op == "atomicrmw" and i.d["rmw"] == "or" and "dq_atomic_flags" in prog.fields(i)]
    ret = calls_named(fn, ("_dispatch_retain_2", "_dispatch_retain_2_unsafe"))
    wk = icalls_slot(prog, fn, "dq_wakeup") + calls_named(fn, "_dispatch_source_wakeup")
    rel = calls_named(fn, ("_dispatch_release_2_tailcall", "_dispatch_release_2"))
    ok = bool(setc) and bool(ret) and bool(wk) and bool(rel) and all(any(fn.dominates(r, s) for r in ret) for s in setc)
    if ok and setc[0].op == "call":
        ok = (arg_const(fn, setc[0], 1) or 0) & k["DSF_CANCELED"] != 0
    rep.require(rid, ok, fn.file, fn.name, "cancel-shape", "dispatch_source_cancel must retain_2, then atomically OR DSF_CANCELED, then wake or release",
                sample={"set": len(setc), "retain": len(ret), "wakeups": len(wk)})
    need = k["DISPATCH_WAKEUP_MAKE_DIRTY"] | k["DISPATCH_WAKEUP_CONSUME_2"]
    for w in wk:
        fl = arg_const(fn, w, 2)
        rep.require(rid, fl is not None and (fl & need) == need, w.loc, fn.name, "cancel-wakeup-flags",
                    "dispatch_source_cancel wakes the source with flags %s; it needs MAKE_DIRTY (a drainer that already sampled the flags must re-evaluate, or the "
                    "cancellation is lost and the cancel handler never runs) and CONSUME_2" % (hex(fl) if fl is not None else None), sample={"flags": fl})


    # "exactly when the bit was newly set": evaluated for every combination of the neighbouring flags in the original value
    if setc and wk:
        other = [k["DSF_DELETED"], k["DQF_RELEASED"], k["DSF_CANCEL_WAITER"]]
        for m in range(1 << (len(other) + 1)):
            orig = (k["DSF_CANCELED"] if m & 1 else 0)
            for j, b in enumerate(other):
                if m & (2 << j):
                    orig |= b
            hit, _ = concrete_walk(fn, {setc[0].id: orig}, lambda i: i in wk or i in rel)
            if hit is None:
                rep.unknown(rid, "dispatch_source_cancel: outcome for original flags %#x is not determined by the flags alone" % orig)
                continue
            woke = hit in wk
            rep.require(rid, woke == (not orig & k["DSF_CANCELED"]), hit.loc, fn.name, "cancel-wakeup-decision:%#x" % orig,
                        "dispatch_source_cancel with original flags %#x %s: the first cancel of a source - whatever else already happened to it (the library may have "
                        "unregistered it on its own after a hang-up or a failed registration, DSF_DELETED) - must wake it so that the cancel handler runs and the "
                        "handlers are disposed; a repeated cancel must not" % (orig, "only drops its references" if not woke else "wakes the source again"),
                        sample={"orig": orig, "woke": woke})


def rule_MP2(rep, prog, k):
    rid = rep.rule("C16-MP2", "_dispatch_source_invoke2: the event handler is latched only under a (CANCELED|RELEASED)==0 test of flags re-read after the last "
                   "registration callout / unregistration; the cancel handler runs only with CANCELED|RELEASED and DELETED; re-arming requires not cancelled", floor=3)
    fn = prog.fn("_dispatch_source_invoke2")
    rep.saw(fn)
    CAN = k["DSF_CANCELED"]
    DEL = k["DSF_DELETED"]
    fl = calls_named(fn, "_dispatch_queue_atomic_flags")
    L = calls_named(fn, "_dispatch_source_latch_and_call")
    client = calls_named(fn, ("_dispatch_source_registration_callout", "_dispatch_source_refs_unregister", "_dispatch_timer_unote_configure", "_dispatch_source_install"))
    if not fl or not L:
        rep.unknown(rid, "anchor vanished in _dispatch_source_invoke2")
        return
    tests = flag_tests(fn, fl, CAN)
    for l in L:
        cx = paths.dom_ctx(fn, l)
        good = False
        for icmp, src, pol in tests:
            tv = cx.truth.get(icmp.id)
            if tv is None or tv == pol:      # unknown, or "some bit set"
                continue
            # the flags value tested must come from a load that no client callout can follow before the latch
            if src is None or src.op != "call":
                continue
            stale = any(fn.inst_reaches(src, c) and fn.inst_reaches(c, l) for c in client)
            if not stale:
                good = True
        rep.require(rid, good, l.loc, fn.name, "latch-without-fresh-cancel-check",
                    "_dispatch_source_invoke2 latches the event handler without a (CANCELED|RELEASED)==0 test on flags read after the registration handler / "
                    "unregistration steps: a dispatch_source_cancel() issued from the registration handler is missed and the event handler runs once more after "
                    "cancellation", sample={"latch": l.loc, "flag_loads": len(fl)})
    cc = calls_named(fn, "_dispatch_source_cancel_callout")
    for c in cc:
        cx = paths.dom_ctx(fn, c)
        can = any(cx.truth.get(i.id) == pol for i, s, pol in flag_tests(fn, fl, CAN))
        dele = any(cx.truth.get(i.id) == pol for i, s, pol in flag_tests(fn, fl, DEL) if not (fn.inst(i.ops[0]).ops[1][1] & CAN))
        rep.require(rid, can and dele, c.loc, fn.name, "cancel-callout-guard",
                    "_dispatch_source_invoke2 runs the cancellation callout without having established CANCELED|RELEASED and DELETED (the kernel/epoll registration "
                    "must be gone first)", sample={"canceled": can, "deleted": dele})
    rs = calls_named(fn, "_dispatch_unote_resume")
    for r in rs:
        cx = paths.dom_ctx(fn, r)
        notc = any(cx.truth.get(i.id) == (not pol) for i, s, pol in flag_tests(fn, fl, CAN))
        rep.require(rid, notc, r.loc, fn.name, "rearm-after-cancel", "_dispatch_source_invoke2 re-arms the source without a not-cancelled test", sample={"rearm": r.loc})
    if not cc or not rs:
        rep.unknown(rid, "cancel callout / rearm call not found")
    fn = prog.fn("_dispatch_source_cancel_callout")
    rep.saw(fn)
    take = calls_named(fn, "_dispatch_source_handler_take") + [i for i in fn.all_insts() if i.op == "atomicrmw" and i.d["rmw"] == "xchg" and "ds_handler" in prog.fields(i)]
    pops = calls_named(fn, ("_dispatch_continuation_pop", "_dispatch_continuation_pop_inline"))
    rep.require(rid, len(take) >= 1 and len(pops) >= 1 and all(any(fn.dominates(t, p) for t in take) for p in pops), fn.file, fn.name, "cancel-handler-taken-once",
                "_dispatch_source_cancel_callout must take the cancel handler out of the source (exchange) before invoking it, so it can run only once",
                sample={"take": len(take), "invoke": len(pops)})


def rule_OD3(rep, prog, k):
    rid = rep.rule("C16-OD3", "unregistration order: the epoll registration is removed (epoll_ctl DEL/MOD) before the unote is marked unregistered; "
                   "finalisation sets DELETED once (crash if already set), wakes cancel waiters and drops the registration reference", floor=18)
    fn = prog.fn("_dispatch_unote_unregister_muxed")
    rep.saw(fn)
    ep = calls_named(fn, ("epoll_ctl", "_dispatch_epoll_update", "_dispatch_unote_muxnote_disarm", "_dispatch_epoll_muxnote_update")) + \
         [c for c in fn.all_insts() if c.op == "call" and c.callee and "epoll" in c.callee]
    ss = [c for c in fn.all_insts() if c.op == "call" and c.callee and "_dispatch_unote_state_set" in c.callee] + \
         [i for i in fn.all_insts() if i.op == "store" and "du_state" in prog.fields(i)]
    ok = bool(ep) and bool(ss) and not any(fn.inst_reaches(s, e) for s in ss for e in ep)
    rep.require(rid, ok, fn.file, fn.name, "state-unregistered-before-epoll",
                "_dispatch_unote_unregister_muxed marks the unote unregistered before (or without) removing it from epoll: an event can still be delivered "
                "after the cancel handler ran", sample={"epoll_calls": len(ep), "state_sets": len(ss)})
    # the descriptor leaves the epoll set exactly when the last source on it goes away - whether or not that source's event was armed at the time:
    # concrete evaluation over (readers left, writers left, disarmed mask)
    ke = consts.get(["EPOLLIN", "EPOLLOUT", "EPOLL_CTL_DEL"], unit="event/event_epoll", includes=("sys/epoll.h",))
    IN, OUT, DEL = ke["EPOLLIN"], ke["EPOLLOUT"], ke["EPOLL_CTL_DEL"]
    def head_loads(field):
        return [l for l in fn.all_insts() if l.op == "load" and field in prog.fields(l) and "lh_first" in prog.fields(l)]
    rl_, wl_ = head_loads("dmn_readers_head"), head_loads("dmn_writers_head")
    ev = [l for l in fn.all_insts() if l.op == "load" and "dmn_events" in prog.fields(l)]
    dis = [l for l in fn.all_insts() if l.op == "load" and "dmn_disarmed_events" in prog.fields(l)]
    dels = [c for c in fn.all_insts() if c.op == "call" and c.callee == "epoll_ctl"]
    if not rl_ or not wl_ or not ev or not dis or not dels:
        rep.unknown(rid, "anchor vanished in _dispatch_unote_unregister_muxed (reader/writer list heads %d/%d, dmn_events loads %d, disarmed loads %d, epoll_ctl %d)"
                    % (len(rl_), len(wl_), len(ev), len(dis), len(dels)))
    else:
        E0 = IN | OUT | 0x40000018
        for readers in (0, 1):
            for writers in (0, 1):
                for disarmed in (0, IN, OUT, IN | OUT):
                    env = {l.id: readers * 0x1000 for l in rl_}
                    env.update({l.id: writers * 0x2000 for l in wl_})
                    env.update({l.id: E0 for l in ev})
                    env.update({l.id: disarmed for l in dis})
                    seen = []
                    def rec(i, seen=seen):
                        if i.op == "call" and i.callee in ("epoll_ctl", "_dispatch_epoll_update"):
                            seen.append(i)
                        return False
                    concrete_walk_any(fn, env, rec)
                    deleted = any(c.callee == "epoll_ctl" and arg_const(fn, c, 1) == DEL for c in seen)
                    want = not readers and not writers
                    rep.require(rid, deleted == want, dels[0].loc, fn.name, "epoll-del-iff-last-source:%d:%d:%d" % (readers, writers, disarmed),
                                "_dispatch_unote_unregister_muxed with %s reader(s) and %s writer(s) left on the descriptor and disarmed mask %#x %s EPOLL_CTL_DEL: the fd "
                                "must leave the epoll set exactly when the last source on it is unregistered - armed or not. Otherwise the cancel handler runs while "
                                "the library still monitors the fd, the stale registration outlives close(), and a later source on the same fd number never fires"
                                % ("some" if readers else "no", "some" if writers else "no", disarmed, "issues" if deleted else "does not issue"),
                                sample={"readers": readers, "writers": writers, "disarmed": disarmed, "del": want})
    # ... and it always reports "done": for a muxed unote `false` means "deferred, an event will finish it" - nothing will (the registration is gone)
    fnu = prog.fn("_dispatch_unote_unregister_muxed")
    rets = [b.term for b in fnu.blocks if b.term.op == "ret" and b.term.ops]
    okr = bool(rets)
    for r_ in rets:
        vals = []
        def coll(o, depth=0):
            i_ = fnu.inst(o) if o[0] == "i" else None
            if i_ is not None and i_.op == "phi" and depth < 4:
                for v_, frm in i_.ops:
                    coll(v_, depth + 1)
            else:
                vals.append(o)
        coll(r_.ops[0])
        okr = okr and all(v_[0] == "c" and v_[1] == 1 for v_ in vals)
    rep.require(rid, okr, rets[0].loc if rets else fnu.file, fnu.name, "muxed-unregister-reports-deferred",
                "_dispatch_unote_unregister_muxed can return something other than true: the epoll back end completes every unregistration synchronously, and `false` "
                "tells the source to wait for an event (DSF_NEEDS_EVENT) that can no longer arrive - a later cancel is swallowed, the cancel handler never runs and "
                "dispatch_source_cancel_and_wait never returns", sample={"returns": len(rets)})
    fn = prog.fn("_dispatch_source_refs_finalize_unregistration")
    rep.saw(fn)
    sc = calls_named(fn, "_dispatch_queue_atomic_flags_set_and_clear_orig")
    wk = calls_named(fn, "_dispatch_wake_by_address")
    rl = calls_named(fn, ("_dispatch_release_tailcall", "_dispatch_release"))
    ok = len(sc) == 1 and ((arg_const(fn, sc[0], 1) or 0) & k["DSF_DELETED"]) and bool(wk) and bool(rl)
    rep.require(rid, bool(ok), fn.file, fn.name, "finalize-shape",
                "_dispatch_source_refs_finalize_unregistration must atomically set DSF_DELETED, wake cancel waiters and release the registration reference",
                sample={"set_deleted": len(sc), "wake": len(wk), "release": len(rl)})


def rule_TB8(rep, srcdir, tier):
    import re, os
    rid = rep.rule("C16-TB8", "the source / queue flag space (DQF_* / DSF_* in dq_atomic_flags) assigns every flag its own single bit: a collision makes one state mean "
                   "another (DSF_CANCEL_WAITER read as DSF_NEEDS_EVENT: the wake-up of dispatch_source_cancel_and_wait is taken for a spurious one and dropped); the "
                   "finaliser's wake-up releases ALL waiting cancel_and_wait callers", floor=10)
    from dqsa import build as _b, ir as _ir
    src = srcdir or os.path.join(_b.REPO, "src")
    try:
        txt = open(os.path.join(src, "queue_internal.h")).read()
    except OSError:
        rep.unknown(rid, "anchor vanished: queue_internal.h not readable")
        return
    m = re.search(r"DISPATCH_ENUM\(dispatch_queue_flags,(.*?)\n\);", txt, re.S)
    names = sorted(set(re.findall(r"\b(D[QS]F_[A-Z0-9_]+)\s*=", m.group(1)))) if m else []
    names = [n_ for n_ in names if "MASK" not in n_ and not n_.endswith("_NONE")]
    if len(names) < 10:
        rep.unknown(rid, "fewer than 10 queue / source flags found (%d)" % len(names))
        return
    vals = consts.get(names, srcdir=srcdir, unit="source")
    for n_, v in sorted(vals.items()):
        clash = sorted(m_ for m_, w in vals.items() if m_ != n_ and (w & v))
        rep.require(rid, v != 0 and (v & (v - 1)) == 0 and not clash, "src/queue_internal.h", n_, "flag-collision:%s" % n_,
                    "%s = %#x %s" % (n_, v, ("shares a bit with %s" % ", ".join(clash)) if clash else "is not a single bit"), sample={"flag": n_, "value": hex(v)})
    from .sync_common import rule_wake_all
    pl = _ir.Program(_b.facts_for(["shims/lock"], srcdir=srcdir))
    rule_wake_all(rep, rid, pl, "_dispatch_wake_by_address")


def rule_MP4(rep, prog, k):
    rid = rep.rule("C16-MP4", "dispatch_source_cancel_and_wait: before blocking for DELETED the source was either unregistered in place or woken AND activated "
                   "(an inactive source is otherwise never invoked and the wait never ends); it blocks only while DELETED is clear and re-reads the flags", floor=2)
    fn = prog.fn("dispatch_source_cancel_and_wait")
    rep.saw(fn)
    wait = calls_named(fn, "_dispatch_wait_on_address")
    act = calls_named(fn, "dispatch_activate")
    unr = calls_named(fn, "_dispatch_source_refs_unregister")
    wk = icalls_slot(prog, fn, "dq_wakeup") + calls_named(fn, "_dispatch_source_wakeup")
    if not wait:
        rep.unknown(rid, "no _dispatch_wait_on_address in dispatch_source_cancel_and_wait")
        return
    BC = consts.get(["DISPATCH_WAKEUP_BARRIER_COMPLETE"])["DISPATCH_WAKEUP_BARRIER_COMPLETE"]
    inplace = [w for w in wk if (arg_const(fn, w, 2) or 0) & BC]   # only reached with the drain lock taken on a runnable (hence active) source
    res = paths.walk(fn, entry_point(fn), lambda i: i in wait, avoid=lambda i: i in act or i in unr or i in inplace, bound=200000)
    hits = [r for r in res if r[0] == "hit"]
    rep.require(rid, not hits, wait[0].loc, fn.name, "wait-without-activate",
                "dispatch_source_cancel_and_wait can block waiting for DSF_DELETED on a path that neither unregistered the source in place nor called "
                "dispatch_activate(): for a source that was never activated nothing will ever process the cancellation and the call hangs (path %s)"
                % (hits[0][3] if hits else None), sample={"wait": wait[0].loc, "activate_calls": len(act)})
    # exactly once: the in-place unregistration under the freshly taken drain lock is guarded by a DELETED test made AFTER the lock was taken
    # (the enqueued source may have been invoked and have completed the deletion between the cancel flag and the try-lock)
    cas = [i for i in fn.all_insts() if i.op == "cmpxchg" and (prog.fields(i) & DQ_STATE)]
    dtests = flag_tests(fn, calls_named(fn, "_dispatch_queue_atomic_flags"), k["DSF_DELETED"])
    for u in unr:
        cx = paths.dom_ctx(fn, u)
        ok = False
        for t, src, pol in dtests:
            if cx.truth.get(t.id) == (not pol) and src is not None and src.op == "call" and any(fn.dominates(c_, src) or fn.inst_reaches(c_, src) for c_ in cas):
                ok = True
        rep.require(rid, ok and bool(cas), u.loc, fn.name, "inplace-unregister-without-deleted-recheck",
                    "dispatch_source_cancel_and_wait unregisters the source in place without re-checking DSF_DELETED after it took the drain lock: when the "
                    "already enqueued source was invoked and finished the deletion in that window the unregistration is finalised a second time (internal "
                    "crash 'Source finalized twice' / the cancel handler conditions are evaluated on a finalised source)", sample={"call": u.loc, "deleted_tests": len(dtests)})
    # the value the kernel wait compares the flag word with has DELETED clear: it is the very value on which DELETED was just tested (plus the waiter bit
    # installed by a compare-exchange FROM that value). A value obtained afterwards by an unconditional fetch-or may already contain DELETED - the finaliser
    # ran in between, saw no waiter bit and woke nobody - and the wait then sleeps on a word that will never change again
    allt = flag_tests(fn, [], k["DSF_DELETED"])
    def strip(op, cx):
        for _ in range(8):
            op = cx.resolve(op)
            i = fn.inst(op) if op[0] == "i" else None
            if i is None:
                return op
            if i.op == "or" and i.ops[1][0] == "c":
                op = i.ops[0]
            elif i.op in ("zext", "trunc"):
                op = i.ops[0]
            elif i.op == "select":
                c = cx.cond(i.ops[0])
                if c is None:
                    return op
                op = i.ops[1] if c else i.ops[2]
            else:
                return op
        return op
    for w in wait:
        free = [r for r in paths.walk(fn, entry_point(fn), lambda i: i is w, avoid=lambda i: any(i is t for t, s_, p_ in allt), bound=200000) if r[0] == "hit"]
        rep.require(rid, not free and bool(allt), w.loc, fn.name, "wait-without-deleted-test",
                    "dispatch_source_cancel_and_wait can reach the kernel wait without having tested DSF_DELETED", sample={"tests": len(allt)})
        for t, src_, pol in allt:
            a = fn.inst(t.ops[0])
            for kind, inst, cx, path in paths.walk(fn, t, lambda i: i is w, avoid=lambda i: any(i is t2 for t2, s2, p2 in allt if t2 is not t)):
                if kind != "hit":
                    continue
                tested = tuple(strip(a.ops[0], cx)[:2])
                waited = tuple(strip(w.ops[1], cx)[:2])
                clear = cx.truth.get(t.id) == (not pol)
                rep.require(rid, clear and tested == waited, w.loc, fn.name, "wait-on-untested-flags",
                            "dispatch_source_cancel_and_wait blocks comparing dq_atomic_flags with a value (%s) that is not the one on which DSF_DELETED was just found "
                            "clear (%s) (path %s): e.g. the result of an unconditional fetch-or of the waiter bit - if the unregistration was finalised in between, the "
                            "waiter bit arrives after the only wake-up was decided and the call sleeps for ever on a fully cancelled source"
                            % (waited, tested, path), sample={"wait": w.loc})
    from .sync_common import rule_recheck_after_wait
    rule_recheck_after_wait(rep, rid, prog, "dispatch_source_cancel_and_wait", "dq_atomic_flags", ("_dispatch_wait_on_address",), need_acquire=False,
                            reload_ops=("load", "cmpxchg", "atomicrmw"), reload_calls=("_dispatch_queue_atomic_flags",))


def rule_MP10(rep, prog, k):
    rid = rep.rule("C16-MP10", "_dispatch_source_registration_callout consumes the registration handler on EVERY path (takes it out of ds_handler[], then either disposes of "
                   "it - cancelled source - or calls it): the invoke and wakeup functions route a source between its target queue and the manager by testing whether "
                   "that handler is still present, before they look at cancellation", floor=2)
    fn = prog.fn("_dispatch_source_registration_callout")
    rep.saw(fn)
    takes = [c for c in calls_named(fn, "_dispatch_source_handler_take")] + \
            [i for i in fn.all_insts() if i.op == "atomicrmw" and i.d.get("rmw") == "xchg" and "ds_handler" in prog.fields(i)]
    first = next(iter(fn.all_insts()))
    rets = [i for i in fn.all_insts() if i.op == "ret"]
    missing = [r for r in rets if first not in takes and fn.inst_reaches(first, r, avoid_insts=takes)]
    rep.require(rid, bool(takes) and not missing, (missing[0].loc if missing else first.loc), fn.name, "registration-handler-left-in-place",
                "_dispatch_source_registration_callout can return without having taken the registration handler out of the source: for a source cancelled before the "
                "handler was delivered, invoke (on the target queue: `go to the manager to unregister`) and invoke (on the manager: `registration handler pending, go "
                "to the target queue`) bounce the source forever - it is never unregistered, DSF_DELETED is never set and the cancel handler never runs",
                sample={"takes": [t.loc for t in takes]})
    for t in takes:
        uses = [c for c in fn.all_insts() if c.op == "call" and c.callee in ("_dispatch_source_handler_dispose", "_dispatch_continuation_pop", "_dispatch_continuation_free")
                and any(tuple(root_ptr(fn, o)[:2]) == ("i", t.id) for o in c.ops)]
        leaked = [r for r in rets if fn.inst_reaches(t, r, avoid_insts=uses)]
        rep.require(rid, bool(uses) and not leaked, t.loc, fn.name, "registration-handler-leaked",
                    "the registration handler taken at %s is neither called nor disposed of on some path" % t.loc, sample={"consumers": [u.loc for u in uses]})


def rule_MP11(rep, prog, k, srcdir):
    rid = rep.rule("C16-MP11", "dispatch_source_cancel_and_wait leaves the teardown to the manager thread (registers as CANCEL_WAITER) for every source whose kernel "
                   "registration the manager owns: evaluated over the unote's type bits, the decision depends on BOTH the timer bit and the direct bit (on this "
                   "back end read / write / signal sources are not direct), and is forced by NEEDS_EVENT; only a deleted source skips it", floor=3)
    fn = prog.fn("dispatch_source_cancel_and_wait")
    rep.saw(fn)
    kk = consts.get(["DSF_NEEDS_EVENT"], srcdir=srcdir, unit="source")
    fl = [l for l in fn.all_insts() if l.op == "load" and "dq_atomic_flags" in prog.fields(l)]
    ty = [l for l in fn.all_insts() if l.op == "load" and "du_is_direct" in prog.fields(l)]
    cx = [c for c in fn.all_insts() if c.op == "cmpxchg" and "dq_atomic_flags" in prog.fields(c)]
    if not fl or not ty or not cx:
        rep.unknown(rid, "dispatch_source_cancel_and_wait: flag loads / type byte / CAS not found (%d/%d/%d)" % (len(fl), len(ty), len(cx)))
        return
    first_cx = min(cx, key=lambda c: c.id)
    def waiter(dqf, tb):
        env = {l.id: dqf for l in fl}
        env.update({l.id: tb for l in ty})
        hit, env2 = concrete_walk_any(fn, env, lambda i: i is first_cx or i.op == "ret")
        if hit is None or hit.op != "cmpxchg":
            return None
        v = ceval(fn, hit.ops[2], {k_: v_ for k_, v_ in env2.items() if not isinstance(v_, tuple)})
        return None if v is None else bool(v & k["DSF_CANCEL_WAITER"])
    base = {tb: waiter(0, tb) for tb in range(16)}
    if any(v is None for v in base.values()):
        rep.unknown(rid, "dispatch_source_cancel_and_wait: the CANCEL_WAITER decision could not be evaluated")
        return
    infl = [b for b in range(4) if any(base[tb] != base[tb ^ (1 << b)] for tb in range(16))]
    rep.require(rid, len(infl) >= 2, first_cx.loc, fn.name, "waiter-decision-ignores-a-type-bit",
                "in dispatch_source_cancel_and_wait the decision to wait for the manager depends on %d bit(s) of the unote's type byte; it must look at both `timer` and "
                "`direct`: on this back end fd and signal sources are not direct, and taking the inline try-lock path for them makes the CALLING thread unregister the "
                "source and free the manager's per-descriptor bookkeeping unsynchronised with the manager thread (or finish the cancellation before the manager has "
                "installed the source, which then registers it after the cancel completed)" % len(infl), sample={"influencing_bits": infl})
    rep.require(rid, all(waiter(kk["DSF_NEEDS_EVENT"], tb) for tb in range(16)), first_cx.loc, fn.name, "needs-event-does-not-force-waiter",
                "with DSF_NEEDS_EVENT set dispatch_source_cancel_and_wait must always register as a waiter")
    rep.require(rid, not any(waiter(k["DSF_DELETED"], tb) for tb in range(16)), first_cx.loc, fn.name, "deleted-source-waits",
                "an already deleted source has nothing left to wait for: dispatch_source_cancel_and_wait must not register as a waiter")


def rule_MP12(rep, prog, k):
    rid = rep.rule("C16-MP12", "a handler set on a source is always installed, also after the source was cancelled: every return of _dispatch_source_set_handler passes "
                   "through the installation of the freshly allocated continuation (in place before activation, or through the barrier on the source afterwards) - a "
                   "cancel handler registered between dispatch_source_cancel and the teardown is the one that must run, exactly once", floor=1)
    fn = prog.fn("_dispatch_source_set_handler")
    rep.saw(fn)
    inst = calls_named(fn, ("_dispatch_source_handler_replace", "_dispatch_barrier_trysync_or_async_f", "_dispatch_source_set_handler_slow"))
    first = next(iter(fn.all_insts()))
    rets = [i for i in fn.all_insts() if i.op == "ret"]
    if not inst or not rets:
        rep.unknown(rid, "_dispatch_source_set_handler: installation calls not found")
        return
    bare = [r for r in rets if fn.inst_reaches(first, r, avoid_insts=inst)]
    rep.require(rid, not bare, (bare[0].loc if bare else inst[0].loc), fn.name, "handler-dropped-instead-of-installed",
                "_dispatch_source_set_handler can return without installing the handler it was given (for a source that is already cancelled it is disposed of): a cancel "
                "handler set after dispatch_source_cancel() but before the teardown reaches the target queue never runs - or a stale, earlier one runs in its place",
                sample={"installs": len(inst)})


def rule_MP5(rep, prog, k):
    rid = rep.rule("C16-MP5", "cancelled before activation converges to the same final state: _dispatch_source_activate marks the source installed before it "
                   "finalises the unregistration (DELETED implies installed), so the invoke never registers the descriptor of an already finalised source", floor=2)
    fn = prog.fn("_dispatch_source_activate")
    rep.saw(fn)
    fin = calls_named(fn, "_dispatch_source_refs_finalize_unregistration")
    if not fin:
        rep.unknown(rid, "no finalize_unregistration call in _dispatch_source_activate")
        return
    sets = []
    for st in fn.all_insts():
        if st.op == "store" and "ds_is_installed" in prog.fields(st):
            v = fn.inst(st.ops[0])
            if (v is not None and v.op == "or" and v.ops[1][0] == "c" and v.ops[1][1]) or (st.ops[0][0] == "c" and st.ops[0][1]):
                sets.append(st)
    for c in fin:
        ok = any(fn.dominates(st, c) for st in sets)
        rep.require(rid, ok, c.loc, fn.name, "finalised-without-installed-mark",
                    "_dispatch_source_activate finalises the unregistration of a source cancelled before activation (sets DELETED) without marking it "
                    "installed: wakeup and invoke still see 'not installed', take it to the manager queue and register its descriptor AFTER the cancel "
                    "handler was allowed to run; the registration is never removed", sample={"call": c.loc, "installed_stores": len(sets)})
    # sibling: the install in the invoke is keyed on that mark
    fn = prog.fn("_dispatch_source_invoke2")
    rep.saw(fn)
    inst = calls_named(fn, "_dispatch_source_install")
    if not inst:
        rep.unknown(rid, "no _dispatch_source_install call in _dispatch_source_invoke2")
        return
    for c in inst:
        cx = paths.dom_ctx(fn, c)
        ok = False
        for cid, tv in cx.truth.items():
            t = fn.insts[cid]
            if t.op == "icmp" and t.d["pred"] in ("eq", "ne"):
                a = fn.inst(t.ops[0])
                while a is not None and a.op in ("and", "trunc", "zext", "lshr"):
                    a = fn.inst(a.ops[0])
                if a is not None and a.op == "load" and "ds_is_installed" in prog.fields(a):
                    ok = True
        rep.require(rid, ok, c.loc, fn.name, "install-not-keyed-on-installed-mark",
                    "_dispatch_source_invoke2 installs the source without a dominating test of ds_is_installed", sample={"call": c.loc})


def rule_MP6(rep, prog, k):
    rid = rep.rule("C16-MP6", "on the target queue: in _dispatch_source_invoke2 the cancel handler callout is reached only with dq == ds->do_targetq established, or "
                   "with the cancel handler tested absent; the event and registration callouts only with dq == ds->do_targetq", floor=3)
    kk = consts.get(["DS_CANCEL_HANDLER"], unit="source")
    fn = prog.fn("_dispatch_source_invoke2")
    rep.saw(fn)
    cur = calls_named(fn, "_dispatch_queue_get_current")
    def on_tq(cx):
        for cid, tv in cx.truth.items():
            t = fn.insts[cid]
            if t.op == "icmp" and t.d["pred"] in ("eq", "ne") and tv == (t.d["pred"] == "eq"):
                a, b = fn.inst(t.ops[0]), fn.inst(t.ops[1])
                for x, y in ((a, b), (b, a)):
                    if x is not None and y is not None and x in cur and y.op == "load" and "do_targetq" in prog.fields(y) and root_ptr(fn, y.d["ptr"]["base"]) == ("a", 0):
                        return True
        return False
    def no_cancel_handler(cx):
        for cid, tv in cx.truth.items():
            t = fn.insts[cid]
            if t.op == "icmp" and t.d["pred"] in ("eq", "ne") and t.ops[1][0] == "n" and tv == (t.d["pred"] == "eq"):
                g = fn.inst(t.ops[0])
                if g is not None and g.op == "call" and g.callee == "_dispatch_source_get_handler" and g.ops[1][0] == "c" and g.ops[1][1] == kk["DS_CANCEL_HANDLER"]:
                    return True
        return False
    idom, _ = fn.idom()
    sites = [(c, True) for c in calls_named(fn, "_dispatch_source_cancel_callout")] + \
            [(c, False) for c in calls_named(fn, ("_dispatch_source_latch_and_call", "_dispatch_source_registration_callout"))]
    if len(sites) < 3 or not cur:
        rep.unknown(rid, "anchor vanished in _dispatch_source_invoke2: callouts=%d current-queue reads=%d" % (len(sites), len(cur)))
        return
    for c, is_cancel in sites:
        # sound for any dominator: if every path from a dominating block to the callout establishes the fact, it holds at the callout
        sb = c.block.id
        bad, np_ = None, 0
        for level in range(4):
            sb = idom.get(sb, sb)
            start = fn.blocks[sb].insts[0]
            ctx = paths.dom_ctx(fn, start)
            bad, np_ = None, 0
            try:
                for kind, inst, c2, path in paths.walk(fn, start, lambda i: i is c, ctx=ctx, bound=4000):
                    if kind != "hit":
                        continue
                    np_ += 1
                    if not (on_tq(c2) or (is_cancel and no_cancel_handler(c2))):
                        bad = path
            except AnalysisBroken:
                break
            if bad is None and np_ >= 1:
                break
        rep.require(rid, bad is None and np_ >= 1, c.loc, fn.name, "callout-off-target-queue:%s" % c.callee,
                    "_dispatch_source_invoke2 reaches %s on a path (%s) that neither established dq == ds->do_targetq nor (for the cancel handler) that no "
                    "cancel handler is set: the handler runs on the manager thread, unserialised with the source's target queue" % (c.callee, bad),
                    sample={"callout": c.callee, "paths": np_})


def run(rep, tier="quick", srcdir=None, only=None):
    prog, units = load(UNITS, tier, srcdir)
    rep.units = units
    k = consts.get(["DSF_CANCELED", "DSF_DELETED", "DQF_RELEASED", "DSF_CANCEL_WAITER", "DISPATCH_WAKEUP_MAKE_DIRTY", "DISPATCH_WAKEUP_CONSUME_2"], srcdir=srcdir, unit="source")
    want = lambda r: only is None or r in only
    if want("C16-TR1"):
        rule_TR1(rep, prog, k)
    if want("C16-MP2"):
        rule_MP2(rep, prog, k)
    if want("C16-OD3"):
        rule_OD3(rep, prog, k)
    if want("C16-MP4"):
        rule_MP4(rep, prog, k)
    if want("C16-TB8"):
        rule_TB8(rep, srcdir, tier)
    if want("C16-MP5"):
        rule_MP5(rep, prog, k)
    if want("C16-MP6"):
        rule_MP6(rep, prog, k)
    if want("C16-MP10"):
        rule_MP10(rep, prog, k)
    if want("C16-MP11"):
        rule_MP11(rep, prog, k, srcdir)
    if want("C16-MP12"):
        rule_MP12(rep, prog, k)
    if want("C17-OD15"):
        # a source whose registration failed is DELETED and marked installed in one step: otherwise the cancel wake-up tries to install it a second time
        # instead of delivering the cancel handler (shared with C17)
        from . import C17
        C17.rule_OD15(rep, prog)
    if want("C06-AI11"):
        # a cancelled source pushed to the manager queue and suspended before the manager pops it: the pop must clear ENQUEUED_ON_MGR, or no later wake-up
        # sends it to the manager again and it is never unregistered / its cancel handler never runs (shared with C06)
        from . import C06
        C06.rule_AI11(rep, prog, Q(srcdir))
    if want("C11-MP8"):
        # the uninstall of a cancelled, still armed timer happens on the manager queue only (shared with C11)
        from . import C11
        C11.rule_MP8(rep, prog)
    if want("C01-TR1"):
        # dispatch_source_cancel on a source that is drain-locked at that moment (a handler setter, cancel_and_wait) only marks it DIRTY and relies on the
        # lock holder's unlock to notice: no unlock may commit with DIRTY possibly set unless it re-enqueues (shared with C01)
        from . import C01
        from dqsa import trans
        ex = trans.Extractor(prog, tier)
        ex.compute_argbits()
        ts = []
        for f_ in sorted(prog.all_functions(), key=lambda f: f.name):
            ts.extend(ex.transitions(f_, DQ_STATE, plain=True))
        C01.rule_TR1(rep, prog, ex, Q(srcdir), ts)


MANIFEST = {
    "technique": "dominating-condition (edge dominance) and reachability rules over the LLVM IR of source.c / event.c with staleness tracking of flag loads + concrete evaluation of the epoll unregistration over (readers left, writers left, disarmed mask) + value identity between the tested and the waited-on flags word + concrete evaluation of the cancel wake-up decision over the original-flags grid, must-pass consumption of the registration handler",
    "level": "the cancel transition and its wakeup flags, the freshness of the cancellation check guarding the event-handler latch, the guards of the cancel "
             "callout and of re-arming, the unregister ordering and the activation obligation of cancel_and_wait are decided structurally; races with event "
             "delivery on the manager thread are covered only through this flag/guard structure, not as an exhaustive interleaving argument",
    "note": "epoll back end only; relies on C01/C15 for wakeups actually reaching the drainer",
}
