"""C05 - synchronous submission returns after completion; dispatch orders memory.

Decided: (MO1) the C11 memory order of every hand-off site is at least what its role demands and never weaker than the
confirmed reference; (OD2) the slow synchronous paths return only after the wait, the waker signals only after the
callout; (WR3) blocking waits return only after re-validating the awaited word with acquire.
Not decided: visibility on real hardware; the C11-level obligations are what is checked."""
from dqsa import trans, paths
from .common import *
from . import C01, C02

UNITS = ["queue", "semaphore", "once", "apply", "shims/lock", "source", "event/event", "object", "data", "init"]

ACQ, REL, SC = "acquire", "release", "seq_cst"


def has(order, need):
    if need == ACQ:
        return ord_has_acquire(order)
    if need == REL:
        return ord_has_release(order)
    if need == SC:
        return order == "seq_cst"
    return True


# (fields, op, origin functions or None for any, required, role, floor)
MO_TABLE = [
    (("dq_items_tail", "dwl_tails", "dg_notify_tail"), "atomicrmw:xchg", None, REL, "MPSC tail exchange publishes the item / the snapshot", 7),
    (("dq_items_tail", "dwl_tails"), "cmpxchg", None, REL, "consumer empties the list", 4),
    (("do_next",), "load", None, ACQ, "consumer follows next (dependency == acquire here)", 6),
    (("dq_items_head", "dwl_heads", "dg_notify_head"), "load",
     ("_dispatch_queue_get_head", "_dispatch_main_queue_drain", "_dispatch_workloop_invoke2", "_dispatch_workloop_barrier_complete", "_dispatch_group_wake"),
     ACQ, "consumer reads the list head", 5),
    (("dq_items_tail",), "load", ("_dispatch_queue_class_probe",), SC, "probe pairs with state stores (rdar 14637483)", 1),
    (("dgq_thread_pool_size",), "load", ("_dispatch_root_queue_poke_slow",), SC, "pool accounting probe", 1),
    (("dgq_thread_pool_size",), "cmpxchg", ("_dispatch_root_queue_poke_slow",), ACQ, "thread reservation", 1),
    (("dgq_thread_pool_size",), "atomicrmw:add", ("_dispatch_worker_thread",), REL, "worker exit gives the thread back", 1),
    (("dte_value",), "atomicrmw:add", None, REL, "thread event signal", 1),
    (("dte_value",), "atomicrmw:sub", None, ACQ, "thread event wait", 1),
    (("dte_value",), "load", ("_dispatch_thread_event_wait_slow",), ACQ, "thread event wait (slow)", 1),
    (("dg_state",), "atomicrmw:add", ("dispatch_group_leave",), REL, "group leave publishes the work", 1),
    (("dg_state",), "cmpxchg", ("_dispatch_group_notify",), REL, "notify publishes the node", 1),
    (("dg_bits",), "atomicrmw:sub", ("dispatch_group_enter",), ACQ, "group enter", 1),
    (("dg_gen",), "load", ("_dispatch_group_wait_slow",), ACQ, "group waiter observes completion", 1),
    (("dsema_value",), "atomicrmw:add", ("dispatch_semaphore_signal",), REL, "semaphore signal", 1),
    (("dsema_value",), "atomicrmw:sub", ("dispatch_semaphore_wait",), ACQ, "semaphore wait", 1),
    (("dgo_once",), "atomicrmw:xchg", ("_dispatch_once_mark_done",), REL, "once: initialiser publishes", 1),
    (("dul_lock",), "cmpxchg", ("_dispatch_unfair_lock_lock", "_dispatch_unfair_lock_trylock"), ACQ, "unfair lock acquire", 1),
    (("dul_lock",), "cmpxchg", ("_dispatch_unfair_lock_unlock_had_failed_trylock",), REL, "unfair lock release", 1),
    (("dul_lock",), "atomicrmw:xchg", ("_dispatch_unfair_lock_unlock", "_dispatch_unfair_lock_unlock_had_failed_trylock"), REL, "unfair lock release", 0),
    (("os_obj_ref_cnt", "os_obj_xref_cnt"), "atomicrmw:sub", None, REL, "reference release", 3),
    (("os_obj_ref_cnt", "os_obj_xref_cnt"), "load", ("_os_object_dispose", "_os_object_xref_dispose"), ACQ, "dispose barrier", 2),
    (("da_todo", "da_thr_cnt"), "atomicrmw:sub", None, REL, "apply completion", 2),
    (("dt_pending_config",), "atomicrmw:xchg", ("dispatch_source_set_timer",), REL, "timer configuration publish", 1),
    (("dt_pending_config",), "atomicrmw:xchg", ("_dispatch_timer_unote_configure",), ACQ, "timer configuration consume", 1),
    (("ds_handler",), "atomicrmw:xchg", ("_dispatch_source_handler_replace",), REL, "handler publish", 1),
    (("do_targetq",), "atomicrmw:xchg", ("_dispatch_object_set_target_queue_inline",), REL, "retarget publish", 1),
    (("dq_specific_head",), "cmpxchg", ("_dispatch_queue_init_specific",), REL, "specific head publish", 1),
    (("buf",), "cmpxchg", ("dispatch_data_get_flattened_bytes_4libxpc",), REL, "flattened buffer publish", 0),
]

# dq_state sites whose order is weaker than the generic role demands, confirmed by reading (Appendix A)
DQ_ORDER_EXCEPTIONS = {
    ("_dispatch_lane_non_barrier_complete", "acquire"): "relaxed try-lock by the last reader; the dependency/acquire fence is in _dispatch_lane_non_barrier_complete_finish",
    ("_dispatch_lane_non_barrier_complete", "publish"): "DIRTY marking while another thread holds the lock: the holder's unlock CAS re-reads with acquire",
    ("_dispatch_lane_drain_non_barriers", "unlock"): "the release happened at the IN_BARRIER xor just before (queue.c #17); no client code runs in between",
    ("_dispatch_lane_drain_non_barriers", "acquire"): "re-acquire by the current holder",
    ("_dispatch_queue_set_bound_thread", "acquire"): "owner tag of a thread-bound queue, no hand-off",
    ("_dispatch_queue_clear_bound_thread", "unlock"): "owner tag of a thread-bound queue; the following wakeup publishes",
    ("_dispatch_queue_cleanup2", "unlock"): "main thread exit",
    ("_dispatch_lane_push_waiter", "acquire"): "lock taken by the pusher only to hand it off (barrier_complete -> lock transfer); no client code runs under it on this thread; release publishes the enqueue",
    ("_dispatch_workloop_push_waiter", "acquire"): "same as _dispatch_lane_push_waiter",
    ("_dispatch_lane_resume", "acquire"): "lock taken only to perform a lock transfer via dx_wakeup(BARRIER_COMPLETE); release publishes set_target_queue / handlers",
}


def rule_MO1(rep, prog, q, ex):
    rid = rep.rule("C05-MO1", "hand-off sites carry at least the memory order their role demands (publish/release, consume/acquire) and none "
                   "is weaker than the confirmed reference table", floor=40)
    counts = {}
    for fn in prog.all_functions():
        for i in fn.all_insts():
            if not (i.op in ("cmpxchg", "atomicrmw") or (i.op in ("load", "store") and i.d.get("ord") not in (None, "na"))):
                continue
            fl = prog.fields(i)
            opk = i.op + (":" + i.d["rmw"] if i.op == "atomicrmw" else "")
            for k, (fields, op, origins, need, role, floor) in enumerate(MO_TABLE):
                if op != opk or not (fl & set(fields)):
                    continue
                if origins is not None and i.origin not in origins:
                    continue
                counts[k] = counts.get(k, 0) + 1
                rep.saw(fn)
                rep.require(rid, has(i.d["ord"], need), i.loc, i.origin, "order:%s:%s:%s" % ("/".join(fields), opk, i.origin),
                            "%s %s in %s is '%s' but its role (%s) needs %s: the hand-off no longer orders the memory it protects"
                            % (opk, "/".join(sorted(fl & set(fields))), i.origin, i.d["ord"], role, need),
                            sample={"field": sorted(fl & set(fields)), "op": opk, "in": i.origin, "order": i.d["ord"], "role": role})
    for k, (fields, op, origins, need, role, floor) in enumerate(MO_TABLE):
        if counts.get(k, 0) >= floor:
            continue
        # the site may have moved (its helper merged into a caller / renamed): the same operation on the same word at a place no other table row
        # claims takes over the role - the obligation is on the operation, not on the name of the function around it
        claimed = set()
        for k2, (f2, op2, or2, *_r) in enumerate(MO_TABLE):
            if k2 != k and op2 == op and set(f2) & set(fields) and or2:
                claimed |= set(or2)
        for fn in prog.all_functions():
            for i in fn.all_insts():
                opk = i.op + (":" + i.d["rmw"] if i.op == "atomicrmw" else "")
                if opk != op or not (prog.fields(i) & set(fields)) or (origins and i.origin in origins) or i.origin in claimed:
                    continue
                if i.op in ("load", "store") and i.d.get("ord") in (None, "na"):
                    continue
                counts[k] = counts.get(k, 0) + 1
                rep.require(rid, has(i.d["ord"], need), i.loc, i.origin, "order:%s:%s:%s" % ("/".join(fields), opk, i.origin),
                            "%s %s in %s is '%s' but its role (%s) needs %s: the hand-off no longer orders the memory it protects"
                            % (opk, "/".join(sorted(prog.fields(i) & set(fields))), i.origin, i.d["ord"], role, need),
                            sample={"field": sorted(prog.fields(i) & set(fields)), "op": opk, "in": i.origin, "order": i.d["ord"], "role": role, "moved": True})
        if counts.get(k, 0) < floor:
            rep.unknown(rid, "reference site vanished: %s %s %s matched %d < %d" % (fields, op, origins, counts.get(k, 0), floor))
    # dq_state: roles from effects
    r2 = rep.rule("C05-MO1q", "dq_state: transitions that acquire the drain lock are acquire, transitions that unlock / hand off / publish DIRTY or "
                  "ENQUEUED are release (role derived from the bit-level effect)", floor=30)
    for fn in sorted(prog.all_functions(), key=lambda f: f.name):
        for t in ex.transitions(fn, DQ_STATE):
            if isinstance(t, trans.GiveUp) or t.kind == "store" or t.width != 64:
                continue
            roles = []
            if C02.is_acquire(q, t):
                roles.append(("acquire", ACQ))
            if C01.is_unlock(q, t):
                roles.append(("unlock", REL))
            transfer = any((s or "").startswith("load:dsc_waiter") and (m & q.OWNER) for s, m in t.new.ors)
            if transfer:
                roles.append(("transfer", REL))
            if t.newly_clears(q.IN_BARRIER) and not C01.is_unlock(q, t):
                roles.append(("downgrade", REL))
            if t.newly_sets(q.DIRTY) or t.newly_sets(q.ENQUEUED) or t.newly_sets(q.ENQUEUED_ON_MGR):
                if not (t.old.k1 & q.DIRTY and t.kind == "rmw"):
                    roles.append(("publish", REL))
            for role, need in roles:
                if (t.origin, role) in DQ_ORDER_EXCEPTIONS or (t.fn.name, role) in DQ_ORDER_EXCEPTIONS:
                    continue
                if role in ("unlock", "acquire") and not has(t.order, need):
                    # structural form of the "current holder" exception: the same function already published with a release RMW on dq_state that
                    # dominates this site (it gave IN_BARRIER back and keeps draining as the holder); no client code runs in between
                    if any(i.op == "atomicrmw" and (prog.fields(i) & DQ_STATE) and ord_has_release(i.d.get("ord", "")) and fn.dominates(i, t.site) for i in fn.all_insts()):
                        continue
                rep.classified(r2, t.origin, has(t.order, need), t.where, t.origin, "dq_state-order:%s:%s" % (role, t.origin),
                            "dq_state %s in %s (%s) is '%s' but needs %s" % (role, t.origin, t.kind, t.order, need),
                            sample={"site": t.origin, "role": role, "order": t.order})
    # give-up clear of DIRTY must be acquire (covered by C01-TR1) ; xor DIRTY sites:
    for fn in prog.all_functions():
        for i in fn.all_insts():
            if i.op == "atomicrmw" and i.d["rmw"] == "xor" and (prog.fields(i) & DQ_STATE) and i.ops[1][0] == "c" and i.ops[1][1] == q.DIRTY:
                rep.require(r2, ord_has_acquire(i.d["ord"]), i.loc, i.origin, "dq_state-order:dirty-renew:%s" % i.origin,
                            "%s renews the drain lock after seeing DIRTY with '%s' (needs acquire to see what the enqueuer published)" % (i.origin, i.d["ord"]),
                            sample={"site": i.origin, "role": "renew after DIRTY", "order": i.d["ord"]})


def rule_OD2(rep, prog, q):
    rid = rep.rule("C05-OD2", "slow synchronous paths: every return of _dispatch_sync_f_slow / _dispatch_async_and_wait_f_slow (other than the global-queue "
                   "inline case) is preceded by __DISPATCH_WAIT_FOR_QUEUE__; the wait is preceded by the push; the remote invoker runs the callout and "
                   "clears dsc_func before signalling", floor=6)
    for name in ("_dispatch_sync_f_slow", "_dispatch_async_and_wait_f_slow"):
        fn = prog.fn(name)
        rep.saw(fn)
        class _S: pass
        s = _S(); s.block = fn.blocks[0]; s.idx = -1; s.loc = fn.file
        res = paths.walk(fn, s, lambda i: False, avoid=lambda i: i.op == "call" and i.callee in ("__DISPATCH_WAIT_FOR_QUEUE__", "_dispatch_sync_function_invoke", "_dispatch_async_and_wait_recurse"))
        exits = [r for r in res if r[0] == "exit"]
        rep.require(rid, not exits, fn.file + ":" + str(fn.d.get("line")), name, "sync-slow-returns-without-wait:%s" % name,
                    "%s can return without having waited for the queue (path %s)" % (name, exits[0][3] if exits else None),
                    sample={"fn": name, "paths": len(res)})
    # after the wait, the caller runs its item itself only if nobody ran it remotely: the test is on dsc_func (the field the remote invoker clears), on every
    # way from the wait to an invocation - an item run by the thread the bottom queue is bound to is otherwise run a second time (on a freed apply descriptor)
    for name in ("_dispatch_sync_f_slow", "_dispatch_async_and_wait_f_slow"):
        fn = prog.fn(name)
        waits_ = calls_named(fn, "__DISPATCH_WAIT_FOR_QUEUE__")
        inv = [c for c in fn.all_insts() if c.op == "call" and c.callee and ("invoke_and_complete" in c.callee or c.callee in ("_dispatch_sync_function_invoke", "_dispatch_client_callout"))]
        tests = []
        for t in fn.all_insts():
            if t.op == "icmp" and t.d["pred"] in ("eq", "ne") and t.ops[1][0] == "n":
                l = fn.inst(t.ops[0])
                if l is not None and l.op == "load" and "dsc_func" in prog.fields(l):
                    tests.append(t)
        for w in waits_:
            bad = []
            for kind, inst, cx, path in paths.walk(fn, w, lambda i: i in inv):
                if kind == "hit" and not any(cx.truth.get(t.id) == (t.d["pred"] == "ne") for t in tests):
                    bad.append(path)
            rep.require(rid, not bad and bool(inv), w.loc, name, "invoke-after-wait-without-dsc_func-test:%s" % name,
                        "%s runs the work item itself after the wait on a path that did not find dsc_func non-NULL (path %s): when the item was already run by the "
                        "thread a bottom queue is bound to (dispatch_sync / dispatch_apply onto a queue targeting the main queue from another thread) it runs a second "
                        "time" % (name, bad[0] if bad else None), sample={"fn": name, "tests": len(tests)})
    fn = prog.fn("__DISPATCH_WAIT_FOR_QUEUE__")
    rep.saw(fn)
    pushes = icalls_slot(prog, fn, "dq_push")
    waits = [i for i in fn.all_insts() if i.op == "call" and i.callee in ("_dispatch_thread_event_wait", "_dispatch_event_loop_wait_for_ownership")] + \
            [i for i in fn.all_insts() if i.op == "atomicrmw" and "dte_value" in prog.fields(i)]
    rep.require(rid, bool(pushes) and bool(waits) and all(any(fn.dominates(p, w) for p in pushes) for w in waits), fn.file, fn.name, "wait-before-push",
                "__DISPATCH_WAIT_FOR_QUEUE__: the thread-event wait is not dominated by the dx_push of the sync context",
                sample={"pushes": len(pushes), "waits": len(waits)})
    fn = prog.fn("_dispatch_async_and_wait_invoke")
    rep.saw(fn)
    sig = [i for i in fn.all_insts() if (i.op == "call" and i.callee in ("_dispatch_thread_event_signal", "_dispatch_thread_event_signal_slow", "_dispatch_event_loop_cancel_waiter")) or
           (i.op == "atomicrmw" and "dte_value" in prog.fields(i))]
    callouts = [i for i in fn.all_insts() if i.op == "call" and i.callee in ("_dispatch_client_callout", "_dispatch_sync_function_invoke_inline")] + \
               [i for i in fn.all_insts() if i.op == "call" and "icallee" in i.d and "dsc_func" in callee_slot(prog, i)]
    clears = [i for i in fn.all_insts() if i.op == "store" and "dsc_func" in prog.fields(i) and i.ops[0][0] == "n"]
    ok = bool(sig) and bool(callouts) and bool(clears) and all(any(fn.dominates(c, s) for c in callouts) and any(fn.dominates(c, s) for c in clears) for s in sig)
    rep.require(rid, ok, fn.file, fn.name, "signal-before-callout",
                "_dispatch_async_and_wait_invoke signals the waiter before the callout ran / before dsc_func was cleared: the sync call would "
                "return before (or run twice) its work item", sample={"signals": len(sig), "callouts": len(callouts), "clears": len(clears)})
    # ... and nothing is written to the context after the wake-up: it lives on the stack of the caller that may already have returned
    late = [st for st in fn.all_insts() if st.op == "store" and st.d.get("ptr") and list(st.d["ptr"].get("base", [])[:2]) == ["a", 0] and any(fn.inst_reaches(s_, st) for s_ in sig)]
    rep.require(rid, not late, late[0].loc if late else fn.file, fn.name, "context-written-after-wakeup",
                "_dispatch_async_and_wait_invoke writes %s of the sync context after waking its owner: the context is on the stack of the dispatch_async_and_wait caller, "
                "which may have returned (or already acted on the stale field)" % (sorted(prog.fields(late[0])) if late else None), sample={"stores_after_signal": len(late)})


def rule_WR3(rep, prog):
    """blocking waits re-validate the awaited word"""
    rid = rep.rule("C05-WR3", "a blocked waiter returns only after re-reading the awaited word with acquire and finding the awaited value "
                   "(no return straight from the kernel wait)", floor=2)
    specs = [("_dispatch_thread_event_wait_slow", "dte_value", ("_dispatch_futex_wait", "_dispatch_ulock_wait"), 0)]
    for fname, field, waits, awaited in specs:
        fn = prog.fn(fname)
        rep.saw(fn)
        wcalls = calls_named(fn, waits)
        if not wcalls:
            rep.unknown(rid, "no blocking call in %s" % fname)
            continue
        isload = lambda i: i.op == "load" and field in prog.fields(i) and ord_has_acquire(i.d.get("ord", "na"))
        for w in wcalls:
            res = paths.walk(fn, w, lambda i: False, avoid=isload)
            exits = [r for r in res if r[0] == "exit"]
            rep.require(rid, not exits, w.loc, fname, "return-from-wait-without-recheck:%s" % fname,
                        "%s returns after the kernel wait without re-reading %s (acquire): a spurious or interrupted wake-up would "
                        "release the waiter early" % (fname, field), sample={"fn": fname, "wait": w.callee, "paths": len(res)})
        loads = [i for i in fn.all_insts() if isload(i)]
        for l in loads:
            res = paths.walk(fn, l, isload)
            for kind, inst, cx, path in res:
                if kind == "exit":
                    v = cx.value(["i", l.id])
                    rep.require(rid, v == ("c", awaited) or (awaited == 0 and v == paths.NULL), l.loc, fname, "return-on-wrong-value:%s" % fname,
                                "%s returns although %s was read as %s (awaited %d)" % (fname, field, v, awaited),
                                sample={"fn": fname, "returns_when": "%s == %d" % (field, awaited)})


def rule_MP4(rep, prog):
    rid = rep.rule("C05-MP4", "group notification hand-off works on a closed generation: _dispatch_group_wake detaches the whole notification list with one atomic exchange "
                   "of dg_notify_tail (release) before the first notification block is submitted, and the submission loop never goes back to the live list "
                   "(dg_notify_head / dg_notify_tail) - a notification registered after the group was re-entered belongs to the next generation", floor=3)
    fn = prog.fn("_dispatch_group_wake")
    rep.saw(fn)
    subs = [c for c in fn.all_insts() if c.op == "call" and c.callee in ("_dispatch_continuation_async", "dx_push", "_dispatch_continuation_push")]
    if not subs:
        rep.unknown(rid, "_dispatch_group_wake: submission of the notification blocks not found")
        return
    xch = [i for i in fn.all_insts() if i.op == "atomicrmw" and i.d.get("rmw") == "xchg" and "dg_notify_tail" in prog.fields(i)
           and i.ops[-1][0] == "c" and i.ops[-1][1] == 0]
    ok = bool(xch) and all(any(fn.block_dominates(x.block.id, c.block.id) and x.block.id != c.block.id for x in xch) for c in subs)
    rep.require(rid, ok, subs[0].loc, fn.name, "no-snapshot-before-notify",
                "_dispatch_group_wake submits notification blocks without first detaching the list (atomic exchange of dg_notify_tail with NULL): notifications appended "
                "while it runs - registered for the NEXT generation after the group was re-entered - are fired at once, before the work they wait for has completed",
                sample={"exchange": [x.loc for x in xch], "submits": [c.loc for c in subs]})
    # ... and the detachment comes before the waiters are woken: a woken waiter may start the next generation (enter + notify) at once
    wakes = calls_named(fn, "_dispatch_wake_by_address")
    late = [x for x in xch for w in wakes if fn.inst_reaches(w, x)]
    rep.require(rid, not late, (late[0].loc if late else subs[0].loc), fn.name, "waiters-woken-before-snapshot",
                "_dispatch_group_wake wakes the threads blocked in dispatch_group_wait before it has detached the notification list: a woken waiter that immediately "
                "re-enters the group and registers a notification has it linked into the old, not yet captured list and fired while its own enter is outstanding",
                sample={"wakes": len(wakes)})
    ok2 = not xch or all(x.d.get("ord") in ("release", "acq_rel", "seq_cst") for x in xch)
    rep.require(rid, ok2, (xch[0].loc if xch else subs[0].loc), fn.name, "snapshot-exchange-not-release",
                "the exchange that detaches the notification list is weaker than release")
    # the loop: blocks on a cycle through a submission
    loop = set()
    for c in subs:
        fwd = fn.reach_from_block(c.block.id)
        if c.block.id in fwd:
            loop |= {b for b in fwd if c.block.id in fn.reach_from_block(b)}
    live = [i for i in fn.all_insts() if i.block.id in loop and i.op in ("load", "store", "cmpxchg", "atomicrmw") and prog.fields(i) & {"dg_notify_head", "dg_notify_tail"}]
    rep.require(rid, bool(loop) and not live, (live[0].loc if live else subs[0].loc), fn.name, "notify-loop-reads-live-list",
                "the loop that submits the notification blocks goes back to dg_notify_head / dg_notify_tail: it consumes notifications appended after the generation "
                "completed instead of the detached snapshot", sample={"loop_blocks": sorted(loop), "live": [i.loc for i in live]})


def run(rep, tier="quick", srcdir=None, only=None):
    prog, units = load(UNITS, tier, srcdir)
    rep.units = units
    q = Q(srcdir)
    ex = trans.Extractor(prog, tier)
    ex.compute_argbits()
    want = lambda r: only is None or r in only
    if want("C05-MO1") or want("C05-MO1q"):
        rule_MO1(rep, prog, q, ex)
    if want("C05-OD2"):
        rule_OD2(rep, prog, q)
    if want("C05-WR3"):
        rule_WR3(rep, prog)
    # dispatch_sync through a hierarchy returns after the item ran UNDER every level: the hand-off must carry the waiter down to the bottom queue,
    # which depends on the role bits following the target (shared with C03)
    from . import C03
    if want("C03-MP5"):
        C03.rule_MP5(rep, prog, q)
    if want("C03-TB6"):
        C03.rule_TB6(rep, prog, q)
    if want("C03-MP9"):
        C03.rule_MP9(rep, prog, q)
    if want("C03-MP11"):
        C03.rule_MP11(rep, prog, q)
    # "... after a dispatch_semaphore_wait is satisfied by a signal ..., or after dispatch_once returns": the obligations on those primitives are
    # the sibling properties' rules (shared with C08 / C09 / C07)
    if want("C08-MP3"):
        from . import C08
        C08.rule_MP3(rep, prog)
    if want("C09-TR1") or want("C09-MP2"):
        from . import C09
        k9 = consts.get(["DLOCK_ONCE_DONE", "DLOCK_ONCE_UNLOCKED", "DLOCK_WAITERS_BIT"], srcdir=srcdir)
        if want("C09-TR1"):
            C09.rule_TR1(rep, prog, ex, k9)
        if want("C09-MP2"):
            C09.rule_MP2(rep, prog, k9)
    if want("C07-OD5"):
        from . import C07
        C07.rule_OD5(rep, prog, None)
    if want("C05-FK"):
        from .sync_common import rule_futex_key
        rule_futex_key(rep, "C05", prog)
    # the other hand-off edges named by the property: completion through a hierarchy, group wait, semaphore wait
    if want("C03-MP2"):
        from . import C03
        C03.rule_MP2(rep, prog, q)
    if want("C07-MP4"):
        from . import C07
        g = consts.get(["DISPATCH_GROUP_VALUE_INTERVAL", "DISPATCH_GROUP_VALUE_MASK", "DISPATCH_GROUP_VALUE_1", "DISPATCH_GROUP_HAS_NOTIFS",
                        "DISPATCH_GROUP_HAS_WAITERS", "ETIMEDOUT"], srcdir=srcdir, unit="semaphore")
        C07.rule_MP4(rep, prog, g)
    if want("C08-MP2"):
        from . import C08
        C08.rule_MP2(rep, prog)
    # "memory written by an item is visible to the NEXT item on the same serial queue": that order exists only while the items of a serial queue (and of
    # the serial queue it targets) do not overlap - the width-1 => barrier plumbing of the waiting submission forms and the drain's target re-check are
    # necessary for it (shared with C02 / C03)
    if want("C02-SB5"):
        from . import C02
        C02.rule_barrier_flag(rep, prog, q)
    if want("C02-TR7"):
        # ... and a queue is unlocked only by the thread that took the lock: a resume / waiter push that barrier-completes a queue another thread is
        # running on lets the next item start before the running one's writes are complete (shared with C02)
        from . import C02
        C02.rule_TR7(rep, prog, q)
    if want("C09-HDR3"):
        # "... or after dispatch_once returns": clients compile the inline fast path of dispatch/once.h into their own code (shared with C09)
        from . import C09
        C09.rule_HDR(rep, srcdir)
    if want("C03-MP7"):
        C03.rule_MP7(rep, prog, q)
    if want("C03-MP14"):
        # ... and the item really runs under every level: the uncontended fast paths may skip the descent only when there is no level below (shared with C03)
        C03.rule_MP14(rep, prog, q)
    if want("C05-MP4"):
        rule_MP4(rep, prog)


MANIFEST = {
    "technique": "role-based memory-order rules over every atomic site of the LLVM IR (roles from bit-level transition effects + a confirmed reference table), dominance rules + snapshot-closure rule on the group notification list (one release exchange dominates the submissions, the loop never re-reads the live list)",
    "level": "every atomic hand-off site in the library (dq_state roles derived from effects; MPSC lists, thread events, groups, semaphores, once, "
             "refcounts, timers via a read-and-confirmed table with instance floors) is checked to be no weaker than its role demands; slow sync paths "
             "are checked to wait before returning and to re-validate after kernel waits; hardware visibility is out of scope",
    "note": "C11 memory model obligations only; 'dependency' is acquire in this build; named relaxed-by-design exceptions are listed with reasons in rules/C05.py",
}
