"""Whole-library call graph closed over vtable slots (family WM): direct calls plus indirect calls through a
named vtable slot (do_invoke, dq_push, dq_wakeup, ...) resolved to every function stored at that slot in any
vtable initialiser.  Indirect calls through other pointers (client functions, block invokes) are not followed."""
from .build import AnalysisBroken


class CallGraph:
    def __init__(self, prog):
        self.prog = prog
        self.slots = {}
        for m in prog.modules.values():
            for n, g in m.globals.items():
                if not g.get("fptrs") or not g.get("sty"):
                    continue
                for off, f in g["fptrs"]:
                    for name, _ in m.fields_at(g["sty"], off):
                        self.slots.setdefault(name, set()).add(f)
        self.edges = {}
        self.sites = {}
        for fn in prog.all_functions():
            out = set()
            for c in fn.all_insts():
                if c.op != "call":
                    continue
                if c.callee:
                    out.add(c.callee)
                    self.sites.setdefault((fn.name, c.callee), c)
                elif "icallee" in c.d:
                    ic = c.d["icallee"]
                    i = fn.inst(ic) if ic[0] == "i" else None
                    hops = 0
                    while i is not None and i.op == "bitcast" and hops < 4:
                        i = fn.inst(i.ops[0]); hops += 1
                    if i is not None and i.op == "load":
                        for s in prog.fields(i):
                            for t in self.slots.get(s, ()):
                                out.add(t)
                                self.sites.setdefault((fn.name, t), c)
                # function pointers passed as arguments to the async machinery run later on another thread: not an edge
            self.edges[fn.name] = out

    def reach(self, roots, stop=frozenset()):
        """functions reachable from roots (not expanding `stop`), with one predecessor each for path reconstruction"""
        pred = {}
        seen = set()
        work = [r for r in roots if r in self.edges]
        for r in work:
            seen.add(r)
        while work:
            f = work.pop()
            if f in stop:
                continue
            for t in self.edges.get(f, ()):
                if t not in seen:
                    seen.add(t)
                    pred[t] = f
                    if t in self.edges:
                        work.append(t)
        return seen, pred

    def path(self, pred, t):
        p = [t]
        while p[-1] in pred and len(p) < 40:
            p.append(pred[p[-1]])
        return list(reversed(p))
