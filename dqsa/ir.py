"""Fact loader: functions, CFG, dominators, post-dominators, control dependence,
DWARF field resolution, simple reachability queries (DESIGN.md 2.1 step 4)."""
import json, os
from functools import lru_cache

from .build import AnalysisBroken

ORD_RANK = {"na": 0, "unordered": 0, "relaxed": 1, "acquire": 2, "release": 2, "acq_rel": 3, "seq_cst": 4}


def ord_has_acquire(o):
    return o in ("acquire", "acq_rel", "seq_cst")


def ord_has_release(o):
    return o in ("release", "acq_rel", "seq_cst")


class Inst:
    __slots__ = ("d", "id", "op", "ops", "block", "fn", "idx")

    def __init__(self, d, block, fn, idx):
        self.d = d
        self.id = d["id"]
        self.op = d["op"]
        self.ops = d["ops"]
        self.block = block
        self.fn = fn
        self.idx = idx

    def get(self, k, default=None):
        return self.d.get(k, default)

    @property
    def callee(self):
        return self.d.get("callee")

    @property
    def loc(self):
        l = self.d.get("loc")
        if not l:
            return "?"
        return "%s:%d" % (os.path.relpath(l[0], "/repo") if l[0].startswith("/") else l[0], l[1])

    @property
    def line(self):
        l = self.d.get("loc")
        return l[1] if l else 0

    @property
    def origin(self):
        """source function this instruction textually belongs to. A helper that is not in the rule vocabulary (freshly extracted / renamed and therefore
        folded into its callers, see build.VOCAB) is transparent: its instructions belong to the function they were folded into."""
        sp = self.d.get("sp")
        if sp and sp != self.fn.name:
            from . import build as _b
            if not _b.known_function(sp):
                return self.fn.name
        return sp or self.fn.name

    def where(self):
        s = "%s in %s" % (self.loc, self.fn.name)
        ia = self.d.get("ia")
        if ia:
            s += " (from %s)" % self.d.get("sp")
        return s

    def __repr__(self):
        return "<%s#%d %s %s>" % (self.fn.name, self.id, self.op, self.loc)


class Block:
    __slots__ = ("id", "insts", "succs", "preds", "fn")

    def __init__(self, id, fn):
        self.id = id
        self.insts = []
        self.succs = []
        self.preds = []
        self.fn = fn

    @property
    def term(self):
        return self.insts[-1]

    def __repr__(self):
        return "<bb%d of %s>" % (self.id, self.fn.name)


class Function:
    def __init__(self, d, module):
        self.d = d
        self.name = d["name"]
        self.module = module
        self.params = d["params"]
        self.blocks = []
        self.insts = {}
        for bd in d["blocks"]:
            b = Block(bd["id"], self)
            self.blocks.append(b)
        for bd in d["blocks"]:
            b = self.blocks[bd["id"]]
            for k, idd in enumerate(bd["insts"]):
                i = Inst(idd, b, self, k)
                b.insts.append(i)
                self.insts[i.id] = i
            b.succs = [self.blocks[s] for s in bd["succs"]]
        for b in self.blocks:
            for s in b.succs:
                s.preds.append(b)
        self._dom = None
        self._pdom = None
        self._users = None

    @property
    def file(self):
        f = self.d.get("file", "?")
        return os.path.relpath(f, "/repo") if f.startswith("/") else f

    @property
    def entry(self):
        return self.blocks[0]

    def all_insts(self):
        for b in self.blocks:
            for i in b.insts:
                yield i

    def inst(self, opnd):
        """instruction referenced by an operand, or None"""
        if opnd and opnd[0] == "i":
            return self.insts[opnd[1]]
        return None

    def calls(self, name=None):
        for i in self.all_insts():
            if i.op == "call" and (name is None or i.callee == name or (isinstance(name, (set, frozenset, tuple, list)) and i.callee in name)):
                yield i

    def users(self, inst):
        if self._users is None:
            u = {}
            for i in self.all_insts():
                for o in self._flat_ops(i):
                    if o[0] == "i":
                        u.setdefault(o[1], []).append(i)
            self._users = u
        return self._users.get(inst.id, [])

    @staticmethod
    def _flat_ops(i):
        if i.op == "phi":
            return [o[0] for o in i.ops]
        ops = list(i.ops)
        ic = i.d.get("icallee")
        if ic:
            ops.append(ic)
        return ops

    # ---------------------------------------------------------- dominators
    def exits(self):
        return [b for b in self.blocks if not b.succs]

    def reachable_blocks(self):
        seen = {0}
        st = [self.blocks[0]]
        while st:
            b = st.pop()
            for s in b.succs:
                if s.id not in seen:
                    seen.add(s.id)
                    st.append(s)
        return seen

    def _compute_dom(self, post=False):
        n = len(self.blocks)
        if not post:
            roots = [0]
            succ = lambda b: [s.id for s in self.blocks[b].succs]
            pred = lambda b: [p.id for p in self.blocks[b].preds]
        else:
            roots = [b.id for b in self.exits()]
            succ = lambda b: [p.id for p in self.blocks[b].preds]
            pred = lambda b: [s.id for s in self.blocks[b].succs]
        VR = n  # virtual root
        order = []
        seen = set()
        def dfs(r):
            st = [(r, iter(succ(r)))]
            seen.add(r)
            while st:
                v, it = st[-1]
                adv = False
                for w in it:
                    if w not in seen:
                        seen.add(w)
                        st.append((w, iter(succ(w))))
                        adv = True
                        break
                if not adv:
                    order.append(v)
                    st.pop()
        for r in roots:
            if r not in seen:
                dfs(r)
        rpo = list(reversed(order))
        idx = {v: k + 1 for k, v in enumerate(rpo)}
        idx[VR] = 0
        idom = {VR: VR}
        rootset = set(roots)
        changed = True
        def intersect(a, b):
            while a != b:
                while idx[a] > idx[b]:
                    a = idom[a]
                while idx[b] > idx[a]:
                    b = idom[b]
            return a
        while changed:
            changed = False
            for v in rpo:
                ps = [p for p in pred(v) if p in idom]
                if v in rootset:
                    ps = ps + [VR]
                if not ps:
                    continue
                new = ps[0]
                for p in ps[1:]:
                    new = intersect(new, p)
                if idom.get(v) != new:
                    idom[v] = new
                    changed = True
        return idom, VR

    def idom(self):
        if self._dom is None:
            self._dom = self._compute_dom(False)
        return self._dom

    def ipdom(self):
        if self._pdom is None:
            self._pdom = self._compute_dom(True)
        return self._pdom

    def block_dominates(self, a, b):
        """block a dominates block b (ids)"""
        idom, VR = self.idom()
        if b not in idom:
            return True  # unreachable
        while True:
            if a == b:
                return True
            if b == VR or idom[b] == b:
                return False
            b = idom[b]
            if b == VR:
                return False

    def block_postdominates(self, a, b):
        ipd, VR = self.ipdom()
        if b not in ipd:
            return False
        while True:
            if a == b:
                return True
            b = ipd[b]
            if b == VR:
                return False

    def dominates(self, x, y):
        """instruction x dominates instruction y"""
        if x.block is y.block:
            return x.idx <= y.idx
        return self.block_dominates(x.block.id, y.block.id)

    def postdominates(self, x, y):
        """every path from y to a function exit passes x (noreturn calls / unreachable end a path
        without being an exit: blocks ending in unreachable are ignored as exits if trap-only)"""
        if x.block is y.block:
            return x.idx >= y.idx
        return self.block_postdominates(x.block.id, y.block.id)

    # --------------------------------------------------------- reachability
    def reach_from_block(self, bid, avoid=frozenset(), avoid_edges=frozenset()):
        """set of block ids reachable from block bid (exclusive of bid unless on a cycle) without
        entering blocks in avoid / taking edges in avoid_edges"""
        seen = set()
        st = [bid]
        while st:
            b = st.pop()
            for s in self.blocks[b].succs:
                if s.id in avoid or (b, s.id) in avoid_edges:
                    continue
                if s.id not in seen:
                    seen.add(s.id)
                    st.append(s.id)
        return seen

    def inst_reaches(self, x, y, avoid_insts=()):
        """is there a CFG path from just after x to y that does not execute any of avoid_insts"""
        avoid_by_block = {}
        for a in avoid_insts:
            avoid_by_block.setdefault(a.block.id, []).append(a.idx)
        def blocked_in(bid, lo, hi):
            # any avoid inst with lo <= idx < hi in block
            return any(lo <= k < hi for k in avoid_by_block.get(bid, ()))
        if x.block is y.block and x.idx < y.idx:
            if not blocked_in(x.block.id, x.idx + 1, y.idx):
                return True
        # leave x's block
        if blocked_in(x.block.id, x.idx + 1, len(x.block.insts)):
            return False
        seen = set()
        st = [s.id for s in x.block.succs]
        while st:
            b = st.pop()
            if b in seen:
                continue
            seen.add(b)
            if b == y.block.id:
                if not blocked_in(b, 0, y.idx):
                    return True
                # blocked before y in this block; but continuing past is also blocked
                continue
            if blocked_in(b, 0, len(self.blocks[b].insts)):
                continue
            st.extend(s.id for s in self.blocks[b].succs)
        return False

    def must_pass(self, start, targets, stop_ok=None):
        """Every path from just after instruction `start` to a function return passes through
        one of `targets` (instructions).  Paths ending in a trap/noreturn are ignored.
        Returns (True, None) or (False, offending exit instruction)."""
        tset = {}
        for t in targets:
            tset.setdefault(t.block.id, []).append(t.idx)
        # same block after start
        def hit(bid, lo):
            return any(k >= lo for k in tset.get(bid, ()))
        if hit(start.block.id, start.idx + 1):
            return True, None
        seen = set()
        st = [(start.block, True)]
        first = True
        while st:
            b, isstart = st.pop()
            if not isstart:
                if b.id in seen:
                    continue
                seen.add(b.id)
                if hit(b.id, 0):
                    continue
            t = b.term
            if t.op == "ret":
                return False, t
            if t.op == "unreachable":
                continue
            for s in b.succs:
                st.append((s, False))
        return True, None

    def is_trap_block(self, b):
        """block ends in unreachable (after a trap / noreturn call)"""
        return b.term.op == "unreachable"

    def __repr__(self):
        return "<fn %s>" % self.name


_FIELD_VOCAB = None


def _field_vocab():
    global _FIELD_VOCAB
    if _FIELD_VOCAB is None:
        from . import build as _b
        p = os.path.join(os.path.dirname(_b.VOCAB), "fields.json")
        _FIELD_VOCAB = json.load(open(p)) if os.path.exists(p) else {}
    return _FIELD_VOCAB


class Module:
    def __init__(self, path, unit):
        with open(path) as f:
            d = json.load(f)
        self.unit = unit
        self.d = d
        self.functions = {}
        for fd in d["functions"]:
            self.functions[fd["name"]] = Function(fd, self)
        self.globals = {g["name"]: g for g in d["globals"]}
        self.types = d["types"]
        self.types_by_name = {}
        for t in self.types:
            if t.get("k") in ("struct", "union") and t.get("name"):
                self.types_by_name.setdefault(t["name"], t)
        self.leaves = set(d.get("leaves", []))
        self.noreturn_decls = {n for n, nr in d.get("decls", []) if nr}

    # ------------------------------------------------------ DWARF fields
    def fields_at(self, sty, off, width=None):
        """all member names (dotted paths' leaf names) of struct `sty` (LLVM name like
        'struct.dispatch_queue_s') that start exactly at byte `off`."""
        name = sty.split(".", 1)[1] if "." in sty else sty
        # strip numeric suffix added by LLVM when types are duplicated
        parts = name.rsplit(".", 1)
        if len(parts) == 2 and parts[1].isdigit():
            name = parts[0]
        t = self.types_by_name.get(name)
        if t is None:
            return []
        out = []
        self._descend(t, off, out, 0)
        return out

    def _descend(self, t, off, out, depth):
        if depth > 12:
            return
        k = t.get("k")
        if k in ("struct", "union"):
            old_names = _field_vocab().get(t.get("name")) if t.get("name") else None
            cur_names = {m[0] for m in t["members"]} if old_names else None
            for (mname, moff, msize, mty) in t["members"]:
                mt = self.types[mty]
                size = msize or mt.get("size", 0)
                if moff == off and mname:
                    out.append((mname, size))
                    # field renamed since the rules were written: a member whose name the vocabulary does not know, sitting at the offset where a
                    # member the struct no longer has used to be, also answers to that old name (see bin/mkvocab, vocab/fields.json)
                    if old_names and mname not in old_names["names"]:
                        for o in old_names["at"].get(str(moff), []):
                            if o not in cur_names:
                                out.append((o, size))
                # trailing flexible array member (records[] of dispatch_data_s): offsets beyond the struct index into it
                flexible = depth == 0 and k == "struct" and mt.get("k") == "array" and not mt.get("count") and \
                    moff == max(m[1] for m in t["members"]) and moff >= t.get("size", 0) - 0 and off >= moff
                if moff <= off < moff + max(size, 1) or flexible:
                    self._descend(mt, off - moff, out, depth + 1)
        elif k == "array":
            et = self.types[t["elem"]]
            es = et.get("size", 0)
            if es:
                self._descend(et, off % es, out, depth + 1)


class Program:
    """a set of modules with cross-module lookup; inline functions emitted in several units are
    de-duplicated by name (first definition wins)."""

    def __init__(self, factfiles):
        self.modules = {u: Module(p, u) for u, p in sorted(factfiles.items())}
        self.functions = {}
        self.dups = {}
        for u, m in self.modules.items():
            for n, f in m.functions.items():
                if n in self.functions:
                    self.dups.setdefault(n, []).append(f)
                else:
                    self.functions[n] = f
        self._field_cache = {}

    def fn(self, name, required=True):
        f = self.functions.get(name)
        if f is None and required:
            raise AnalysisBroken("anchor vanished: function %s not found in units %s" % (name, sorted(self.modules)))
        return f

    def fields(self, inst_or_ptr, fn=None):
        """set of member names addressed by the pointer of a memory instruction / gep"""
        p = inst_or_ptr.d.get("ptr") if isinstance(inst_or_ptr, Inst) else inst_or_ptr
        if not p or "sty" not in p:
            return frozenset()
        mod = (inst_or_ptr.fn.module if isinstance(inst_or_ptr, Inst) else fn.module)
        key = (mod.unit, p["sty"], p["off"])
        r = self._field_cache.get(key)
        if r is None:
            r = frozenset(n for n, _ in mod.fields_at(p["sty"], p["off"]))
            self._field_cache[key] = r
        return r

    def all_functions(self):
        return self.functions.values()

    def global_(self, name):
        for m in self.modules.values():
            g = m.globals.get(name)
            if g is not None and "init" in g:
                return g
        for m in self.modules.values():
            g = m.globals.get(name)
            if g is not None:
                return g
        return None


MEMOPS = ("load", "store", "atomicrmw", "cmpxchg")


def fmt_opnd(fn, o, depth=0):
    """human-readable rendering of an operand (for reports / evidence samples)"""
    k = o[0]
    if k == "c":
        v = o[1]
        return hex(v) if v > 9 else str(v)
    if k == "a":
        return fn.params[o[1]][0] or ("arg%d" % o[1])
    if k == "n":
        return "NULL"
    if k in ("g", "f"):
        return "@" + o[1]
    if k == "i":
        i = fn.insts[o[1]]
        if depth > 3:
            return "%%%d" % i.id
        if i.op in ("and", "or", "xor", "add", "sub", "shl", "lshr", "mul"):
            sym = {"and": "&", "or": "|", "xor": "^", "add": "+", "sub": "-", "shl": "<<", "lshr": ">>", "mul": "*"}[i.op]
            return "(%s %s %s)" % (fmt_opnd(fn, i.ops[0], depth + 1), sym, fmt_opnd(fn, i.ops[1], depth + 1))
        if i.op in ("zext", "sext", "trunc", "bitcast", "ptrtoint", "inttoptr"):
            return fmt_opnd(fn, i.ops[0], depth + 1)
        if i.op == "call":
            return "%s()" % (i.callee or "indirect")
        if i.op == "load":
            return "load(%s)" % "/".join(sorted(PROGRAM_FIELDS(i))) if PROGRAM_FIELDS else "load"
        return "%%%d:%s" % (i.id, i.op)
    return str(o)


PROGRAM_FIELDS = None
