"""State-word transition extraction (family TR): for every atomic write to a tracked field,
enumerate the loop-free paths of its compare-exchange loop body and describe, per path,
what the guards say about `old` and how `new` is built from `old` (bit-level, dqsa/bitval.py).
"""
from .bitval import BV, OldFacts, mask, lowbit
from .build import AnalysisBroken

PATH_BOUND = {"quick": 512, "thorough": 65536}


class Transition:
    def __init__(self, site, kind, fields, width, order, ford=None):
        self.site = site
        self.fn = site.fn
        self.kind = kind          # cas-loop | cas | rmw | store
        self.fields = fields
        self.width = width
        self.order = order
        self.ford = ford
        self.old = None           # OldFacts
        self.new = None           # BV relative to old (knowledge of old substituted)
        self.path = []
        self.rmw = None
        self.operand = None
        self.expected = None
        self.origin = site.origin  # source function of the atomic (inline helper)
        self.byteoff = site.d["ptr"]["off"] if site.d.get("ptr") else None
        self.commit_edge = None

    @property
    def where(self):
        return self.site.loc

    # ---- effect helpers (bits of the accessed word)
    def sets(self, m):
        """all bits of m are known 1 in new"""
        return (self.new.k1 & m) == m

    def may_set(self, m):
        """some bit of m may be 1 in new while not known 1 in old"""
        return bool(m & ~self.new.k0 & ~self.old.k1 & ~(self.new.om & ~0))or bool(m & self.new.k1 & ~self.old.k1)

    def newly_sets(self, m):
        """some bit of m known 1 in new and not known 1 in old (the write turns it on or keeps it on unknowingly)"""
        return bool(self.new.k1 & m & ~self.old.k1)

    def clears(self, m):
        """all bits of m known 0 in new"""
        return (self.new.k0 & m) == m

    def newly_clears(self, m):
        return (self.new.k0 & m) == m and (self.old.k0 & m) != m

    def preserves(self, m):
        """all bits of m carry old's value"""
        keep = self.new.om | (self.new.k0 & self.old.k0) | (self.new.k1 & self.old.k1)
        return (keep & m) == m

    def keeps_set(self, m):
        """every bit of m that is 1 in old is 1 in new"""
        keep = self.new.om | self.new.gm | self.new.k1 | (self.new.k0 & self.old.k0)
        return (keep & m) == m

    def describe(self):
        return "%s %s %s ord=%s old=%r new=%r" % (self.kind, self.origin, self.where, self.order, self.old, self.new)


class GiveUp:
    def __init__(self, site, old, from_block, to_block, path):
        self.site = site
        self.fn = site.fn
        self.old = old
        self.from_block = from_block
        self.to_block = to_block
        self.path = path


class Ev:
    """evaluator state for one path"""

    def __init__(self, ex, oldkey, w):
        self.ex = ex
        self.fn = ex.fn
        self.oldkey = oldkey
        self.w = w
        self.env = {}
        self.facts = OldFacts(w)
        self.pred = {}       # block id -> predecessor block id on this path
        self.choice = {}     # select inst id -> bool
        self.pins = {}       # inst id -> BV refined by a guard (survives cache flushes)
        self.final = False   # evaluating `new` after all guards of the path are known

    def fork(self):
        e = Ev(self.ex, self.oldkey, self.w)
        e.env = dict(self.env)
        e.facts = self.facts.copy()
        e.pred = dict(self.pred)
        e.choice = dict(self.choice)
        e.pins = dict(self.pins)
        return e

    # -------------------------------------------------------------- values
    def ev(self, op, depth=0):
        k = op[0]
        if k == "c":
            return BV.const(op[2], op[1])
        if k == "n":
            return BV.const(64, 0)
        if k == "a":
            name = self.fn.params[op[1]][0] or ("arg%d" % op[1])
            ty = self.fn.params[op[1]][1]
            w = int(ty[1:]) if ty.startswith("i") and ty[1:].isdigit() else 64
            kb = self.ex.argbits.get((self.fn.name, op[1]))
            if kb is not None:
                return BV(w, kb[0], kb[1], ors=(("arg:" + name, mask(w) & ~kb[0] & ~kb[1]),), sym="arg:" + name)
            return BV.unknown(w, "arg:" + name)
        if k == "i":
            iid = op[1]
            if ("i", iid) == self.oldkey:
                o = BV.old(self.w)
                if self.final:
                    r = o.subst_old(self.facts.k0, self.facts.k1)
                    r.lin = 0
                    return r
                return o
            v = self.env.get(iid)
            if v is not None:
                return v
            v = self.ev_inst(self.fn.insts[iid], depth + 1)
            self.env[iid] = v
            return v
        if k in ("g", "f"):
            return BV.unknown(64, "@" + op[1])
        return BV.unknown(64, "?")

    def width_of(self, i):
        w = i.d.get("w")
        if w:
            return w
        return 64

    def ev_inst(self, i, depth=0):
        op = i.op
        w = self.width_of(i)
        if depth > 60:
            return BV.unknown(w, "deep")
        if op in ("and", "or", "xor", "add", "sub"):
            a, b = self.ev(i.ops[0], depth), self.ev(i.ops[1], depth)
            if a.w != b.w:
                return BV.unknown(w)
            if op == "and":
                return a.and_(b)
            if op == "or":
                return a.or_(b)
            if op == "xor":
                return a.xor_(b)
            desc = self.ex.describe(i.ops[1])
            return a.addsub(b, 1 if op == "add" else -1, desc)
        if op in ("shl", "lshr"):
            a, b = self.ev(i.ops[0], depth), self.ev(i.ops[1], depth)
            if b.is_const():
                return a.shl(b.k1) if op == "shl" else a.lshr(b.k1)
            return BV.unknown(w)
        if op == "mul":
            a, b = self.ev(i.ops[0], depth), self.ev(i.ops[1], depth)
            for x, y in ((a, b), (b, a)):
                if y.is_const() and y.k1 and (y.k1 & (y.k1 - 1)) == 0:
                    r = x.shl(y.k1.bit_length() - 1)
                    return BV(r.w, r.k0, r.k1, 0, 0, (("mul:" + self.ex.describe(i.ops[0]), mask(r.w) & ~r.k0),), ())
            return BV.unknown(w, "mul")
        if op == "zext":
            return self.ev(i.ops[0], depth).zext(w)
        if op == "sext":
            a = self.ev(i.ops[0], depth)
            if a.k0 >> (a.w - 1) & 1:
                return a.zext(w)
            if a.is_const():
                v = a.k1 - (1 << a.w) if a.k1 >> (a.w - 1) else a.k1
                return BV.const(w, v)
            r = a.zext(w)
            return BV(w, r.k0 & mask(a.w - 1), r.k1 & mask(a.w - 1), r.om & mask(a.w - 1), r.nm & mask(a.w - 1), r.ors + (("sext", mask(w) & ~mask(a.w - 1)),), r.arith)
        if op == "trunc":
            return self.ev(i.ops[0], depth).trunc(w)
        if op in ("bitcast", "ptrtoint", "inttoptr", "freeze"):
            a = self.ev(i.ops[0], depth)
            return a if a.w == w else BV.unknown(w)
        if op == "select":
            ch = self.choice.get(i.id)
            if ch is not None:
                return self.ev(i.ops[1] if ch else i.ops[2], depth)
            a, b = self.ev(i.ops[1], depth), self.ev(i.ops[2], depth)
            if a.w != b.w:
                return BV.unknown(w)
            return a.join(b)
        if op == "phi":
            p = self.pred.get(i.block.id)
            if p is not None:
                for v, frm in i.ops:
                    if frm == p:
                        return self.ev(v, depth)
            # outside the path: join of incoming values that do not depend on the phi itself
            if i.id in self.ex.phi_guard:
                return BV.unknown(w, "phi")
            self.ex.phi_guard.add(i.id)
            try:
                r = None
                for v, frm in i.ops:
                    x = self.ev(v, depth)
                    if x.w != w:
                        return BV.unknown(w, "phi")
                    r = x if r is None else r.join(x)
                return r if r is not None else BV.unknown(w, "phi")
            finally:
                self.ex.phi_guard.discard(i.id)
        if op == "load":
            f = "/".join(sorted(self.ex.prog.fields(i))) or "mem"
            return BV.unknown(w, "load:" + f)
        if op == "call":
            return BV.unknown(w, "call:" + (i.callee or "indirect"))
        if op == "extractvalue":
            src = self.fn.inst(i.ops[0])
            if src is not None and src.op == "call" and (src.callee or "").startswith(("llvm.usub.with.overflow", "llvm.uadd.with.overflow", "llvm.sadd.with.overflow", "llvm.ssub.with.overflow")) and i.d.get("idx") == [0]:
                a, b = self.ev(src.ops[0], depth), self.ev(src.ops[1], depth)
                if a.w == b.w:
                    return a.addsub(b, 1 if "add" in src.callee else -1, self.ex.describe(src.ops[1]))
            if src is not None and src.op == "cmpxchg" and i.d.get("idx") == [0]:
                return BV.unknown(w, "cas-result")
            return BV.unknown(w, "xv")
        if op in ("atomicrmw",):
            return BV.unknown(w, "rmw-result:" + i.d.get("rmw", ""))
        if op == "icmp":
            return BV.unknown(1, "cmp")
        return BV.unknown(w, op)

    # -------------------------------------------------------------- guards
    def assume(self, op, truth, depth=0):
        """list of evaluator states in which i1 operand `op` has value `truth`"""
        if op[0] == "c":
            return [self] if bool(op[1]) == truth else []
        if op[0] != "i" or depth > 12:
            self.facts.notes.append("%s%s" % ("" if truth else "!", self.ex.describe(op)))
            return [self]
        i = self.fn.insts[op[1]]
        if i.op == "phi":
            p = self.pred.get(i.block.id)
            if p is not None:
                for v, frm in i.ops:
                    if frm == p:
                        return self.assume(v, truth, depth + 1)
        if i.op == "xor" and i.ops[1][0] == "c" and i.ops[1][1] == 1:
            return self.assume(i.ops[0], not truth, depth + 1)
        if i.op in ("and", "or") or (i.op == "select" and i.d.get("w") == 1):
            if i.op == "select":
                c, x, y = i.ops
                if y[0] == "c" and y[1] == 0:
                    kind, a, b = "and", c, x
                elif x[0] == "c" and x[1] == 1:
                    kind, a, b = "or", c, y
                else:
                    # general select: fork on the condition
                    out = []
                    e2 = self.fork()
                    for e in self.assume(c, True, depth + 1):
                        out.extend(e.assume(x, truth, depth + 1))
                    for e in e2.assume(c, False, depth + 1):
                        out.extend(e.assume(y, truth, depth + 1))
                    return out
            else:
                kind, a, b = i.op, i.ops[0], i.ops[1]
            conj = (kind == "and") == truth
            if conj:
                out = []
                for e in self.assume(a, truth, depth + 1):
                    out.extend(e.assume(b, truth, depth + 1))
                return out
            out = []
            e2 = self.fork()
            out.extend(self.assume(a, truth, depth + 1))
            for e in e2.assume(a, not truth, depth + 1):
                out.extend(e.assume(b, truth, depth + 1))
            return out
        if i.op == "icmp":
            return self.assume_icmp(i, truth)
        if i.op == "extractvalue" and i.d.get("idx") == [1]:
            src = self.fn.inst(i.ops[0])
            if src is not None and src.op == "call" and (src.callee or "").startswith("llvm.usub.with.overflow"):
                return self.assume_icmp(_FakeIcmp("ult", src.ops[0], src.ops[1]), truth)
        if i.op in ("zext", "trunc"):
            return self.assume(i.ops[0], truth, depth + 1)
        self.facts.notes.append("%s%s" % ("" if truth else "!", self.ex.describe(op)))
        return [self]

    def assume_icmp(self, i, truth):
        pred = i.d["pred"]
        if not truth:
            pred = {"eq": "ne", "ne": "eq", "slt": "sge", "sle": "sgt", "sgt": "sle", "sge": "slt",
                    "ult": "uge", "ule": "ugt", "ugt": "ule", "uge": "ult"}[pred]
        a, b = self.ev(i.ops[0]), self.ev(i.ops[1])
        da, db = self.ex.describe(i.ops[0]), self.ex.describe(i.ops[1])
        if a.is_const() and not b.is_const():
            a, b = b, a
            da, db = db, da
            pred = {"eq": "eq", "ne": "ne", "slt": "sgt", "sle": "sge", "sgt": "slt", "sge": "sle",
                    "ult": "ugt", "ule": "uge", "ugt": "ult", "uge": "ule"}[pred]
        f = self.facts
        W = a.w
        note = "%s %s %s" % (da, pred, db)
        if a.w != self.w:
            # narrower/wider view of old (e.g. trunc): only handle via om alignment on low bits
            pass
        if b.is_const():
            c = b.k1
            if pred == "eq":
                if (a.k1 & ~c) or (a.k0 & c):
                    return []
                f.k1 |= (a.om & c) | (a.nm & ~c & mask(W))
                f.k0 |= (a.om & ~c & mask(W)) | (a.nm & c)
                if a.om == mask(W) and W == self.w:
                    f.ulo, f.uhi = max(f.ulo, c), min(f.uhi, c)
            elif pred == "ne":
                if a.is_const():
                    return [self] if a.k1 != c else []
                if c == 0:
                    cand = a.maybe1()
                    if cand == 0:
                        return []
                    for opx in i.ops:
                        if opx[0] == "i" and ("i", opx[1]) != self.oldkey and not (a.om | a.nm):
                            self.pins[opx[1]] = a.with_someset(cand)
                            self.env = dict(self.pins)
                    if cand & (cand - 1) == 0:
                        if a.om & cand:
                            f.k1 |= cand
                        elif a.nm & cand:
                            f.k0 |= cand
                    elif (cand & ~a.om) == 0:
                        f.some_set.append(cand)
                elif (a.maybe1() | a.k1) == c and c & (c - 1) == 0:
                    # single-bit field different from its only non-zero value
                    if a.om & c:
                        f.k0 |= c
                    elif a.nm & c:
                        f.k1 |= c
                if a.om == mask(W) and W == self.w:
                    if f.ulo == c:
                        f.ulo += 1
                    if f.uhi == c:
                        f.uhi -= 1
            elif pred in ("ult", "ule", "ugt", "uge"):
                if a.is_const():
                    ok = {"ult": a.k1 < c, "ule": a.k1 <= c, "ugt": a.k1 > c, "uge": a.k1 >= c}[pred]
                    return [self] if ok else []
                if a.lin is not None and a.lin != 0 and W == self.w and a.om != mask(W):
                    # a == old + d exactly; usable when the addition cannot wrap given what is known about old
                    d = a.lin
                    if d < 0 and f.ulo >= -d:
                        lo2, hi2 = {"ult": (0, c - 1), "ule": (0, c), "ugt": (c + 1, mask(W)), "uge": (c, mask(W))}[pred]
                        f.ulo = max(f.ulo, lo2 - d)
                        f.uhi = min(f.uhi, hi2 - d) if hi2 - d <= mask(W) else f.uhi
                elif a.om == mask(W) and W == self.w:
                    if pred == "ult":
                        f.uhi = min(f.uhi, c - 1)
                    elif pred == "ule":
                        f.uhi = min(f.uhi, c)
                    elif pred == "ugt":
                        f.ulo = max(f.ulo, c + 1)
                    else:
                        f.ulo = max(f.ulo, c)
                else:
                    # masked view: (old & M) < 2^k  => bits >= k of M are zero in old
                    hi = None
                    if pred == "ult" and c > 0:
                        hi = c - 1
                    elif pred == "ule":
                        hi = c
                    if hi is not None:
                        zero = mask(W) & ~mask(hi.bit_length())
                        f.k0 |= a.om & zero
                        f.k1 |= a.nm & zero
            elif pred in ("slt", "sge") and c == 0 and a.om >> (W - 1) & 1 and W == self.w:
                if pred == "slt":
                    f.k1 |= 1 << (W - 1)
                else:
                    f.k0 |= 1 << (W - 1)
        else:
            if pred == "eq" and (a.om == mask(W) or b.om == mask(W)) and W == self.w:
                other = b if a.om == mask(W) else a
                f.k1 |= other.k1
                f.k0 |= other.k0
                f.eq_exprs.append(db if a.om == mask(W) else da)
        f.notes.append(note)
        if not f.normalize():
            return []
        return [self]


class _FakeIcmp:
    def __init__(self, pred, a, b):
        self.d = {"pred": pred}
        self.ops = [a, b]


class Extractor:
    def __init__(self, prog, tier="quick", argbits=None):
        self.prog = prog
        self.bound = PATH_BOUND[tier]
        self.fn = None
        self.phi_guard = set()
        self.argbits = argbits or {}
        self.npaths = 0

    # -------------------------------------------------------------- argument known bits
    def compute_argbits(self, rounds=2):
        """known bits of integer parameters of internal functions, intersected over all direct call sites
        (functions whose address is taken are skipped). Two pessimistic rounds: each uses only sound facts."""
        prog = self.prog
        taken = set()
        def scan(x):
            if isinstance(x, list):
                if len(x) >= 2 and x[0] == "f" and isinstance(x[1], str):
                    taken.add(x[1])
                for y in x:
                    scan(y)
            elif isinstance(x, dict):
                for y in x.values():
                    scan(y)
        for m in prog.modules.values():
            for g in m.globals.values():
                scan(g.get("init"))
            for f in m.functions.values():
                for i in f.all_insts():
                    scan(i.ops)
        cands = {f.name: f for f in prog.all_functions() if f.d.get("linkage") in ("internal", "inline") and f.name not in taken}
        for _ in range(rounds):
            acc = {}
            for f in prog.all_functions():
                for c in f.all_insts():
                    if c.op != "call" or c.callee not in cands:
                        continue
                    tgt = cands[c.callee]
                    self.fn = f
                    ev = Ev(self, None, 64)
                    for n, a in enumerate(c.ops):
                        if n >= len(tgt.params):
                            break
                        ty = tgt.params[n][1]
                        if not (ty.startswith("i") and ty[1:].isdigit()):
                            continue
                        bv = ev.ev(a)
                        if bv.w != int(ty[1:]):
                            k = (0, 0)
                        else:
                            k = (bv.k0, bv.k1)
                        key = (c.callee, n)
                        if key in acc:
                            acc[key] = (acc[key][0] & k[0], acc[key][1] & k[1])
                        else:
                            acc[key] = k
            self.argbits = {k: v for k, v in acc.items() if v[0] or v[1]}
        return self.argbits

    # -------------------------------------------------------------- describe
    def describe(self, op, depth=0):
        k = op[0]
        if k == "c":
            return hex(op[1]) if op[1] > 9 else str(op[1])
        if k == "a":
            return self.fn.params[op[1]][0] or ("arg%d" % op[1])
        if k == "n":
            return "NULL"
        if k in ("g", "f"):
            return "@" + op[1]
        if k != "i":
            return "?"
        i = self.fn.insts[op[1]]
        if depth > 4:
            return "%%%d" % i.id
        sym = {"and": "&", "or": "|", "xor": "^", "add": "+", "sub": "-", "shl": "<<", "lshr": ">>", "mul": "*"}
        if i.op in sym:
            return "(%s %s %s)" % (self.describe(i.ops[0], depth + 1), sym[i.op], self.describe(i.ops[1], depth + 1))
        if i.op in ("zext", "sext", "trunc", "bitcast", "ptrtoint", "inttoptr"):
            return self.describe(i.ops[0], depth + 1)
        if i.op == "call":
            return "%s()" % (i.callee or "indirect")
        if i.op == "load":
            return "load(%s)" % "/".join(sorted(self.prog.fields(i)))
        if i.op == "phi":
            return "phi%d" % i.id
        if i.op == "icmp":
            return "(%s %s %s)" % (self.describe(i.ops[0], depth + 1), i.d["pred"], self.describe(i.ops[1], depth + 1))
        if i.op == "select":
            return "(%s ? %s : %s)" % (self.describe(i.ops[0], depth + 1), self.describe(i.ops[1], depth + 1), self.describe(i.ops[2], depth + 1))
        return "%%%d:%s" % (i.id, i.op)

    # -------------------------------------------------------------- sites
    def atomic_writes(self, fn, fields=None, plain=False):
        for i in fn.all_insts():
            if i.op in ("cmpxchg", "atomicrmw") or (i.op == "store" and (i.d.get("ord") != "na" or plain)):
                if fields is not None:
                    fl = self.prog.fields(i)
                    if not (fl & fields):
                        continue
                yield i

    def loop_old(self, fn, x):
        """for a cmpxchg x: (phi, header block) if the expected operand is the loop phi fed by x's own
        result, else (None, None)"""
        e = fn.inst(x.ops[1])
        if e is None or e.op != "phi":
            return None, None
        for v, frm in e.ops:
            vi = fn.inst(v)
            seen = 0
            while vi is not None and seen < 4:
                seen += 1
                if vi.op == "extractvalue" and fn.inst(vi.ops[0]) is x:
                    return e, e.block
                if vi.op == "select":
                    # select(success, old, returned)
                    cands = [fn.inst(vi.ops[1]), fn.inst(vi.ops[2])]
                    nxt = None
                    for c in cands:
                        if c is not None and c.op == "extractvalue" and fn.inst(c.ops[0]) is x:
                            return e, e.block
                    vi = nxt
                else:
                    break
        return None, None

    def transitions(self, fn, fields=None, plain=False):
        """yield Transition / GiveUp objects for every atomic write site of fn"""
        self.fn = fn
        out = []
        for x in self.atomic_writes(fn, fields, plain):
            fl = self.prog.fields(x)
            if x.op == "cmpxchg":
                w = x.d["vw"]
                phi, H = self.loop_old(fn, x)
                if phi is not None:
                    out.extend(self.cas_loop(fn, x, phi, H, fl, w))
                else:
                    out.append(self.cas_plain(fn, x, fl, w))
            elif x.op == "atomicrmw":
                w = x.d.get("w") or 64
                t = Transition(x, "rmw", fl, w, x.d["ord"])
                t.rmw = x.d["rmw"]
                ev = Ev(self, ("i", x.id), w)
                o = ev.ev(x.ops[1])
                old = BV.old(w)
                t.operand = o
                if o.w != w:
                    o = BV.unknown(w)
                t.new = {"or": old.or_, "and": old.and_, "xor": old.xor_, "xchg": lambda v: v,
                         "add": lambda v: old.addsub(v, 1, self.describe(x.ops[1])),
                         "sub": lambda v: old.addsub(v, -1, self.describe(x.ops[1]))}.get(t.rmw, lambda v: BV.unknown(w))(o)
                t.old = OldFacts(w)
                out.append(t)
            else:
                w = int(x.d["vty"][1:]) if x.d["vty"].startswith("i") and x.d["vty"][1:].isdigit() else 64
                t = Transition(x, "store", fl, w, x.d["ord"])
                ev = Ev(self, None, w)
                v = ev.ev(x.ops[0])
                t.new = v if v.w == w else BV.unknown(w)
                t.old = OldFacts(w)
                out.append(t)
        return out

    def cas_plain(self, fn, x, fl, w):
        t = Transition(x, "cas", fl, w, x.d["ord"], x.d.get("ford"))
        e = x.ops[1]
        ev0 = Ev(self, None, w)
        exp = ev0.ev(e)
        t.expected = exp
        facts = OldFacts(w)
        if exp.w == w:
            facts.k0, facts.k1 = exp.k0, exp.k1
        facts.eq_exprs.append(self.describe(e))
        facts.notes.append("old == " + self.describe(e))
        facts.normalize()
        oldkey = tuple(e[:2]) if e[0] == "i" else None
        ev = Ev(self, oldkey, w)
        new = ev.ev(x.ops[2])
        if new.w != w:
            new = BV.unknown(w)
        t.old = facts
        t.new = new.subst_old(facts.k0, facts.k1)
        return t

    def cas_loop(self, fn, x, phi, H, fl, w):
        C = x.block
        # blocks that can reach C without passing through H
        R = {C.id}
        st = [C]
        while st:
            b = st.pop()
            if b is H:
                continue
            for p in b.preds:
                if p.id not in R:
                    R.add(p.id)
                    st.append(p)
        R.add(H.id)
        out = []
        oldkey = ("i", phi.id)
        ev0 = Ev(self, oldkey, w)
        work = [(ev0, H, [H.id])]
        npaths = 0
        while work:
            ev, b, path = work.pop()
            self.npaths += 1
            npaths += 1
            if npaths > self.bound:
                raise AnalysisBroken("path bound exceeded in CAS body of %s at %s" % (fn.name, x.loc))
            if b is C:
                # evaluate selects feeding `new` path-sensitively: fork on selects whose condition involves old
                for e2 in self.split_selects(ev, x.ops[2]):
                    t = Transition(x, "cas-loop", fl, w, x.d["ord"], x.d.get("ford"))
                    if not e2.facts.normalize():
                        continue
                    e2.env = dict(e2.pins)
                    e2.final = True
                    new = e2.ev(x.ops[2])
                    if new.w != w:
                        new = BV.unknown(w)
                    if not e2.facts.normalize():
                        continue
                    t.old = e2.facts
                    t.new = new.subst_old(e2.facts.k0, e2.facts.k1)
                    t.path = path
                    out.append(t)
                if C is not H or True:
                    continue
            term = b.term
            if term.op == "br" and len(term.d["succs"]) == 2:
                s_true, s_false = term.d["succs"]
                e2 = ev.fork()
                for (e, tgt, truth) in ((ev, s_true, True), (e2, s_false, False)):
                    for e3 in e.assume(term.ops[0], truth):
                        self.follow(fn, x, e3, b, fn.blocks[tgt], path, R, H, work, out)
            elif term.op == "br":
                self.follow(fn, x, ev, b, fn.blocks[term.d["succs"][0]], path, R, H, work, out)
            elif term.op == "switch":
                for cv, tgt in term.d["cases"]:
                    self.follow(fn, x, ev.fork(), b, fn.blocks[tgt], path, R, H, work, out)
                self.follow(fn, x, ev.fork(), b, fn.blocks[term.d["default"]], path, R, H, work, out)
            else:
                # ret / unreachable inside region: a give-up
                out.append(GiveUp(x, ev.facts, b, None, path))
        return out

    def follow(self, fn, x, ev, b, tgt, path, R, H, work, out):
        if tgt.id not in R or tgt is H or tgt.id in path:
            if tgt is H and b is x.block:
                return
            out.append(GiveUp(x, ev.facts, b, tgt, path))
            return
        ev.pred[tgt.id] = b.id
        work.append((ev, tgt, path + [tgt.id]))

    def split_selects(self, ev, op, depth=0):
        """fork the evaluator on select instructions that feed `op` (so that `new` is exact per case)"""
        sels = []
        seen = set()
        def walk(o, d):
            if o[0] != "i" or d > 12 or o[1] in seen:
                return
            seen.add(o[1])
            if ("i", o[1]) == ev.oldkey:
                return
            i = ev.fn.insts[o[1]]
            if i.op == "phi":
                p = ev.pred.get(i.block.id)
                if p is not None:
                    for v, frm in i.ops:
                        if frm == p:
                            walk(v, d + 1)
                return
            if i.op == "select" and i.d.get("w") != 1:
                sels.append(i)
                walk(i.ops[1], d + 1)
                walk(i.ops[2], d + 1)
                return
            if i.op in ("and", "or", "xor", "add", "sub", "shl", "lshr", "zext", "trunc", "sext", "mul"):
                for oo in i.ops:
                    walk(oo, d + 1)
        walk(op, 0)
        states = [ev]
        for s in sels[:6]:
            nxt = []
            for e in states:
                e2 = e.fork()
                for e3 in e.assume(s.ops[0], True):
                    e3.choice[s.id] = True
                    e3.env = dict(e3.pins)
                    nxt.append(e3)
                for e3 in e2.assume(s.ops[0], False):
                    e3.choice[s.id] = False
                    e3.env = dict(e3.pins)
                    nxt.append(e3)
            states = nxt
        return states
