"""Verdict protocol, evidence files, known findings (DESIGN.md section 5)."""
import json, os, sys, time

from .build import VERIF, AnalysisBroken
from .build import scratch as build_scratch

HOLDS, VIOLATION, UNKNOWN = "HOLDS", "VIOLATION", "UNKNOWN"


class Finding:
    def __init__(self, rule, where, function, signature, message, details=None):
        self.rule = rule            # e.g. "C01-TR1"
        self.where = where          # file:line (documentation only)
        self.function = function    # source function holding the construct
        self.signature = signature  # semantic signature, stable under line moves
        self.message = message
        self.details = details or {}

    def key(self):
        return (self.rule, self.function, self.signature)

    def to_json(self):
        return {"rule": self.rule, "where": self.where, "function": self.function,
                "signature": self.signature, "message": self.message, "details": self.details}


class Report:
    def __init__(self, prop, tier, seed=0):
        self.prop = prop
        self.tier = tier
        self.seed = seed
        self.t0 = time.time()
        self.rules = {}          # rule id -> {"text":..., "instances": n, "held": n, "samples": [...]}
        self.findings = []       # violations
        self.unknowns = []       # analysis-broken reasons
        self.units = []
        self.functions_analysed = set()
        self.assumptions = []
        self.extra = {}

    # ---- rule bookkeeping
    def rule(self, rid, text, floor=1):
        r = self.rules.setdefault(rid, {"text": text, "instances": 0, "held": 0, "floor": floor, "samples": []})
        return rid

    def ok(self, rid, inst, sample=None):
        """one rule instance (obligation) discharged"""
        r = self.rules[rid]
        r["instances"] += 1
        r["held"] += 1
        if sample is not None and len(r["samples"]) < 4:
            r["samples"].append(sample)
        elif len(r["samples"]) < 4:
            r["samples"].append(str(inst))

    def violation(self, rid, where, function, signature, message, details=None):
        r = self.rules[rid]
        r["instances"] += 1
        self.findings.append(Finding(rid, where, function, signature, message, details))

    def unknown(self, rid, message):
        self.unknowns.append("%s: %s" % (rid, message))

    def require(self, rid, cond, where, function, signature, message, sample=None, details=None):
        if cond:
            self.ok(rid, signature, sample if sample is not None else "%s @ %s: %s" % (function, where, signature))
        else:
            self.violation(rid, where, function, signature, message, details)
        return cond

    def saw(self, fn):
        self.functions_analysed.add(fn if isinstance(fn, str) else fn.name)

    # ---- finish
    def classified(self, rid, name, ok, where, function, signature, message, sample=None):
        """who-may-write / who-may-call census: `name` must be in the rule's table (ok). A function the rules know (rule vocabulary) that is not in the
        table is a violation; a function with an unknown name (new or renamed since the rules were written) cannot be judged: it needs classification"""
        from . import build as _b
        if ok or _b.known_function(name):
            return self.require(rid, ok, where, function, signature, message, sample=sample)
        self.unknown(rid, "%s (at %s) is not in the rule vocabulary and matches no classified role: %s" % (name, where, message))

    def finish(self, level="other"):
        known = load_known()
        mine = [k for k in known if k.get("property") == self.prop and k.get("status") == "known"]
        real = []
        known_hit = []
        for f in self.findings:
            hit = None
            for k in mine:
                if k["rule"] == f.rule and k["function"] == f.function and k["signature"] == f.signature:
                    hit = k
                    break
            if hit:
                known_hit.append((f, hit))
            else:
                real.append(f)
        # instance floors: a rule that matched fewer sites than confirmed by reading is broken
        for rid, r in self.rules.items():
            if r["instances"] < r["floor"]:
                self.unknowns.append("%s: matched %d instances, floor is %d (rule would pass vacuously)"
                                     % (rid, r["instances"], r["floor"]))
        obligations = sum(r["instances"] for r in self.rules.values())
        discharged = sum(r["held"] for r in self.rules.values())
        wall = time.time() - self.t0
        samples = []
        for rid, r in sorted(self.rules.items()):
            for s in r["samples"][:2]:
                samples.append({"rule": rid, "instance": s})
        ev = {
            "property_id": self.prop,
            "tier": self.tier,
            "seed": self.seed,
            "level": level,
            "coverage": {
                "explanation": "static rule checking over the LLVM IR / AST of the current /repo tree: "
                               "every rule is evaluated on every matching construct (site, path, table entry); "
                               "an obligation is one (rule, construct) pair",
                "obligations": obligations,
                "discharged": discharged,
                "evaluations": obligations,
                "distinct_nontrivial": len({(rid, s) for rid, r in self.rules.items() for s in range(r["instances"])}),
                "rule": "one evaluation per (rule, construct); all are distinct program constructs; rules with "
                        "fewer matches than the hand-confirmed floor fail the run",
                "units": self.units,
                "functions_analysed": len(self.functions_analysed),
                "rules": {rid: {"text": r["text"], "instances": r["instances"], "held": r["held"], "floor": r["floor"]}
                          for rid, r in sorted(self.rules.items())},
                "samples": samples or ["(none)"],
                "checker_cmd": "bin/check %s --tier %s" % (self.prop, self.tier),
                "trusted_base": ["clang-14 front end and LLVM-14 sroa/mem2reg/instsimplify/early-cse/simplifycfg",
                                 "tools/llvm2facts.cc", "dqsa/*.py", "rules/%s.py" % self.prop],
                "unknown": self.unknowns,
                "known_findings_reported": [f.to_json() for f, _ in known_hit],
                "violations": [f.to_json() for f in real],
            },
            "assumptions": self.assumptions,
            "wall_s": round(wall, 3),
            "violations": len(real),
        }
        ev["coverage"].update(self.extra)
        if not os.environ.get("VERIF_NO_EVIDENCE"):
            os.makedirs(os.path.join(VERIF, "evidence"), exist_ok=True)
            evpath = os.path.join(VERIF, "evidence", "%s.json" % self.prop)
            with open(evpath, "w") as f:
                json.dump(ev, f, indent=1, sort_keys=True)
                f.write("\n")
        print("== %s tier=%s: %d obligations over %d rules, %d discharged, %d known findings, %d violations, %d unknown (%.1fs)"
              % (self.prop, self.tier, obligations, len(self.rules), discharged, len(known_hit), len(real), len(self.unknowns), wall))
        for rid, r in sorted(self.rules.items()):
            print("   %-10s %3d/%-3d %s" % (rid, r["held"], r["instances"], r["text"][:110]))
        for f, k in known_hit:
            print("KNOWN-FINDING: property=%s %s %s in %s (%s): %s" % (self.prop, f.rule, f.signature, f.function, f.where, k.get("what", f.message)))
        if real:
            rdir = os.path.join(VERIF, "evidence", "replay") if not os.environ.get("VERIF_NO_EVIDENCE") else os.path.join(build_scratch(), "replay")
            os.makedirs(rdir, exist_ok=True)
            for n, f in enumerate(real):
                rp = os.path.join(rdir, "%s-%d.json" % (self.prop, n))
                with open(rp, "w") as fh:
                    json.dump(f.to_json(), fh, indent=1)
                print("   %s at %s in %s: %s" % (f.rule, f.where, f.function, f.message))
                print("VIOLATION property=%s replay=%s" % (self.prop, rp))
        # obligations that could not be evaluated are always shown; they decide the exit code only when no rule found a concrete violation
        # (a violation is reported by a rule that DID evaluate, at a named construct; it stands whether or not another obligation was undecidable)
        for u in self.unknowns:
            print("ANALYSIS-BROKEN: %s" % u)
        if real:
            return 1
        if self.unknowns:
            return 2
        return 0


def load_known():
    p = os.path.join(VERIF, "known_findings.json")
    if not os.path.exists(p):
        return []
    with open(p) as f:
        return json.load(f).get("findings", [])
