"""Small path-sensitive helpers for MP / OD / CC rules: acyclic path enumeration between program
points with pruning by phi-resolved constant / null facts (llvm.assume, earlier branch edges)."""
from .build import AnalysisBroken

NULL, NONNULL, UNK = "null", "nonnull", None


class PathCtx:
    """facts accumulated along one block path"""

    def __init__(self, fn):
        self.fn = fn
        self.pred = {}
        self.nonnull = set()   # inst ids / ('a', n) known non-null (or non-zero)
        self.isnull = set()
        self.consts = {}       # inst id -> int
        self.truth = {}        # cond inst id -> bool (branch edges taken / assumes)
        self.pending = []      # disjunctive facts (operand, truth) not yet decomposable

    def copy(self):
        c = PathCtx(self.fn)
        c.pred = dict(self.pred)
        c.nonnull = set(self.nonnull)
        c.isnull = set(self.isnull)
        c.consts = dict(self.consts)
        c.truth = dict(self.truth)
        c.pending = list(self.pending)
        return c

    def resolve(self, op, depth=0):
        """follow phis (along the path) and casts to a root operand"""
        while op[0] == "i" and depth < 40:
            depth += 1
            i = self.fn.insts[op[1]]
            if i.op == "phi":
                p = self.pred.get(i.block.id)
                nxt = None
                if p is not None:
                    for v, frm in i.ops:
                        if frm == p:
                            nxt = v
                            break
                if nxt is None:
                    return op
                op = nxt
                continue
            if i.op in ("bitcast", "zext", "sext", "ptrtoint", "inttoptr", "trunc"):
                # trunc only when used as boolean of zext: keep simple
                if i.op == "trunc":
                    return op
                op = i.ops[0]
                continue
            return op
        return op

    def value(self, op):
        """('c', n) | NULL | NONNULL | None"""
        r = self.resolve(op)
        if r[0] == "c":
            return ("c", r[1])
        if r[0] == "n":
            return NULL
        if r[0] == "ce":
            return NONNULL
        if r[0] in ("g", "f"):
            return NONNULL
        key = tuple(r[:2])
        if r[0] == "i" and r[1] in self.consts:
            return ("c", self.consts[r[1]])
        if key in self.nonnull:
            return NONNULL
        if key in self.isnull:
            return NULL
        if r[0] == "i":
            i = self.fn.insts[r[1]]
            if i.op == "select":
                t = self.cond(i.ops[0])
                if t is not None:
                    return self.value(i.ops[1] if t else i.ops[2])
            if i.op in ("alloca", "getelementptr"):
                return NONNULL
        return UNK

    def cond(self, op):
        """truth value of an i1 operand on this path, or None"""
        r = self.resolve(op)
        if r[0] == "c":
            return bool(r[1])
        if r[0] != "i":
            return None
        i = self.fn.insts[r[1]]
        if i.id in self.truth:
            return self.truth[i.id]
        if i.op == "xor" and i.ops[1][0] == "c" and i.ops[1][1] == 1:
            t = self.cond(i.ops[0])
            return None if t is None else (not t)
        if i.op == "trunc":
            # a C `bool` local: i1 widened (zext) into an i8, merged by phis, narrowed again for the test
            r2 = self.resolve(i.ops[0])
            if r2[0] == "c":
                return bool(r2[1] & 1)
            if r2[0] == "i" and r2[1] != i.id:
                j = self.fn.insts[r2[1]]
                if j.id in self.truth:
                    return self.truth[j.id]
                if j.op in ("icmp", "xor", "and", "or", "select", "call") and (j.d.get("w") == 1 or j.d.get("ty") == "i1" or j.op in ("icmp", "call")):
                    return self.cond(r2)
            return None
        if i.op == "icmp":
            a, b = self.value(i.ops[0]), self.value(i.ops[1])
            pred = i.d["pred"]
            if pred in ("eq", "ne"):
                eq = None
                za = a == NULL or a == ("c", 0)
                zb = b == NULL or b == ("c", 0)
                if a is not None and b is not None:
                    if isinstance(a, tuple) and isinstance(b, tuple):
                        eq = a[1] == b[1]
                    elif za and zb:
                        eq = True
                    elif (za and (b == NONNULL or (isinstance(b, tuple) and b[1] != 0))) or (zb and (a == NONNULL or (isinstance(a, tuple) and a[1] != 0))):
                        eq = False
                if eq is None:
                    # same root on both sides
                    if self.resolve(i.ops[0]) == self.resolve(i.ops[1]):
                        eq = True
                if eq is not None:
                    return eq if pred == "eq" else not eq
            elif isinstance(a, tuple) and isinstance(b, tuple):
                x, y = a[1], b[1]
                w = i.ops[0][2] if i.ops[0][0] == "c" else 64
                def s(v):
                    return v - (1 << 64) if v >> 63 else v
                return {"ult": x < y, "ule": x <= y, "ugt": x > y, "uge": x >= y,
                        "slt": s(x) < s(y), "sle": s(x) <= s(y), "sgt": s(x) > s(y), "sge": s(x) >= s(y)}.get(pred)
            return None
        if i.op in ("and", "or") and i.d.get("w") == 1:
            a, b = self.cond(i.ops[0]), self.cond(i.ops[1])
            if i.op == "and":
                if a is False or b is False:
                    return False
                if a and b:
                    return True
            else:
                if a or b:
                    return True
                if a is False and b is False:
                    return False
            return None
        if i.op == "select" and i.d.get("w") == 1:
            c = self.cond(i.ops[0])
            if c is not None:
                return self.cond(i.ops[1] if c else i.ops[2])
            x, y = self.cond(i.ops[1]), self.cond(i.ops[2])
            if x is not None and x == y:
                return x
            return None
        if i.op == "and" and i.d.get("w", 0) > 1:
            return None
        return None

    def learn(self, op, truth):
        """record that i1 operand `op` is `truth`; derive null facts; revisit earlier disjunctions"""
        self._learn(op, truth)
        for _ in range(3):
            pend, self.pending = self.pending, []
            progressed = False
            for o, t in pend:
                n0 = len(self.truth)
                self._learn(o, t, revisit=True)
                if len(self.truth) > n0:
                    progressed = True
            if not progressed:
                break

    def _learn(self, op, truth, revisit=False):
        r = self.resolve(op)
        if r[0] != "i":
            return
        i = self.fn.insts[r[1]]
        self.truth[i.id] = truth
        if i.op == "xor" and i.ops[1][0] == "c" and i.ops[1][1] == 1:
            self._learn(i.ops[0], not truth)
        elif i.op == "icmp" and i.d["pred"] in ("eq", "ne"):
            eq = (i.d["pred"] == "eq") == truth
            for x, y in ((i.ops[0], i.ops[1]), (i.ops[1], i.ops[0])):
                vy = self.value(y)
                rx = self.resolve(x)
                if rx[0] not in ("i", "a"):
                    continue
                k = tuple(rx[:2])
                if vy == NULL or vy == ("c", 0):
                    (self.isnull if eq else self.nonnull).add(k)
                elif isinstance(vy, tuple) and eq and rx[0] == "i":
                    self.consts[rx[1]] = vy[1]
        elif i.op in ("and", "or") and i.d.get("w") == 1:
            if (i.op == "and") == truth:
                self._learn(i.ops[0], truth)
                self._learn(i.ops[1], truth)
            else:
                # disjunctive information: if one side is already decided the other way, the other side carries it
                a, b = self.cond(i.ops[0]), self.cond(i.ops[1])
                if a is not None and a != truth:
                    self._learn(i.ops[1], truth)
                elif b is not None and b != truth:
                    self._learn(i.ops[0], truth)
                elif a is None and b is None and (op, truth) not in self.pending:
                    self.pending.append((op, truth))
        elif i.op == "select" and i.d.get("w") == 1:
            c, x, y = i.ops
            if y[0] == "c" and y[1] == 0:          # c && x
                if truth:
                    self._learn(c, True)
                    self._learn(x, True)
                elif self.cond(c) is True:
                    self._learn(x, False)
                elif self.cond(x) is True:
                    self._learn(c, False)
            elif x[0] == "c" and x[1] == 1:        # c || y
                if not truth:
                    self._learn(c, False)
                    self._learn(y, False)
                elif self.cond(c) is False:
                    self._learn(y, True)
                elif self.cond(y) is False:
                    self._learn(c, True)

    def enter(self, frm, to):
        """take CFG edge frm->to (block objects); returns False if the edge contradicts known facts"""
        t = frm.term
        if t.op == "br" and len(t.d.get("succs", [])) == 2:
            st, sf = t.d["succs"]
            if st != sf:
                want = True if to.id == st else False
                c = self.cond(t.ops[0])
                if c is not None and c != want:
                    return False
                self.learn(t.ops[0], want)
        elif t.op == "switch":
            v = self.value(t.ops[0])
            tgt = None
            if isinstance(v, tuple):
                tgt = t.d["default"]
                for cv, b in t.d["cases"]:
                    if cv == v[1]:
                        tgt = b
                if tgt != to.id:
                    return False
            elif v == NULL:
                tgt = t.d["default"]
                for cv, b in t.d["cases"]:
                    if cv == 0:
                        tgt = b
                if tgt != to.id:
                    return False
            else:
                r = self.resolve(t.ops[0])
                cases_here = [cv for cv, b in t.d["cases"] if b == to.id]
                if r[0] == "i" and len(cases_here) == 1 and to.id != t.d["default"]:
                    self.consts[r[1]] = cases_here[0]
                    if cases_here[0] == 0:
                        self.isnull.add(tuple(r[:2]))
                elif r[0] in ("i", "a") and to.id == t.d["default"] and any(cv == 0 for cv, b in t.d["cases"]):
                    self.nonnull.add(tuple(r[:2]))
        self.pred[to.id] = frm.id
        # assumes in the entered block are learnt lazily by scan()
        return True

    def scan(self, block, lo=0, hi=None):
        """learn llvm.assume facts of block[lo:hi]"""
        for i in block.insts[lo:hi]:
            if i.op == "call" and i.callee == "llvm.assume":
                self.learn(i.ops[0], True)


def walk(fn, start, stop_at, avoid=(), bound=20000, ctx=None, on_exit=None):
    """Enumerate feasible acyclic paths starting just after instruction `start`.
    stop_at: predicate(inst) -> True ends the path successfully at that inst (yielded as ('hit', inst, ctx, path))
    avoid:   predicate(inst) -> True prunes the path silently ("passes through an allowed discharge")
    function returns are yielded as ('exit', ret inst, ctx, path); trap blocks end silently.
    Loops: a block is not revisited on one path (back edges are cut)."""
    out = []
    c0 = ctx.copy() if ctx else PathCtx(fn)
    work = [(start.block, start.idx + 1, c0, [start.block.id])]
    n = 0
    while work:
        b, idx, c, path = work.pop()
        n += 1
        if n > bound:
            raise AnalysisBroken("path bound exceeded walking %s from %s" % (fn.name, start.loc))
        c.scan(b, idx)
        ended = False
        for i in b.insts[idx:]:
            if avoid and avoid(i):
                ended = True
                break
            if stop_at(i):
                out.append(("hit", i, c, path))
                ended = True
                break
        if ended:
            continue
        t = b.term
        if t.op == "ret":
            out.append(("exit", t, c, path))
            continue
        if t.op == "unreachable":
            continue
        succs = b.succs
        for k, s in enumerate(succs):
            if s.id in path:
                # back edge: report as loop re-entry
                out.append(("loop", s.insts[0], c, path + [s.id]))
                continue
            c2 = c.copy() if k < len(succs) - 1 else c
            if not c2.enter(b, s):
                continue
            work.append((s, 0, c2, path + [s.id]))
    return out


def branch_edges(fn, value_inst):
    """for a boolean-ish value (i1, or integer tested against 0) find conditional branches that test it.
    Returns list of (br_inst, succ_if_true, succ_if_false)."""
    res = []
    seen = set()
    work = [(value_inst, True)]
    while work:
        v, pol = work.pop()
        if v.id in seen:
            continue
        seen.add(v.id)
        for u in fn.users(v):
            if u.op == "br" and u.ops and fn.inst(u.ops[0]) is v:
                st, sf = u.d["succs"]
                res.append((u, st if pol else sf, sf if pol else st))
            elif u.op == "xor" and u.ops[1][0] == "c" and u.ops[1][1] == 1:
                work.append((u, not pol))
            elif u.op in ("zext", "sext", "trunc"):
                work.append((u, pol))
            elif u.op == "icmp" and u.d["pred"] in ("ne", "eq"):
                other = u.ops[1] if fn.inst(u.ops[0]) is v else u.ops[0]
                if other[0] in ("c", "n") and (other[0] == "n" or other[1] == 0):
                    work.append((u, pol if u.d["pred"] == "ne" else not pol))
            elif u.op == "phi":
                pass
    return res


def dom_ctx(fn, inst):
    """facts that hold on EVERY path reaching `inst`: conditions of branches one of whose successors dominates
    inst's block while the other does not (edge dominance), decomposed through and/or/select/not.
    Cheap alternative to path enumeration for functions with many independent branches."""
    ctx = PathCtx(fn)
    target = inst.block.id
    idom, VR = fn.idom()
    chain = []
    b = target
    while b in idom and b != VR:
        chain.append(b)
        nb = idom[b]
        if nb == b:
            break
        b = nb
    chain.reverse()
    for bid in chain:
        blk = fn.blocks[bid]
        t = blk.term
        if t.op != "br" or len(t.d.get("succs", [])) != 2:
            continue
        st, sf = t.d["succs"]
        if st == sf:
            continue
        def edge_dominates(s, other):
            if not fn.block_dominates(s, target) or fn.block_dominates(other, target) and other != s:
                return False
            # entering s must imply the edge blk->s was taken: every other predecessor of s is dominated by s (back edges)
            for p in fn.blocks[s].preds:
                if p.id != bid and not fn.block_dominates(s, p.id):
                    return False
            return True
        if bid == target:
            continue
        if edge_dominates(st, sf):
            ctx.learn(t.ops[0], True)
        elif edge_dominates(sf, st):
            ctx.learn(t.ops[0], False)
    # assumes in dominating blocks
    for bid in chain:
        blk = fn.blocks[bid]
        hi = inst.idx if bid == target else None
        ctx.scan(blk, 0, hi)
    return ctx
