"""Compile-database discovery and per-unit fact generation (DESIGN.md 2.1).

Everything is rebuilt from the current working tree of the repository on every
run into a private scratch directory that is removed on exit.
"""
import atexit, json, os, shlex, shutil, subprocess, sys, tempfile, hashlib
from concurrent.futures import ThreadPoolExecutor

VERIF = os.path.dirname(os.path.dirname(os.path.abspath(__file__)))
REPO = os.environ.get("VERIF_REPO", "/repo")
LLVM2FACTS = os.path.join(VERIF, "build", "llvm2facts")
CLANG = "clang-14"


class AnalysisBroken(Exception):
    """exit code 2: the analysis could not be carried out (never a verdict)."""


_scratch = None


def scratch():
    global _scratch
    if _scratch is None:
        _scratch = tempfile.mkdtemp(prefix="verif.")
        atexit.register(shutil.rmtree, _scratch, True)
    return _scratch


def ensure_tool():
    src = os.path.join(VERIF, "tools", "llvm2facts.cc")
    if (not os.path.exists(LLVM2FACTS)) or os.path.getmtime(LLVM2FACTS) < os.path.getmtime(src):
        os.makedirs(os.path.dirname(LLVM2FACTS), exist_ok=True)
        cxxflags = subprocess.check_output(["llvm-config-14", "--cxxflags"], text=True).split()
        cmd = ["clang++"] + cxxflags + ["-fno-rtti", "-O1", src, "-o", LLVM2FACTS,
                                        "/usr/lib/llvm-14/lib/libLLVM-14.so"]
        r = subprocess.run(cmd, capture_output=True, text=True)
        if r.returncode != 0:
            raise AnalysisBroken("cannot build llvm2facts: " + r.stderr[-2000:])


def _builddir(repo):
    """Return a directory holding build.ninja + generated config headers."""
    b = os.path.join(repo, "_build")
    if os.path.exists(os.path.join(b, "build.ninja")):
        return b
    b = os.path.join(scratch(), "cfg")
    r = subprocess.run(["cmake", "-G", "Ninja", "-S", repo, "-B", b,
                        "-DCMAKE_BUILD_TYPE=RelWithDebInfo",
                        "-DCMAKE_C_COMPILER=clang-16", "-DCMAKE_CXX_COMPILER=clang++-16"],
                       capture_output=True, text=True)
    if r.returncode != 0:
        raise AnalysisBroken("cmake configure failed: " + r.stderr[-2000:])
    return b


_compdb_cache = {}


def compdb(repo=None):
    """unit name (relative to src/, without extension) -> (source file, flag list)."""
    repo = repo or REPO
    if repo in _compdb_cache:
        return _compdb_cache[repo]
    b = _builddir(repo)
    r = subprocess.run(["ninja", "-C", b, "-t", "compdb"], capture_output=True, text=True)
    if r.returncode != 0:
        raise AnalysisBroken("ninja -t compdb failed: " + r.stderr[-2000:])
    db = json.loads(r.stdout)
    units = {}
    # the build dir may belong to another checkout (worktree analysed through
    # VERIF_REPO): rewrite its source root to the analysed one
    srcroot = os.path.join(repo, "src") + os.sep
    for e in db:
        f = e["file"]
        if "/src/" not in f or "/BlocksRuntime/" in f or not f.endswith(".c"):
            continue
        rel = f.split("/src/", 1)[1]
        name = rel[:-2]
        if name in units:
            continue
        args = shlex.split(e["command"])
        keep = []
        skip = False
        for i, a in enumerate(args[1:]):
            if skip:
                skip = False
                continue
            if a in ("-o", "-MF", "-MT", "-MQ"):
                skip = True
                continue
            if a in ("-c", "-MD", "-MMD") or a.startswith("-W") or a.startswith("-fmodule") or \
               a.startswith("-O") or a == "-g" or a.startswith("-fcolor") or a.startswith("-fdiagnostics"):
                continue
            if a.endswith(".c") and not a.startswith("-"):
                continue
            keep.append(a)
        units[name] = (os.path.join(repo, "src", rel), keep, e["directory"])
    if len(units) < 20:
        raise AnalysisBroken("compile database has only %d src units (expected >= 20)" % len(units))
    _compdb_cache[repo] = units
    return units


def source_override(units, srcdir):
    """Analyse a scratch copy of src/ (used by the mutant self-test)."""
    out = {}
    for n, (f, flags, d) in units.items():
        rel = f.split("/src/", 1)[1]
        nf = os.path.join(srcdir, rel)
        oldsrc = f[: -len(rel)]
        nflags = []
        for a in flags:
            if a.startswith("-I") and os.path.normpath(a[2:]) == os.path.normpath(oldsrc):
                a = "-I" + srcdir
            nflags.append(a)
        # headers of the copy first (src/ and, when the copy has them, the public / private header roots)
        root = os.path.dirname(os.path.normpath(srcdir))
        extra = ["-I" + srcdir]
        if os.path.isdir(os.path.join(root, "dispatch")):
            extra += ["-I" + root]
        if os.path.isdir(os.path.join(root, "private")):
            extra += ["-I" + os.path.join(root, "private")]
        out[n] = (nf, extra + nflags, d)
    return out


ALL_UNITS_MIN = 20
# names of all functions defined on the tree the rules were written against (bin/mkvocab); see tools/llvm2facts.cc --known
VOCAB = os.path.join(os.path.dirname(os.path.dirname(os.path.abspath(__file__))), "vocab", "functions.txt")


SIGS = os.path.join(os.path.dirname(VOCAB), "signatures.tsv")


def known_function(name):
    global _KNOWN
    try:
        return name in _KNOWN
    except NameError:
        _KNOWN = set(open(VOCAB).read().split()) if os.path.exists(VOCAB) else set()
        return name in _KNOWN


def _compile_unit(name, src, flags, cwd, mode, force_inline=()):
    sd = scratch()
    tag = name.replace("/", "_") + "." + mode + ("".join("+" + f for f in force_inline))
    bc = os.path.join(sd, tag + ".bc")
    js = os.path.join(sd, tag + ".json")
    if os.path.exists(js):
        return js
    cmd = [CLANG] + flags + ["-w", "-O0", "-g", "-Xclang", "-disable-llvm-passes", "-Xclang",
                             "-disable-O0-optnone", "-emit-llvm", "-c", src, "-o", bc]
    r = subprocess.run(cmd, capture_output=True, text=True, cwd=cwd if os.path.isdir(cwd) else None)
    if r.returncode != 0:
        raise AnalysisBroken("clang-14 failed on %s: %s" % (src, r.stderr[-3000:]))
    args = [LLVM2FACTS, bc, js, "--inline=" + mode, "--unit=" + name]
    if force_inline:
        args.append("--force-inline=" + ",".join(force_inline))
    if os.path.exists(VOCAB):
        args.append("--known=" + VOCAB)
        if os.path.exists(SIGS):
            args.append("--sigs=" + SIGS)
    if os.environ.get("VERIF_DUMP_SIGS"):
        args.append("--dump-sigs=" + js + ".sigs")
    r = subprocess.run(args, capture_output=True, text=True)
    if r.returncode != 0:
        raise AnalysisBroken("llvm2facts failed on %s: %s" % (src, r.stderr[-3000:]))
    os.unlink(bc)
    return js


def facts_for(unit_names, mode="leaves", repo=None, srcdir=None, force_inline=()):
    """Compile the named units (in parallel) and return {unit: path to facts json}."""
    ensure_tool()
    units = compdb(repo)
    if srcdir:
        units = source_override(units, srcdir)
    if unit_names == "all":
        unit_names = sorted(units)
    missing = [u for u in unit_names if u not in units]
    if missing:
        raise AnalysisBroken("units not in the compile database: %s" % missing)
    with ThreadPoolExecutor(max_workers=min(16, len(unit_names))) as ex:
        futs = {u: ex.submit(_compile_unit, u, units[u][0], units[u][1], units[u][2], mode, tuple(force_inline)) for u in unit_names}
        return {u: f.result() for u, f in futs.items()}


def ast_flags(unit, repo=None, srcdir=None):
    units = compdb(repo)
    if srcdir:
        units = source_override(units, srcdir)
    src, flags, cwd = units[unit]
    return src, flags + ["-w"], cwd


def facts_for_snippet(name, code, mode="leaves", repo=None, srcdir=None, unit="queue", public_only=False):
    """compile a generated translation unit (client-side view of the public headers, or a probe of internal
    inline functions) with the flags of `unit` and return the path of its facts"""
    ensure_tool()
    units = compdb(repo)
    if srcdir:
        units = source_override(units, srcdir)
    src, flags, cwd = units[unit]
    sd = scratch()
    cfile = os.path.join(sd, "snippet_%s.c" % name)
    with open(cfile, "w") as f:
        f.write(code)
    if srcdir:
        # public headers of the analysed copy first (../dispatch next to src/)
        root = os.path.dirname(os.path.normpath(srcdir))
        if os.path.isdir(os.path.join(root, "dispatch")):
            flags = ["-I" + root] + flags
    return _compile_unit("snippet_" + name, cfile, flags, cwd, mode)
